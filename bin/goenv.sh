# sourced by every script that runs go: offline, never touches /repo/go.mod
export GOFLAGS=-mod=mod GOPROXY=off GOSUMDB=off GOTOOLCHAIN=local CGO_ENABLED=0
