# Per-property configuration of bin/check: harness suites, Lean driver, generated inputs, and the
# statements that go into the evidence files.
KERNEL = "Lean 4.33.0 kernel (lake build; #print axioms of every theorem of the Props file ⊆ {propext, Classical.choice, Quot.sound}; no sorry/admit/axiom/native_decide/bv_decide)"
HARNESS = "tools/harness (scripted IOPort, independent frame encoder/grammar, canonicaliser) and bin/check's line comparer"
GOSTD = "Go compiler/runtime and the standard library pieces the code uses (bufio.Reader modelled as an unbounded buffer, fmt %X/%q/%w, encoding/hex, encoding/binary, strconv) — modelled, not verified"

PROTO = dict(driver="driverproto", lake_targets=["driverproto"], tools=["harness"])

PROPS = {
    "C03": dict(PROTO, suites=["c03", "c03x@"], exhaustive=True,
        trivial=r"^$",
        rule="T lines: all 7 commands x all 65536 addresses through VeCommand on a silent port (exhaustive), real frame vs Lean `tx`; "
             "P lines: every typed entry point (raw/uint/int/str, ping, devid) on a silent port (8 attempts) over a stride of addresses (all 65536 in thorough); "
             "a line is non-trivial if it produced at least one written frame; distinct = distinct operation lines",
        trusted_base=[KERNEL, HARNESS, GOSTD, "hand-written model Victron/Model/{Frame,Proto}.lean tied to vedirect/*.go by exhaustive correspondence (T3)"],
        assumptions=["VeCommand is deterministic", "the 7 defined commands are the command space (VeCommand accepts any byte; a two-nibble command is outside the property)"],
        explanation="theorems: txFrame_wellformed/tx_wellformed (all commands, ALL addresses, by arithmetic not enumeration), tx_payload, get_writes_are_frames (≤ 8 copies of one frame per register access, any port behaviour), command_writes_one_frame"),
}

MODEL_PROTO = "hand-written model Victron/Model/{Frame,Proto}.lean of vedirect/*.go tied to the code by the correspondence check (T3): scripted port semantics (tools/harness/port.go = Victron.Port) are part of the tie"
CLOCK = "the 100 ms idle test reads time.Now(): 'idle' is an input of the model, taken per attempt from the flushes the harness observed; 'slept >= 110 ms (or first call) => flush observed' is asserted by the harness"

PROPS.update({
    "C01": dict(PROTO, suites=["c01"], trivial=r"^err:other W=",
        rule="scenario lines: for each base exchange (all widths, text, extreme addresses, short check bytes) every single-character substitution (16 hex digits, ':', newline, 'A', non-hex), deletion, truncation, insertion, random two-character corruptions (incl. check-byte-preserving), all 16 response nibbles, foreign addresses, all 256 flags, splices, noise/async around, lower-case hex, short check-byte-valid frames; device-id frames likewise; spread over 1..8 attempts and chunkings. non-trivial = the call did not simply give up after 8 unanswered attempts' worth of plain rejection, i.e. outcome is a value, a device error or fewer than 8 frames",
        trusted_base=[KERNEL, HARNESS, GOSTD, MODEL_PROTO],
        assumptions=["bufio.Reader behaves as an unbounded buffer (exercised with up to 40 KiB of pending noise in 1 KiB chunks)", CLOCK],
        explanation="theorems: veCommand_sound, get_sound/getRaw_sound (value only from a complete valid type-7 frame with the requested address, flag 0, correct check byte pending after some attempt's command; payload decoded exactly), get_sound_received (the accepting state is the one reached from the call's state by attempts that all retried, and what was pending there is a subsequence of the bytes pending at the call followed by the replies the port delivered since: bytes are dropped, never invented or reordered), uint/int/string_sound, deviceId_sound, reject_{truncated,wrong_type,odd_length,non_hex,bad_check_byte,foreign_address,nonzero_flag}"),
    "C02": dict(PROTO, suites=["c02"], trivial=r"^$", exhaustive={"quick": False, "thorough": True},
        rule="exhaustive 1-byte values (6 addresses x both accessors), 2-byte values (every 5th + boundaries in quick, all 65536 in thorough), boundary and random 4/8-byte values on random addresses, uninterpretable widths, all strings of length <= 1 (<= 2 thorough) with NUL padding, random strings up to 64 bytes with interior NULs, device ids (every 3rd quick / all 65536 thorough), call histories on one driver with every returned []byte retained and re-compared at the end (aliasing clause); distinct = distinct operation lines",
        trusted_base=[KERNEL, HARNESS, GOSTD, MODEL_PROTO],
        assumptions=["the aliasing clause ('values already returned are not altered by later calls') is about Go's heap; the functional model has no aliasing, so that clause is checked by the harness only (retained slices re-compared), see coverage.measured.retained_slices_rechecked", CLOCK],
        explanation="theorems: uint_roundtrip (all w<=8), int_roundtrip (w in {1,2,4,8}, full signed range), int_width_error, string_roundtrip, deviceId_roundtrip, wire_roundtrip (decode∘encode for every address and payload), get_roundtrip (end to end through the driver model)"),
    "C04": dict(PROTO, suites=["c04"], trivial=r"^$",
        rule="reaction sequences over the alphabet {silence, noise, async*, bad frame, foreign-address frame, partial frame, several frames, async+noise}: exhaustive for prefixes of length <= 2 (3 thorough) followed by the good frame, random prefixes with the good frame at attempt 1..9 and never; expectation computed by an independent reference consumer (refGet) written from the property text; idle / non-idle histories with stale good frames (real 110 ms sleeps)",
        trusted_base=[KERNEL, HARNESS, GOSTD, MODEL_PROTO],
        assumptions=[CLOCK, "'within its first eight attempts the device delivers' is read as 'is consumed within eight attempts' (a good frame queued behind a bad frame in the eighth reply is not reached)"],
        explanation="theorems: skip (resynchronisation over noise and async frames, any chunking), success_within_eight (exactly k frames written), give_up (exactly 8 writes), writes_le_eight, idle_flush (stale bytes have no influence after an idle flush)"),
    "C05": dict(PROTO, suites=["c05", "c05api@drivertables"], lake_targets=["driverproto", "drivertables"], tools=["extract", "harness"], gen=["tables"], trivial=r"^$",
        rule="addresses x flags {1,2,4} x accessors {raw,uint,int,str} x error frames with 0,1,2,4,8 trailing payload bytes, a good frame queued for a second attempt (must not be requested); the same behind 1..7 silent attempts; exactly k frames written is asserted",
        trusted_base=[KERNEL, HARNESS, GOSTD, MODEL_PROTO, "errors.Is / fmt.Errorf(%w) (Go) — the harness classifies real errors with errors.Is"],
        assumptions=[CLOCK],
        explanation="theorems: flag_kinds, error_frame_step, device_error_not_retried (typed error returned at once with exactly k frames), accessors_surface_error, api_wraps (every register reader keeps the error kind and attaches the register name; suite c05api: every register of every family x the three flags through the real register API, classified with errors.Is)"),
    "C06": dict(PROTO, suites=["c06", "c06api@"], trivial=r"^$",
        rule="(c06api, oracle only: every reader of every register definition through the real register API against a device that is silent / sends garbage / answers once with an odd width and falls silent / refuses: no panic, at most eight command frames per register access) structured streams (every response nibble x payload lengths 0..5, the valid frames of type 1/5/7 cut at every length, degenerate frames) x 15 call kinds; a failing Write/Read/Flush at every call index 0..9 for every call kind in three port situations; random byte streams biased to frame characters with embedded real frames and random faults; PANIC is an output value compared with the model",
        trusted_base=[KERNEL, HARNESS, GOSTD, MODEL_PROTO],
        assumptions=[CLOCK, "memory safety and liveness of the Go runtime, bufio's behaviour on 100 consecutive empty reads and an infinite stream are outside the model", "a hang of the real code shows as a harness timeout (reported as violation)"],
        explanation="theorems: veCommand_no_panic, get_no_panic, typed_no_panic, deviceId_no_panic, ping_no_panic, writes_bounded (<= 8), reads_bounded (<= credit + 8: every Read delivers device data or ends the attempt), failing_reads_bounded / command_failing_reads_bounded (at most eight Reads that deliver nothing per register access, one per command: the 'bounded number of reads once the port reports no more data' clause); totality of every model function is Lean's termination check"),
    "C18": dict(PROTO, suites=["c18"], trivial=r"^$", timeout=3000,
        rule="every scenario class of C01/C04/C05/C06 (sampled) and typed-call histories under all four logger configurations; traffic (results, bytes written, reads, flushes) compared across configurations by the harness and with the model; every I/O-log line parsed back with strconv.QuotedPrefix/Unquote; every single-exchange line replayed through a lookup port against the real driver; the file logger on real temporary files with previous content and 0..10000 lines",
        trusted_base=[KERNEL, HARNESS, GOSTD, MODEL_PROTO, "strconv.Unquote as the inverse of %q; OS append semantics"],
        assumptions=[CLOCK, "the debug log's text is not modelled (only its absence of effect)", "in the replay theorems the lookup port is a port that answers the next transmission with the logged reception (ReplayReady); the Go lookup port of the harness is keyed by the logged transmission, which the theorems show equals the frame the replaying call writes"],
        explanation="theorems: get/command/ping/deviceId/uint/int/string_transparent (erasing logger configuration commutes with every call), config_independent, uint_emits_one_line, no_logger_no_line, get/uint/int/string/deviceId/ping_replay (a call completed in a single exchange emits <tx frame, consumed bytes> and replays to the same result on any driver whose port answers with the logged bytes), file_append, file_append_step"),
})

TABLES = dict(driver="drivertables", lake_targets=["drivertables"], tools=["extract", "harness"], gen=["tables"])
T1 = "tools/extract (T1): the enumeration loops over all 65536 product ids, 256 type values, 256 command bytes, 256 bytes x 20 typed enum constructors, the index-to-name maps and the register tables of every Append function — and determinism of those functions; the emitted table IS the function graph"
MODEL_TABLES = "hand-written models Victron/Model/{Tables,Select}.lean (lookups, NewEnum range check, Fields/CommaString, list algebra, product->list switch) tied to the code by the correspondence check (T3)"

PROPS.update({
    "C12": dict(TABLES, suites=["c12", "c12cold@"], exhaustive=True, trivial=r"^$",
        rule="all 65536 product ids: the real GetRegisterListByProduct result (error kind + every attribute of every register) is grouped by identical content; per distinct content one SL line compares the full list with Select.list, and SG lines ask the model whether all ids of the group select the same list (500 ids per line) — i.e. full comparison for every id; the Go oracle independently checks class membership, uniqueness, factors, decoders per id",
        trusted_base=[KERNEL, HARNESS, GOSTD, T1, MODEL_TABLES],
        assumptions=["the load-output class is identified by the current rating (10, 15, 20 A) read off the model designation", "a product's class is the one of the product family of its id block (0x02xx BMV, 0xA38x smart BMV / SmartShunt, ...): the oracle reports a product whose type contradicts its id block", "Append functions append the same registers whatever the list already holds (validated by the exhaustive comparison)"],
        explanation="theorems: rows_ok (decide +kernel over every product row), list_by_class (all ids), class_solely, unsupported_empty, supported_ok, lists_ok (names/addresses unique, factors non-zero, decoders present in each of the 5 class lists), load_class"),
    "C13": dict(TABLES, suites=["c13", "c13cold@"], exhaustive=True, trivial=r"^0\|\|0\|\|-1\|-1\|0\|$",
        rule="all 65536 product ids (Exists, Model, Type, String, MaxPanelVoltage, MaxPanelCurrent, membership and value in GetStringMap), all 256 type values, all 256 command bytes: real observables vs the lookup in the regenerated table; non-trivial = a known product / named type / any response line; the Go oracle evaluates the property's predicates per id to name an offending id",
        trusted_base=[KERNEL, HARNESS, T1],
        assumptions=["id ranges of the categories: 0x02xx and 0xA38x BMV; 0x03xx, 0xA0xx, 0xA1xx solar; 0xA2xx and 0xA34x inverter; and of the product families within them: 0x02xx BMV, 0xA38x BMV Smart / SmartShunt, 0x03xx BlueSolar, 0xA0xx Blue/SmartSolar MPPT, 0xA1xx their VE.Can variants, 0xA2xx Phoenix Inverter (Smart), 0xA34x IP43 charger", "Phoenix ids 0xA2xy: x power class, y&7 battery voltage, y&8 120 V AC"],
        explanation="theorems: rows_ok / types_ok / ids_ascending / map_size (decide +kernel over the whole tables), known_iff, display_string, one_category, panel_numbers, phoenix_model, types_partition, ten_types — lifted to ALL ids by the lookup lemma"),
    "C14": dict(TABLES, suites=["c14", "c14cold@"], trivial=r"^err:invalid-enum$",
        rule="per factory (20): NewEnum over every integer in [-70000, 70000] (summarised as the accepted set with index and name, one ENR line), extreme integers (±2^63, ±2^31, 2^32+k, 2^16+k, …), random 64-bit integers, the typed constructor over all 256 bytes, IntToStringMap; the Go oracle checks 'succeeds iff key, index v, mapped non-empty name, else ErrInvalidEnumIdx' for each integer (coverage.measured.integers_checked)",
        trusted_base=[KERNEL, HARNESS, T1, MODEL_TABLES],
        assumptions=["NewEnum is a range check followed by the typed constructor on the byte (model); validated by the correspondence on 2.8 million integers per run"],
        explanation="theorems: tables_ok (decide +kernel: 20 tables x 256 bytes), newEnum_iff / newEnum_value / newEnum_error for EVERY integer v, typed_agrees"),
    "C15": dict(TABLES, suites=["c15", "c15cold@"], trivial=r"^$", exhaustive={"quick": False, "thorough": False},
        rule="per field-list type: all combinations of the documented bits x settings of the remaining bits (zero, all ones, random, bits >= 32), the 16-bit type exhaustively; Fields() compared with the model; each value rendered through the real register API (StreamRegisterList -> FieldListValue.CommaString) 8 times: all renderings identical, names exactly the set fields, equal to the model's rendering",
        trusted_base=[KERNEL, HARNESS, T1, MODEL_TABLES],
        assumptions=["determinism of a Go function that ranges over a map cannot be proved from a model; in the model rendering is a function, the repeated-rendering oracle checks the code"],
        explanation="theorems: fields_keys, fields_bit, undocumented_bits_irrelevant, tables_ok, width_truncation (bits >= width have no influence), render_exact, render_deterministic"),
    "C16": dict(TABLES, suites=["c16"], trivial=r"^0 ",
        rule="operation sequences over real registers of all three families (shared sort keys 200–205, duplicate names): exhaustive for sequences of length <= 3 (4 thorough) over a 10-letter alphabet (appends of each kind, kind/parity filters, name filters), random sequences up to length 200; after each sequence the four sequences, Len and GetRegisters are compared with the model and with four plain slices + insertion-stable sort (Go reference)",
        trusted_base=[KERNEL, HARNESS, T1, MODEL_TABLES, "core List.mergeSort lemmas (perm, pairwise, sublist stability)"],
        assumptions=["Go slices alias: that operations on a list leave an earlier by-value copy untouched holds trivially in the model (values) and is checked on the code by the harness ('k' keeps a copy that is only observed; 'p'/'q' append a caller-owned slice in two parts)"],
        explanation="theorems: run_refines (any op sequence = four independent plain sequences), filter_keeps_order, name_filter_drops_named, len_total, getRegisters_perm, getRegisters_sorted, getRegisters_stable"),
    "C17": dict(TABLES, suites=["c17"], trivial=r"^$",
        rule="every lookup function (product string map, 20 enum + 3 field-list index-to-name maps, Fields()/Decode() of field lists incl. raw 0, GetRegisterListByProduct for each class) x caller mutations (delete, overwrite, insert, in-place delete idiom, in-place sort, element overwrite, library append/filter) x a second and third call (same and sibling product); the later call's full content is compared with the table content of the model and with the first call",
        trusted_base=[KERNEL, HARNESS, T1, "the heap model of Props/C17.lean (copy-on-lookup)"],
        assumptions=["the theorem is about the heap model; that the code allocates as the model says is established only by the correspondence (level: proof on the model, partial w.r.t. Go reference semantics)"],
        explanation="theorems: step_internal, lookup_stable (any history of lookups and caller mutations), lookup_returns_original"),
})

MODEL_API = "hand-written model Victron/Model/{Api,Text}.lean of vedirectapi/registerApi.go over an abstract transport (outcome of VeCommandGet / Ping / GetDeviceId per call — their relation to device bytes is C01–C06), tied to the code by the correspondence (T3) against a reactive simulated device"

PROPS.update({
    "C09": dict(TABLES, suites=["c09"], trivial=r"^err:other@",
        rule="every register of the three families (pool of ~150 register instances, 26 distinct (kind, signed, factor, offset, decoder) definitions) x transport outcomes: silent, the three device error flags, an unknown flag, all 256 one-byte raws, two-byte raws (stride; exhaustive per distinct definition in thorough), boundary and random 4/8-byte raws, uninterpretable widths {0,3,5,6,7,9,12}; texts over ASCII, the Unicode spaces, invalid UTF-8 and interior NULs; floats compared bit-exactly (the comparer forms raw/factor+offset with IEEE doubles as the Go expression does); non-trivial = not the silent-device line",
        trusted_base=[KERNEL, HARNESS, T1, MODEL_API, "bin/check's float realisation of (raw, factor, offset) (Python double arithmetic = Go's on amd64)"],
        assumptions=["strings.TrimSpace is modelled byte-wise on the UTF-8 encodings of the unicode.IsSpace runes"],
        explanation="theorems: number_unsigned, number_signed, number_signed_boundary, number_signed_bad_width, text_value, text_shape (device bytes = spaces ++ value ++ spaces ++ NULs; the value neither starts nor ends with a white-space rune; trimming is idempotent), enum_value, enum_undefined (any width, via C14 for every integer), fieldlist_value, transport_error_wrapped (kind preserved + register name), decoders_resolve"),
    "C10": dict(TABLES, suites=["c10"], trivial=r"^ -> ok M=$",
        rule="the register list of every product class and random sub-lists with duplicate names/addresses x {complete run, every subset of nil handlers, a cancellation at every position (before the run, inside the k-th callback, during the k-th read), a device failure (silent or each error flag) at every register position, combinations}; the interleaved trace of wire reads and callbacks, the result and the collected map are compared with the model; ReadRegisterList on an identical device compared with the delivered values; the Go oracle states prefix/exactly-once/abort/cancel directly",
        trusted_base=[KERNEL, HARNESS, T1, MODEL_API, "context.Context (Go)"],
        assumptions=["a cancellation from another goroutine becomes visible at the next check: only observable positions are enumerated, deterministically; no claim about latency"],
        explanation="theorems: stream_prefix (any transport, any cancellation point: callbacks = a prefix in order once each, reads = that prefix plus at most the failing register), stream_complete, stream_abort, stream_cancel, nil_group_no_io, all_nil_no_events, collect_last, collect_keys_delivered"),
    "C11": dict(TABLES, suites=["c11"], exhaustive=True, trivial=r"^err:other$",
        rule="all 65536 device ids on a healthy simulated device (result kind, product, FNV of the full register list) + failure shapes (silent / garbage / partial / async-only ping, id answer with bad check byte, odd length, too short, one byte, wrong type, non-hex, truncated) x 5 ids; the Go oracle checks object<->error, product = id, list = GetRegisterListByProduct(id), frame order :154 then :451; non-trivial = known ids and shapes",
        trusted_base=[KERNEL, HARNESS, T1, MODEL_API, MODEL_PROTO],
        assumptions=["Ping accepts any complete non-async frame as an answer (as the code does; the property says 'answers')"],
        explanation="theorems: connect_iff (object iff ping and id answered and id of a supported class, via C12.list_by_class for ALL ids), connect_product, connect_err_no_object, connect_no_panic, connect_order (driver model: :154 then, only if answered, :451)"),
})

BLE = dict(driver="driverble", lake_targets=["driverble", "driverblespec"], tools=["extract", "ble2lean", "harness"], gen=["tables", "ble"], oracle_prefixes=["BS "])
T2 = "tools/ble2lean (T2): the translator of bleparser's Decode* functions (go/parser + go/types; symbolic execution of the accepted statement subset, bounds checks / wrap-around / two's complement made explicit); validated on every run by executing its output against the real decoders on the same inputs, but a translator bug masked on all generated inputs would be trusted; a construct outside the subset is a broken tie"
SPEC_BLE = "Victron/Spec/BleLayouts.lean: the 13 layout tables transcribed from the layout comments in /repo/bleparser (DESIGN.md Appendix A); where the comment is silent the table follows the decoder's established behaviour (NaN for aux raw 0x7FFF/0xFFFF, unselected DcEnergyMeter aux fields 0.0, VE.Bus state/error bytes unvalidated)"

PROPS.update({
    "C07": dict(BLE, suites=["c07", "c07spec@driverblespec"], trivial=r"^err:too-short$",
        rule="per decoder and field: every raw value up to 10 bits (14 in thorough), stratified samples (boundaries, single bits, NA codes, random) above, each in three contexts of the remaining bits (all-zero, all-one, random; enum bytes valid); all 256 values of every enumerated byte; all aux modes x aux raws; random records incl. longer ones; the repository's own test vectors. Each input is answered three ways: real decoder = translated decoder (BD line, validates T2) = layout specification (BS line: a difference is reported as a concrete violation)",
        trusted_base=[KERNEL, HARNESS, T1, T2, SPEC_BLE, "bin/check's float realisation of raw*mul/div+off"],
        assumptions=["float conversion is symbolic in the theorems (raw integer + scale/offset); the IEEE result is formed and compared bit-exactly by the comparer"],
        explanation="theorems: acCharger … veBus (13 x `Gen.Ble.decodeX inp spare = BleSpec.decode layoutX inp` for every input, every length, every spare capacity), decoders_covered, all_conform, layouts_wellformed, field_locality, na_exact, sx_eq_if, enum_rejection"),
    "C08": dict(BLE, suites=["c08", "c08spec@driverblespec"], trivial=r"^$",
        rule="13 decoders x lengths 0..64 x contents {zeros with valid enums, all-ones, random} x {cap == len, spare capacity 1..8 filled with 00/FF/random}; complete records + every suffix length 1..16 (00/FF/random); real panics are recovered and compared with the translated decoder's explicit panic outcome; the Go oracle states too-short-iff / no panic / spare independence / suffix independence directly",
        trusted_base=[KERNEL, HARNESS, T1, T2, SPEC_BLE],
        assumptions=["Go's slice semantics (bounds against cap for slice expressions, against len for index expressions and binary.LittleEndian) as encoded by the translator"],
        explanation="theorems: too_short_iff, never_panics, spare_independent, suffix_independent (corollaries of C07's thirteen theorems, which quantify over every spare capacity), all_decoders"),
})

PROPS.update({
    "C19": dict(driver="driverblehandle", lake_targets=["driverblehandle"], tools=["extract", "ble2lean", "harness"], gen=["tables", "ble"],
        suites=["c19"], trivial=r"^ignored$",
        rule="the real handler (reached through an overlay export, BlueZ not needed; its log output parsed for plaintext and decoded record / error) on payload lengths 0..64 x contents, valid solar-charger advertisements (records of 0..16 bytes encrypted under 16/24/32-byte keys, random nonces), key lengths 0..40 and nil, a stride of the 65536 nonces (all in thorough), all 256 record types, multi-block payloads; PKCS7Padding for lengths 0..48 x 7 block sizes; MAC matching for well-formed, lower/upper case, malformed, odd, empty addresses against several configurations. The Go oracle decrypts independently with crypto/aes + cipher.NewCTR and decodes with the (C07-verified) solar decoder",
        trusted_base=[KERNEL, HARNESS, T1, T2, "tools/overlay/ble/zz_verif_export.go (runs handleNewManufacturerData / getDeviceConfig on a BleStruct without BlueZ and captures the log)", "Victron/Model/Aes.lean (executable AES-128/192/256, FIPS-197 vectors + every logged plaintext compared) — validated, not verified; in the theorems the block cipher is a parameter", "crypto/aes, cipher.NewCTR (Go)"],
        assumptions=["ble.New, BlueZ discovery and the goroutines are not modelled (they need a daemon)", "an address is mapped to bytes by removing colons and hex-decoding, as the code does; colon placement is not checked"],
        explanation="theorems: pkcs7_shape, keystream_prefix, ctr_prefix (padding cannot alter record bytes), ctr_length, ctr_involutive, handle_short_ignored, handle_bad_key, handle_decrypts (plaintext = CTR decryption of the unpadded bytes 8.., type 0x01 dispatched to the solar decoder on that plaintext), handle_total (never panics, via C08), match_iff, match_malformed, match_sound"),
})

PROPS.update({
    "C20": dict(TABLES, tools=["extract", "harness", "vecli"], suites=["c20"], trivial=r"^$", timeout=1800,
        rule="the REAL vecli binary (go build of /repo's vecli on every run) against a simulated VE.Direct device behind a pseudo-terminal (/dev/ptmx, tarm/serial at 19200 baud, 200 ms read timeout): one product of each class (more in thorough) x random valid register contents incl. boundary values x {no flag, -v, --io-log, both} + device silent after k answers (k = 0, 3, 7; random k in thorough) + device silent at ping; stdout parsed line by line (count, order, text of every line) and compared with the model's rendering (numbers printed with %f); every written I/O log is parsed and replayed through a lookup port with the real API; a run that does not terminate within 30 s is a HANG violation",
        trusted_base=[KERNEL, HARNESS, T1, MODEL_API, "the pty, tarm/serial, cobra, fmt %f/%s formatting (exercised, not modelled)", "bin/check's %f realisation of raw/factor+offset"],
        assumptions=["lines with equal sort key are compared as a set (Go ranges over maps in GetList)", "the no-hang clause for the real binary is a harness timeout, for the model it is totality"],
        explanation="theorems: connect_error, fetch_error (error reported, no lines, total), count_is_lines, lines_sorted (non-decreasing sort key), lines_are_registers (each line = a register of the product's list with a value delivered by the read: C09/C10), all_delivered_printed, connected_names_unique (C11+C12), run_complete (healthy device: status ok, count = length of the product's list = number of lines, one line per register with its sort key, unit and the value read)"),
})

NOT_APPLICABLE = {}
