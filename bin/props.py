# Per-property configuration of bin/check: harness suites, Lean driver, generated inputs, and the
# statements that go into the evidence files.
KERNEL = "Lean 4.33.0 kernel (lake build; #print axioms of every theorem of the Props file ⊆ {propext, Classical.choice, Quot.sound}; no sorry/admit/axiom/native_decide/bv_decide)"
HARNESS = "tools/harness (scripted IOPort, independent frame encoder/grammar, canonicaliser) and bin/check's line comparer"
GOSTD = "Go compiler/runtime and the standard library pieces the code uses (bufio.Reader modelled as an unbounded buffer, fmt %X/%q/%w, encoding/hex, encoding/binary, strconv) — modelled, not verified"

PROTO = dict(driver="driverproto", lake_targets=["driverproto"], tools=["harness"])

PROPS = {
    "C03": dict(PROTO, suites=["c03"], exhaustive=True,
        trivial=r"^$",
        rule="T lines: all 7 commands x all 65536 addresses through VeCommand on a silent port (exhaustive), real frame vs Lean `tx`; "
             "P lines: every typed entry point (raw/uint/int/str, ping, devid) on a silent port (8 attempts) over a stride of addresses (all 65536 in thorough); "
             "a line is non-trivial if it produced at least one written frame; distinct = distinct operation lines",
        trusted_base=[KERNEL, HARNESS, GOSTD, "hand-written model Victron/Model/{Frame,Proto}.lean tied to vedirect/*.go by exhaustive correspondence (T3)"],
        assumptions=["VeCommand is deterministic", "the 7 defined commands are the command space (VeCommand accepts any byte; a two-nibble command is outside the property)"],
        explanation="theorems: txFrame_wellformed/tx_wellformed (all commands, ALL addresses, by arithmetic not enumeration), tx_payload, get_writes_are_frames (≤ 8 copies of one frame per register access, any port behaviour), command_writes_one_frame"),
}

NOT_APPLICABLE = {}
