import json, os
VERIF = os.path.dirname(os.path.dirname(os.path.abspath(__file__)))
TOOLS = os.path.join(VERIF, "tools")
REPO = "/repo"


def write_overlay(path=None):
    """`go build -overlay`: files under tools/overlay/<pkg>/ are added to /repo/<pkg>/ for the build only
    (exports of unexported functions); /repo's tree is never touched."""
    path = path or os.path.join(TOOLS, "overlay.json")
    rep = {}
    odir = os.path.join(TOOLS, "overlay")
    if os.path.isdir(odir):
        for root, _, files in os.walk(odir):
            for f in files:
                rel = os.path.relpath(os.path.join(root, f), odir)
                rep[os.path.join(REPO, rel)] = os.path.join(root, f)
    json.dump({"Replace": rep}, open(path, "w"), indent=1)


if __name__ == "__main__":
    write_overlay()
