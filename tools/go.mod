module verif/tools

go 1.21.5

require github.com/koestler/go-victron v0.0.0

require (
	github.com/tarm/serial v0.0.0-20180830185346-98f6abe2eb07 // indirect
	golang.org/x/sys v0.1.0 // indirect
)

replace github.com/koestler/go-victron => /repo
