module verif/tools

go 1.21.5

require github.com/koestler/go-victron v0.0.0

require (
	github.com/fatih/structs v1.1.0 // indirect
	github.com/godbus/dbus/v5 v5.0.3 // indirect
	github.com/muka/go-bluetooth v0.0.0-20221213043340-85dc80edc4e1 // indirect
	github.com/sirupsen/logrus v1.6.0 // indirect
	github.com/tarm/serial v0.0.0-20180830185346-98f6abe2eb07 // indirect
	golang.org/x/sys v0.1.0 // indirect
)

replace github.com/koestler/go-victron => /repo
