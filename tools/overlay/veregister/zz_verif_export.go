package veregister

// Exports for /verif's harness. This file is NOT part of /repo: it is added to the package only for the
// harness build through `go build -overlay` (see /verif/tools/overlay.json), so /repo's tree is never touched.
// They let the harness put registers with arbitrary names and sort keys into a RegisterList (C16 quantifies
// over "append of any registers of any kind"; the package's own constructors are unexported).

func VerifNumber(name string, sort int, address uint16) NumberRegisterStruct {
	return newNumberRegisterStruct("Verif", name, name, sort, address, false, false, false, 1, 0, "")
}

func VerifText(name string, sort int, address uint16) TextRegisterStruct {
	return newTextRegisterStruct("Verif", name, name, sort, address, false, false)
}

func VerifEnum(name string, sort int, address uint16) EnumRegisterStruct {
	return newEnumRegisterStruct("Verif", name, name, sort, address, false, false, nil)
}

func VerifFieldList(name string, sort int, address uint16) FieldListRegisterStruct {
	return newFieldListRegisterStruct("Verif", name, name, sort, address, false, false, nil)
}
