package ble

// Exports for /verif's harness. This file is NOT part of /repo: it is added to the package only for the
// harness build through `go build -overlay` (see /verif/tools/overlay.json), so /repo's tree is never touched.

import (
	"bytes"
	"context"
	"log"
)

// the names the harness gives the instance and the device (any text a user may put into a configuration file)
var VerifInstanceName, VerifDeviceName = "verif", "dev"

type verifDevice struct {
	name string
	mac  []byte
	key  []byte
}

func (d verifDevice) Name() string          { return d.name }
func (d verifDevice) MacAddress() []byte    { return d.mac }
func (d verifDevice) EncryptionKey() []byte { return d.key }

type verifConfig struct {
	devices []DeviceConfig
	debug   bool
}

func (c verifConfig) Name() string            { return VerifInstanceName }
func (c verifConfig) LogDebug() bool          { return c.debug }
func (c verifConfig) Devices() []DeviceConfig { return c.devices }

// VerifHandle runs handleNewManufacturerData on a BleStruct that was not connected to BlueZ and returns
// what it logged; a panic is recovered and reported.
func VerifHandle(key []byte, raw []byte, debug bool) (logged string, panicked bool) {
	var buf bytes.Buffer
	oldOut, oldFlags := log.Writer(), log.Flags()
	log.SetOutput(&buf)
	log.SetFlags(0)
	defer func() {
		log.SetOutput(oldOut)
		log.SetFlags(oldFlags)
		if r := recover(); r != nil {
			panicked = true
			logged = buf.String()
		}
	}()
	ctx, cancel := context.WithCancel(context.Background())
	defer cancel()
	b := &BleStruct{cfg: verifConfig{debug: debug}, ctx: ctx, cancel: cancel}
	b.handleNewManufacturerData(verifDevice{name: VerifDeviceName, key: key}, raw)
	return buf.String(), false
}

// VerifSession: one BleStruct that handles a whole sequence of advertisements of the device "dev" (whose key may
// differ from call to call: the handler is given the device configuration with every call).
type VerifSession struct{ b *BleStruct }

func VerifSessionNew() *VerifSession {
	ctx, cancel := context.WithCancel(context.Background())
	return &VerifSession{b: &BleStruct{cfg: verifConfig{}, ctx: ctx, cancel: cancel}}
}

func (s *VerifSession) Handle(key []byte, raw []byte) (logged string, panicked bool) {
	var buf bytes.Buffer
	oldOut, oldFlags := log.Writer(), log.Flags()
	log.SetOutput(&buf)
	log.SetFlags(0)
	defer func() {
		log.SetOutput(oldOut)
		log.SetFlags(oldFlags)
		if r := recover(); r != nil {
			panicked = true
			logged = buf.String()
		}
	}()
	s.b.handleNewManufacturerData(verifDevice{name: VerifDeviceName, key: key}, raw)
	return buf.String(), false
}

// VerifConcurrent: one BleStruct, one goroutine per device (as ble.New starts them), each handling its own advertisement
// `rounds` times; returns everything that was logged (lines carry the device name "dev<i>").
func VerifConcurrent(keys, raws [][]byte, rounds int) (logged string, panics int) {
	var buf bytes.Buffer
	oldOut, oldFlags := log.Writer(), log.Flags()
	log.SetOutput(&buf)
	log.SetFlags(0)
	defer func() {
		log.SetOutput(oldOut)
		log.SetFlags(oldFlags)
	}()
	ctx, cancel := context.WithCancel(context.Background())
	defer cancel()
	b := &BleStruct{cfg: verifConfig{}, ctx: ctx, cancel: cancel}
	done := make(chan int, len(keys))
	for i := range keys {
		go func(i int) {
			p := 0
			for r := 0; r < rounds; r++ {
				func() {
					defer func() {
						if rec := recover(); rec != nil {
							p++
						}
					}()
					b.handleNewManufacturerData(verifDevice{name: VerifDeviceName + string(rune('0'+i)), key: keys[i]}, append([]byte(nil), raws[i]...))
				}()
			}
			done <- p
		}(i)
	}
	for range keys {
		panics += <-done
	}
	return buf.String(), panics
}

// VerifMatch returns the index of the configured device matched for a BlueZ address, or -1.
func VerifMatch(macs [][]byte, addr string) (idx int, panicked bool) {
	var buf bytes.Buffer
	oldOut := log.Writer()
	log.SetOutput(&buf)
	defer func() {
		log.SetOutput(oldOut)
		if r := recover(); r != nil {
			panicked = true
			idx = -2
		}
	}()
	var devs []DeviceConfig
	for i, m := range macs {
		devs = append(devs, verifDevice{name: string(rune('a' + i)), mac: m})
	}
	b := &BleStruct{cfg: verifConfig{devices: devs}}
	d := b.getDeviceConfig(addr)
	if d == nil {
		return -1, false
	}
	for i := range devs {
		if devs[i].Name() == d.Name() {
			return i, false
		}
	}
	return -1, false
}
