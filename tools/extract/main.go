// extract (T1): evaluates go-victron's finite table functions over their WHOLE domain with the real code
// and prints the resulting function graphs as Lean source (lean/Victron/Gen/Tables.lean).
// Because every enumeration below is complete, the emitted table IS the function.
package main

import (
	"bufio"
	"fmt"
	"go/ast"
	"go/parser"
	"go/token"
	"os"
	"path/filepath"
	"sort"
	"strconv"
	"strings"

	"github.com/koestler/go-victron/veconst"
	"github.com/koestler/go-victron/vedirect"
	"github.com/koestler/go-victron/veproduct"
	"github.com/koestler/go-victron/veregister"
)

func leanStr(s string) string {
	var sb strings.Builder
	sb.WriteByte('"')
	for _, r := range s {
		switch {
		case r == '"':
			sb.WriteString("\\\"")
		case r == '\\':
			sb.WriteString("\\\\")
		case r >= 32 && r != 127:
			sb.WriteRune(r) // Lean source is UTF-8
		default:
			fmt.Fprintf(&sb, "\\x%02X", r)
		}
	}
	sb.WriteByte('"')
	return sb.String()
}

func b2s(b bool) string {
	if b {
		return "true"
	}
	return "false"
}

func leanInt(i int) string {
	if i < 0 {
		return fmt.Sprintf("(%d)", i)
	}
	return strconv.Itoa(i)
}

type enumFactory struct {
	name  string
	f     veconst.EnumFactory
	typed func(b uint8) (int, string, error)
}

func tw[T interface {
	Idx() int
	String() string
}](f func(uint8) (T, error)) func(uint8) (int, string, error) {
	return func(b uint8) (idx int, name string, err error) {
		defer func() {
			if r := recover(); r != nil {
				notePanic(fmt.Sprintf("typed enum constructor New(%d): %v", b, r))
				err = fmt.Errorf("panic: %v", r)
			}
		}()
		v, err := f(b)
		if err != nil {
			return 0, "", err
		}
		return v.Idx(), v.String(), nil
	}
}

// A call of the code under extraction that panics is recorded, the table is still written (without a row for that
// argument) so that the drivers can be built and the harness can look for the failing input, and the extractor
// exits with status 3: the tie is reported as broken.
var panics []string

func notePanic(what string) {
	if len(panics) < 50 {
		panics = append(panics, what)
	}
}

func enumFactories() []enumFactory {
	return []enumFactory{
		{"SolarChargerTrackerMode", veconst.SolarChargerTrackerModeFactory, tw(veconst.SolarChargerTrackerModeFactory.New)},
		{"BmvAuxMode", veconst.BmvAuxModeFactory, tw(veconst.BmvAuxModeFactory.New)},
		{"BooleanDisabledEnabled", veconst.BooleanDisabledEnabledFactory, tw(veconst.BooleanDisabledEnabledFactory.New)},
		{"BooleanFalseTrue", veconst.BooleanFalseTrueFactory, tw(veconst.BooleanFalseTrueFactory.New)},
		{"BooleanInactiveActive", veconst.BooleanInactiveActiveFactory, tw(veconst.BooleanInactiveActiveFactory.New)},
		{"BooleanNoYes", veconst.BooleanNoYesFactory, tw(veconst.BooleanNoYesFactory.New)},
		{"BooleanOffOn", veconst.BooleanOffOnFactory, tw(veconst.BooleanOffOnFactory.New)},
		{"DcDcConverterError", veconst.DcDcConverterErrorFactory, tw(veconst.DcDcConverterErrorFactory.New)},
		{"DcDcConverterState", veconst.DcDcConverterStateFactory, tw(veconst.DcDcConverterStateFactory.New)},
		{"DcEnergyMeterAuxMode", veconst.DcEnergyMeterAuxModeFactory, tw(veconst.DcEnergyMeterAuxModeFactory.New)},
		{"InverterFrequency", veconst.InverterFrequencyFactory, tw(veconst.InverterFrequencyFactory.New)},
		{"InverterMode", veconst.InverterModeFactory, tw(veconst.InverterModeFactory.New)},
		{"InverterState", veconst.InverterStateFactory, tw(veconst.InverterStateFactory.New)},
		{"MultiRsActiveInput", veconst.MultiRsActiveInputFactory, tw(veconst.MultiRsActiveInputFactory.New)},
		{"SolarChargerError", veconst.SolarChargerErrorFactory, tw(veconst.SolarChargerErrorFactory.New)},
		{"SolarChargerBatteryType", veconst.SolarChargerBatteryTypeFactory, tw(veconst.SolarChargerBatteryTypeFactory.New)},
		{"SolarChargerBatteryVoltage", veconst.SolarChargerBatteryVoltageFactory, tw(veconst.SolarChargerBatteryVoltageFactory.New)},
		{"SolarChargerDeviceMode", veconst.SolarChargerDeviceModeFactory, tw(veconst.SolarChargerDeviceModeFactory.New)},
		{"SolarChargerState", veconst.SolarChargerStateFactory, tw(veconst.SolarChargerStateFactory.New)},
		{"VeBusAlarm", veconst.VeBusAlarmFactory, tw(veconst.VeBusAlarmFactory.New)},
	}
}

type flFactory struct {
	name string
	f    veconst.FieldListFactory
}

func fieldListFactories() []flFactory {
	return []flFactory{
		{"InverterOffReasons", veconst.InverterOffReasonsFactory},
		{"SolarOffReasons", veconst.SolarOffReasonsFactory},
		{"InverterWarningReasons", veconst.InverterWarningReasonFactory},
	}
}

// the factory variables declared in /repo/veconst, found syntactically: a factory that is not in the lists
// above (or vice versa) is a broken tie, not something to skip silently
func declaredFactories(dir string) (map[string]string, error) {
	fset := token.NewFileSet()
	pkgs, err := parser.ParseDir(fset, dir, func(fi os.FileInfo) bool { return !strings.HasSuffix(fi.Name(), "_test.go") }, 0)
	if err != nil {
		return nil, err
	}
	out := map[string]string{}
	for _, p := range pkgs {
		for _, f := range p.Files {
			for _, d := range f.Decls {
				gd, ok := d.(*ast.GenDecl)
				if !ok || gd.Tok != token.VAR {
					continue
				}
				for _, sp := range gd.Specs {
					vs := sp.(*ast.ValueSpec)
					for _, n := range vs.Names {
						if strings.HasSuffix(n.Name, "Factory") {
							if id, ok := vs.Type.(*ast.Ident); ok {
								out[n.Name] = id.Name
							}
						}
					}
				}
			}
		}
	}
	return out, nil
}

func sortedKeys(m map[int]string) []int {
	ks := make([]int, 0, len(m))
	for k := range m {
		ks = append(ks, k)
	}
	sort.Ints(ks)
	return ks
}

func factoryName(f any) string {
	s := fmt.Sprintf("%T", f)
	s = strings.TrimPrefix(s, "veconst.")
	return strings.TrimSuffix(s, "FactoryType")
}

func regRow(w *bufio.Writer, kind int, r veregister.Register, signed bool, factor int, offset float64, unit, factory string) {
	off := strconv.FormatFloat(offset, 'g', -1, 64)
	fmt.Fprintf(w, "  ⟨%d, %s, %s, %s, %s, %d, %s, %s, %s, %s, %s, %s, %s⟩", kind, leanStr(r.Category()), leanStr(r.Name()), leanStr(r.Description()),
		leanInt(r.Sort()), r.Address(), b2s(r.Static()), b2s(r.Writable()), b2s(signed), leanInt(factor), leanStr(off), leanStr(unit), leanStr(factory))
}

func emitRegList(w *bufio.Writer, name string, rl veregister.RegisterList) {
	emit := func(suffix string, n int, row func(i int)) {
		fmt.Fprintf(w, "def %s%s : List Reg := [\n", name, suffix)
		for i := 0; i < n; i++ {
			row(i)
			if i+1 < n {
				w.WriteString(",\n")
			} else {
				w.WriteString("\n")
			}
		}
		w.WriteString("]\n")
	}
	emit("N", len(rl.NumberRegisters), func(i int) {
		r := rl.NumberRegisters[i]
		regRow(w, 1, r, r.Signed(), r.Factor(), r.Offset(), r.Unit(), "")
	})
	emit("T", len(rl.TextRegisters), func(i int) { regRow(w, 2, rl.TextRegisters[i], false, 0, 0, "", "") })
	emit("E", len(rl.EnumRegisters), func(i int) {
		r := rl.EnumRegisters[i]
		fn := "nil"
		if r.Factory() != nil {
			fn = factoryName(r.Factory())
		}
		regRow(w, 3, r, false, 0, 0, "", fn)
	})
	emit("F", len(rl.FieldListRegisters), func(i int) {
		r := rl.FieldListRegisters[i]
		fn := "nil"
		if r.Factory() != nil {
			fn = factoryName(r.Factory())
		}
		regRow(w, 4, r, false, 0, 0, "", fn)
	})
	fmt.Fprintf(w, "def %s : RegList := ⟨%sN, %sT, %sE, %sF⟩\n\n", name, name, name, name, name)
}

func main() {
	if len(os.Args) < 3 {
		fmt.Fprintln(os.Stderr, "usage: extract <repo dir> <out file>")
		os.Exit(2)
	}
	repo := os.Args[1]
	f, err := os.Create(os.Args[2])
	if err != nil {
		panic(err)
	}
	w := bufio.NewWriterSize(f, 1<<20)
	defer func() { w.Flush(); f.Close() }()

	// tie check: factory lists vs. the declarations in the source
	decl, err := declaredFactories(filepath.Join(repo, "veconst"))
	if err != nil {
		fmt.Fprintln(os.Stderr, "extract: cannot parse veconst:", err)
		os.Exit(1)
	}
	known := map[string]bool{}
	for _, e := range enumFactories() {
		known[e.name+"Factory"] = true
	}
	for _, e := range fieldListFactories() {
		known[e.name+"Factory"] = true
	}
	known["InverterWarningReasonFactory"] = true
	delete(known, "InverterWarningReasonsFactory")
	for n := range decl {
		if !known[n] {
			fmt.Fprintf(os.Stderr, "extract: factory %s is declared in veconst but unknown to the extractor\n", n)
			os.Exit(1)
		}
	}
	for n := range known {
		if _, ok := decl[n]; !ok {
			fmt.Fprintf(os.Stderr, "extract: factory %s is no longer declared in veconst\n", n)
			os.Exit(1)
		}
	}

	w.WriteString("-- GENERATED by tools/extract from /repo's current source on every run. Do not edit, do not commit.\n")
	w.WriteString("import Victron.Model.TableTypes\nnamespace Victron.Gen\nopen Victron\n\n")

	// ---- products: all 65536 ids ----
	sm := veproduct.GetStringMap()
	w.WriteString("/-- every id in 0..65535 on which any observable differs from the unknown-product default -/\ndef products : List ProductRow := [\n")
	first := true
	for id := 0; id < 65536; id++ {
		row := ""
		func() {
			defer func() {
				if r := recover(); r != nil {
					notePanic(fmt.Sprintf("a Product accessor for id 0x%04X: %v", id, r))
					row = ""
				}
			}()
			p := veproduct.Product(id)
			mv, inMap := sm[p]
			if !p.Exists() && p.Model() == "" && p.Type() == 0 && p.String() == "" && p.MaxPanelVoltage() == -1 && p.MaxPanelCurrent() == -1 && !inMap {
				return
			}
			row = fmt.Sprintf("  ⟨%d, %s, %s, %d, %s, %s, %s, %s, %s⟩", id, b2s(p.Exists()), leanStr(p.Model()), int(p.Type()), leanStr(p.String()),
				leanInt(p.MaxPanelVoltage()), leanInt(p.MaxPanelCurrent()), b2s(inMap), leanStr(mv))
		}()
		if row == "" {
			continue
		}
		if !first {
			w.WriteString(",\n")
		}
		first = false
		w.WriteString(row)
	}
	w.WriteString("\n]\n\n")
	fmt.Fprintf(w, "def stringMapSize : Nat := %d\n\n", len(sm))

	// ---- types: all 256 values ----
	w.WriteString("def types : List TypeRow := [\n")
	first = true
	for t := 0; t < 256; t++ {
		ty := veproduct.Type(t)
		if ty.String() == "" && !ty.IsBMV() && !ty.IsSolar() && !ty.IsInverter() {
			continue
		}
		if !first {
			w.WriteString(",\n")
		}
		first = false
		fmt.Fprintf(w, "  ⟨%d, %s, %s, %s, %s⟩", t, leanStr(ty.String()), b2s(ty.IsBMV()), b2s(ty.IsSolar()), b2s(ty.IsInverter()))
	}
	w.WriteString("\n]\n\n")

	// ---- responses: all 256 command bytes ----
	w.WriteString("def responses : List (Nat × Nat) := [")
	for c := 0; c < 256; c++ {
		if c > 0 {
			w.WriteString(", ")
		}
		fmt.Fprintf(w, "(%d, %d)", c, int(vedirect.ResponseForCommand(vedirect.VeCommand(c))))
	}
	w.WriteString("]\n\n")

	// ---- enums ----
	var names []string
	for _, e := range enumFactories() {
		m := e.f.IntToStringMap()
		fmt.Fprintf(w, "def enum%s : EnumTable := {\n  name := %s,\n  entries := [", e.name, leanStr(e.name))
		for i, k := range sortedKeys(m) {
			if i > 0 {
				w.WriteString(", ")
			}
			fmt.Fprintf(w, "(%s, %s)", leanInt(k), leanStr(m[k]))
		}
		w.WriteString("],\n  typed := [")
		firstT := true
		for b := 0; b < 256; b++ {
			idx, s, err := e.typed(uint8(b))
			if err != nil {
				continue
			}
			if !firstT {
				w.WriteString(", ")
			}
			firstT = false
			fmt.Fprintf(w, "(%d, %s, %s)", b, leanInt(idx), leanStr(s))
		}
		w.WriteString("] }\n\n")
		names = append(names, "enum"+e.name)
	}
	fmt.Fprintf(w, "def enums : List EnumTable := [%s]\n\n", strings.Join(names, ", "))

	// ---- field lists ----
	names = nil
	for _, e := range fieldListFactories() {
		m := e.f.IntToStringMap()
		fmt.Fprintf(w, "def fields%s : EnumTable := {\n  name := %s,\n  entries := [", e.name, leanStr(e.name))
		for i, k := range sortedKeys(m) {
			if i > 0 {
				w.WriteString(", ")
			}
			fmt.Fprintf(w, "(%s, %s)", leanInt(k), leanStr(m[k]))
		}
		w.WriteString("],\n  typed := [] }\n\n")
		names = append(names, "fields"+e.name)
	}
	fmt.Fprintf(w, "def fieldLists : List EnumTable := [%s]\n\n", strings.Join(names, ", "))

	// ---- register families: each Append function applied to an empty list ----
	fams := []struct {
		name string
		f    func(*veregister.RegisterList)
	}{
		{"bmvProduct", veregister.AppendBmvProduct}, {"bmvMonitor", veregister.AppendBmvMonitor}, {"bmvHistoric", veregister.AppendBmvHistoric},
		{"bmvAll", veregister.AppendBmv},
		{"solarProduct", veregister.AppendSolarProduct}, {"solarGeneric", veregister.AppendSolarGeneric}, {"solarSettings", veregister.AppendSolarSettings},
		{"solarChargerData", veregister.AppendSolarChargerData}, {"solarPanelData", veregister.AppendSolarPanelData}, {"solarLoadData", veregister.AppendSolarLoadData},
		{"solarAll", veregister.AppendSolar},
		{"inverterProduct", veregister.AppendInverterProduct}, {"inverterGeneric", veregister.AppendInverterGeneric}, {"inverterHistory", veregister.AppendInverterHistory},
		{"inverterOperation", veregister.AppendInverterOperation}, {"inverterAcOutControl", veregister.AppendInverterAcOutControl},
		{"inverterBatteryControl", veregister.AppendInverterBatteryControl}, {"inverterDynamicCutoff", veregister.AppendInverterDynamicCutoff},
		{"inverterAll", veregister.AppendInverter},
	}
	for _, fam := range fams {
		rl := veregister.NewRegisterList()
		fam.f(&rl)
		emitRegList(w, fam.name, rl)
	}
	w.WriteString("end Victron.Gen\n")
	if len(panics) > 0 {
		w.Flush()
		f.Close()
		for _, p := range panics {
			fmt.Fprintln(os.Stderr, "extract: the code under extraction panicked in", p)
		}
		os.Exit(3)
	}
}
