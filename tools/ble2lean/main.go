// ble2lean (T2): translates the Decode* functions of /repo/bleparser into Lean definitions by symbolic execution
// of their Go source (go/ast + go/types), with Go's semantics made explicit: bounds checks against len / cap as
// explicit panics, fixed-width wrap-around, two's-complement conversions, symbolic float conversion, error values
// classified by what errors.Is would match. Package-local helper functions are inlined, constants are propagated,
// branches that do not return are merged into conditional values. Anything outside the accepted subset is rejected
// with "unsupported construct at file:line": a rejected decoder is a broken tie.
package main

import (
	"bufio"
	"fmt"
	"go/ast"
	"go/constant"
	"go/importer"
	"go/parser"
	"go/token"
	"go/types"
	"os"
	"path/filepath"
	"regexp"
	"sort"
	"strconv"
	"strings"
)

type unsupported struct{ msg string }

var fset = token.NewFileSet()

func fail(n ast.Node, format string, a ...any) {
	where := "?"
	if n != nil {
		pos := fset.Position(n.Pos())
		where = fmt.Sprintf("%s:%d", filepath.Base(pos.Filename), pos.Line)
	}
	panic(unsupported{fmt.Sprintf("unsupported construct at %s: %s", where, fmt.Sprintf(format, a...))})
}

// ---- symbolic values ----

type val interface{}

// intV: a Lean Int expression holding the value of a Go integer of type ty (already reduced to ty's range).
// c: the value when it is known at translation time. mask: bits that may be set (unsigned values; ^0 = unknown).
type intV struct {
	lean string
	ty   types.Type
	c    *int64
	mask uint64
}

type boolV struct {
	lean string // Lean Prop
	c    *bool
}

type floatV struct{ f *fl }

// sliceV: a sub-slice inp[lo:hi] of the decoder's input (hi = -1: up to len(inp)), or a literal []byte{…}
type sliceV struct {
	isInp  bool
	lo, hi int
	lit    []intV
}

// errV: an error value; cond = the Lean Prop "the value is non-nil"; class = the Lean Err constructor errors.Is matches
type errV struct {
	cond  string
	class string
}

type structV struct {
	typ    types.Type
	fields map[string]val
	order  []string
}

type opaqueV struct{} // strings and other values that never influence a result

type fl struct { // raw * mul / div + off  | NaN | conditional
	nan      bool
	raw      string
	mul, div int64
	off      string
	cond     string
	a, b     *fl
}

func (f *fl) lean() string {
	if f.cond != "" {
		return fmt.Sprintf("(if %s then %s else %s)", f.cond, f.a.lean(), f.b.lean())
	}
	if f.nan {
		return "FV.nan"
	}
	return fmt.Sprintf("(FV.num %s %d %d %q)", f.raw, f.mul, f.div, f.off)
}

type tr struct {
	info    *types.Info
	funcs   map[string]*ast.FuncDecl
	methods map[string]*ast.FuncDecl // "Type.Method"
	lines   []string                 // emitted "if … then … else" / "let … :=" lines
	env     map[types.Object]val
	path    []string
	nvar    int
	top     bool // executing the decoder itself (returns emit outcome lines) rather than an inlined helper
	depth   int
	inpObj  types.Object
	retObj  types.Object
	errObj  types.Object
	order   []string // field order of the result struct
	ended   bool     // the decoder's final outcome has been written
	fd      *ast.FuncDecl
	fdStack [][]types.Object // named results of the functions being executed
	lenOK   int              // n ≤ inp.length holds from here on (established by an unconditional check)
	capOK   int              // n ≤ inp.length + spare.length likewise
}

func (t *tr) fresh(p string) string { t.nvar++; return fmt.Sprintf("%s%d", p, t.nvar) }

func (t *tr) pathCond() string { return strings.Join(t.path, " ∧ ") }

func (t *tr) check(cond, outcome string) {
	c := cond
	if pc := t.pathCond(); pc != "" {
		if cond == "True" {
			c = pc
		} else {
			c = pc + " ∧ " + cond
		}
	}
	t.lines = append(t.lines, fmt.Sprintf("if %s then %s else", c, outcome))
}

func (t *tr) let(name, typ, expr string) {
	t.lines = append(t.lines, fmt.Sprintf("let %s : %s := %s", name, typ, expr))
}

// implied: is the Lean Prop `c` a conjunct of the current path (true), its negation (false), or unknown?
func (t *tr) implied(c string) (known, value bool) {
	switch c {
	case "True":
		return true, true
	case "False":
		return true, false
	}
	for _, p := range t.path {
		if p == c {
			return true, true
		}
		if p == "¬ "+c || p == "(¬ "+c+")" {
			return true, false
		}
	}
	return false, false
}

func intType(ty types.Type) (w int, signed bool, ok bool) {
	b, isB := ty.Underlying().(*types.Basic)
	if !isB {
		return 0, false, false
	}
	switch b.Kind() {
	case types.Uint8:
		return 8, false, true
	case types.Uint16:
		return 16, false, true
	case types.Uint32:
		return 32, false, true
	case types.Uint64, types.Uint, types.Uintptr:
		return 64, false, true
	case types.Int8:
		return 8, true, true
	case types.Int16:
		return 16, true, true
	case types.Int32:
		return 32, true, true
	case types.Int64, types.Int:
		return 64, true, true
	case types.UntypedInt, types.UntypedRune:
		return 64, true, true
	}
	return 0, false, false
}

func isFloat(ty types.Type) bool {
	b, ok := ty.Underlying().(*types.Basic)
	return ok && (b.Kind() == types.Float64 || b.Kind() == types.Float32 || b.Kind() == types.UntypedFloat)
}

func isBool(ty types.Type) bool {
	b, ok := ty.Underlying().(*types.Basic)
	return ok && (b.Kind() == types.Bool || b.Kind() == types.UntypedBool)
}

func isErrorType(ty types.Type) bool {
	return ty != nil && types.Identical(ty, types.Universe.Lookup("error").Type())
}

func widthMask(w int) uint64 {
	if w >= 64 {
		return ^uint64(0)
	}
	return (uint64(1) << uint(w)) - 1
}

// wrapConst: reduce v to the range of ty
func wrapConst(ty types.Type, v int64) int64 {
	w, s, ok := intType(ty)
	if !ok || w >= 64 {
		return v
	}
	m := int64(1) << uint(w)
	v = ((v % m) + m) % m
	if s && v >= m/2 {
		v -= m
	}
	return v
}

func lit(v int64) string {
	if v < 0 {
		return fmt.Sprintf("(%d)", v)
	}
	return strconv.FormatInt(v, 10)
}

func constInt(ty types.Type, v int64) intV {
	v = wrapConst(ty, v)
	m := ^uint64(0)
	if v >= 0 {
		m = uint64(v)
	}
	return intV{lean: lit(v), ty: ty, c: &v, mask: m}
}

func wrapLean(ty types.Type, e string, n ast.Node) string {
	w, s, ok := intType(ty)
	if !ok {
		fail(n, "arithmetic in non-integer type %s", ty)
	}
	if s {
		return fmt.Sprintf("(wrapS %d %s)", w, e)
	}
	return fmt.Sprintf("(wrapU %d %s)", w, e)
}

var plainVar = regexp.MustCompile(`^[vx][0-9]+$`)

// ---- slices ----

func (t *tr) sliceOf(e ast.Expr) sliceV {
	v := t.eval(e)
	s, ok := v.(sliceV)
	if !ok {
		fail(e, "expected a byte slice")
	}
	return s
}

func (t *tr) sliceLen(s sliceV) (static int, dynamic string) {
	if !s.isInp {
		return len(s.lit), ""
	}
	if s.hi == -1 {
		if s.lo == 0 {
			return -1, "inp.length"
		}
		return -1, fmt.Sprintf("(inp.length - %d)", s.lo)
	}
	return s.hi - s.lo, ""
}

func (t *tr) elem(s sliceV, i int) intV {
	if !s.isInp {
		return s.lit[i]
	}
	return intV{lean: fmt.Sprintf("(at' inp spare %d)", s.lo+i), ty: types.Typ[types.Uint8], mask: 0xFF}
}

// needLen / needCap: Go's bounds checks "n ≤ len(inp)" / "n ≤ cap(inp)". A check that an earlier unconditional
// check already implies (everything after `if ¬ (n ≤ …) then .panic else` runs with n ≤ …) is not repeated.
func (t *tr) needLen(n int) {
	if n <= t.lenOK {
		return
	}
	t.check(fmt.Sprintf("¬ (%d ≤ inp.length)", n), ".panic")
	if len(t.path) == 0 {
		t.lenOK = n
	}
}

func (t *tr) needCap(n int) {
	if n <= t.capOK || n <= t.lenOK {
		return
	}
	t.check(fmt.Sprintf("¬ (%d ≤ inp.length + spare.length)", n), ".panic")
	if len(t.path) == 0 {
		t.capOK = n
	}
}

// requireLen: Go's bounds check "n <= len(s)"
func (t *tr) requireLen(s sliceV, n int, node ast.Node) {
	st, dyn := t.sliceLen(s)
	if dyn != "" {
		t.needLen(n + s.lo)
	} else if st < n {
		t.check("True", ".panic")
	}
}

func (t *tr) subSlice(x *ast.SliceExpr) sliceV {
	base := t.sliceOf(x.X)
	if x.Slice3 {
		fail(x, "3-index slice")
	}
	if !base.isInp {
		fail(x, "slicing a literal")
	}
	lo, hi := 0, -1
	if x.Low != nil {
		v := t.intOf(x.Low)
		if v.c == nil {
			fail(x, "non-constant slice bounds")
		}
		lo = int(*v.c)
	}
	if x.High != nil {
		v := t.intOf(x.High)
		if v.c == nil {
			fail(x, "non-constant slice bounds")
		}
		hi = int(*v.c)
	}
	if base.hi == -1 {
		// Go: 0 <= lo <= hi <= cap(base); cap(inp[a:]) = cap(inp) - a
		if hi == -1 {
			// inp[lo:]: lo <= len
			t.needLen(base.lo + lo)
			return sliceV{isInp: true, lo: base.lo + lo, hi: -1}
		}
		if lo > hi || lo < 0 {
			t.check("True", ".panic")
		}
		t.needCap(base.lo + hi)
		return sliceV{isInp: true, lo: base.lo + lo, hi: base.lo + hi}
	}
	// a sub-slice of inp[a:b]: its capacity reaches to cap(inp)
	if hi == -1 {
		hi = base.hi - base.lo
	}
	if lo > hi || lo < 0 {
		t.check("True", ".panic")
	}
	if base.lo+hi > base.hi {
		t.needCap(base.lo + hi)
	}
	return sliceV{isInp: true, lo: base.lo + lo, hi: base.lo + hi}
}

// ---- expressions ----

func (t *tr) intOf(e ast.Expr) intV {
	v := t.eval(e)
	i, ok := v.(intV)
	if !ok {
		fail(e, "expected an integer expression")
	}
	return i
}

func (t *tr) constOfExpr(e ast.Expr) (int64, bool) {
	if tv, ok := t.info.Types[e]; ok && tv.Value != nil {
		cv := constant.ToInt(tv.Value)
		if cv.Kind() == constant.Int {
			if v, ok := constant.Int64Val(cv); ok {
				return v, true
			}
			if u, ok := constant.Uint64Val(cv); ok {
				return int64(u), true
			}
		}
	}
	return 0, false
}

func (t *tr) eval(e ast.Expr) val {
	ty := t.info.TypeOf(e)
	// compile-time constants
	if tv, ok := t.info.Types[e]; ok && tv.Value != nil {
		switch {
		case tv.Value.Kind() == constant.Bool:
			b := constant.BoolVal(tv.Value)
			return boolV{lean: map[bool]string{true: "True", false: "False"}[b], c: &b}
		case tv.Value.Kind() == constant.String:
			return opaqueV{}
		case isFloat(ty):
			return opaqueV{} // float constants are only meaningful as operands, see floatOf
		}
		if v, ok := t.constOfExpr(e); ok {
			if _, _, isInt := intType(ty); isInt {
				return constInt(ty, v)
			}
		}
	}
	switch x := e.(type) {
	case *ast.ParenExpr:
		return t.eval(x.X)
	case *ast.Ident:
		if x.Name == "nil" {
			return errV{cond: "False", class: ".other"}
		}
		obj := t.info.Uses[x]
		if obj == nil {
			obj = t.info.Defs[x]
		}
		if v, ok := t.env[obj]; ok {
			return v
		}
		// package-level error sentinels
		if vr, ok := obj.(*types.Var); ok && isErrorType(vr.Type()) {
			return errV{cond: "True", class: sentinelClass(vr)}
		}
		fail(e, "unknown identifier %s", x.Name)
	case *ast.BasicLit:
		return opaqueV{}
	case *ast.IndexExpr:
		s := t.sliceOf(x.X)
		i := t.intOf(x.Index)
		if i.c == nil {
			fail(e, "non-constant index")
		}
		t.requireLen(s, int(*i.c)+1, e)
		return t.elem(s, int(*i.c))
	case *ast.SliceExpr:
		return t.subSlice(x)
	case *ast.SelectorExpr:
		// struct field read
		if _, isPkg := t.info.Uses[identOf(x.X)].(*types.PkgName); !isPkg {
			if sel, ok := t.info.Selections[x]; ok && sel.Kind() == types.FieldVal {
				base := t.eval(x.X)
				if sv, ok := base.(structV); ok {
					if fv, ok := sv.fields[x.Sel.Name]; ok {
						return fv
					}
				}
				fail(e, "unsupported field read")
			}
		}
		// qualified identifier: a sentinel error of another package, or a typed constant (handled above)
		if obj, ok := t.info.Uses[x.Sel].(*types.Var); ok && isErrorType(obj.Type()) {
			return errV{cond: "True", class: sentinelClass(obj)}
		}
		fail(e, "unsupported selector")
	case *ast.UnaryExpr:
		switch x.Op {
		case token.SUB:
			a := t.intOf(x.X)
			if a.c != nil {
				return constInt(ty, -*a.c)
			}
			return intV{lean: wrapLean(ty, fmt.Sprintf("(-%s)", a.lean), e), ty: ty, mask: ^uint64(0)}
		case token.NOT:
			b := t.boolOf(x.X)
			if b.c != nil {
				n := !*b.c
				return boolV{lean: map[bool]string{true: "True", false: "False"}[n], c: &n}
			}
			return boolV{lean: "(¬ " + b.lean + ")"}
		case token.AND:
			// &T{…}: pointers to composite literals only occur as error values
			return t.eval(x.X)
		}
		fail(e, "unary %s", x.Op)
	case *ast.BinaryExpr:
		switch x.Op {
		case token.LAND, token.LOR, token.EQL, token.NEQ, token.LSS, token.LEQ, token.GTR, token.GEQ:
			return t.boolExpr(x)
		}
		if isFloat(ty) {
			return floatV{t.floatExpr(e)}
		}
		return t.intBinary(x, ty)
	case *ast.CallExpr:
		return t.call(x)
	case *ast.CompositeLit:
		return t.composite(x)
	}
	fail(e, "unsupported expression %T", e)
	return nil
}

func identOf(e ast.Expr) *ast.Ident {
	id, _ := e.(*ast.Ident)
	return id
}

// sentinelClass: the Err constructor errors.Is would report for a package-level error variable
func sentinelClass(v *types.Var) string {
	switch v.Name() {
	case "ErrInputTooShort":
		return ".tooShort"
	case "ErrInvalidEnumIdx":
		return ".invalidEnum"
	}
	return ".other"
}

func (t *tr) intBinary(x *ast.BinaryExpr, ty types.Type) val {
	a := t.intOf(x.X)
	w, signed, _ := intType(ty)
	switch x.Op {
	case token.SHR, token.SHL:
		kv := t.intOf(x.Y)
		if kv.c == nil || *kv.c < 0 || *kv.c > 63 {
			fail(x, "non-constant shift count")
		}
		k := uint(*kv.c)
		if a.c != nil {
			if x.Op == token.SHR {
				return constInt(ty, *a.c>>k)
			}
			return constInt(ty, *a.c<<k)
		}
		if x.Op == token.SHR {
			return intV{lean: fmt.Sprintf("(%s / %d)", a.lean, int64(1)<<k), ty: ty, mask: shrMask(a.mask, k, signed)}
		}
		if a.mask != ^uint64(0) && k < 64 && (a.mask<<k)>>k == a.mask && fits(a.mask<<k, w, signed) {
			// no bit is shifted out
			return intV{lean: fmt.Sprintf("(%s * %d)", a.lean, int64(1)<<k), ty: ty, mask: a.mask << k}
		}
		m := ^uint64(0)
		if !signed && a.mask != ^uint64(0) {
			m = (a.mask << k) & widthMask(w)
		} else if !signed {
			m = widthMask(w)
		}
		return intV{lean: wrapLean(ty, fmt.Sprintf("(%s * %d)", a.lean, int64(1)<<k), x), ty: ty, mask: m}
	case token.AND:
		b := t.intOf(x.Y)
		if a.c != nil && b.c != nil {
			return constInt(ty, *a.c&*b.c)
		}
		if a.c != nil && b.c == nil {
			a, b = b, a
		}
		if b.c == nil {
			fail(x, "& of two non-constant operands")
		}
		if signed {
			fail(x, "& on a signed operand")
		}
		m := *b.c
		if m < 0 {
			fail(x, "& with a negative mask")
		}
		if m == 0 {
			return constInt(ty, 0)
		}
		if (m+1)&m == 0 {
			return intV{lean: fmt.Sprintf("(%s %% %d)", a.lean, m+1), ty: ty, mask: a.mask & uint64(m)}
		}
		// a contiguous run of ones: ((a / 2^lo) % 2^len) * 2^lo
		lo := 0
		for m&(1<<uint(lo)) == 0 {
			lo++
		}
		run := m >> uint(lo)
		if (run+1)&run != 0 {
			fail(x, "& with a mask that is not a contiguous run of ones")
		}
		return intV{lean: fmt.Sprintf("(((%s / %d) %% %d) * %d)", a.lean, int64(1)<<uint(lo), run+1, int64(1)<<uint(lo)), ty: ty, mask: a.mask & uint64(m)}
	case token.OR, token.XOR:
		b := t.intOf(x.Y)
		if a.c != nil && b.c != nil {
			if x.Op == token.OR {
				return constInt(ty, *a.c|*b.c)
			}
			return constInt(ty, *a.c^*b.c)
		}
		if signed || a.mask&b.mask != 0 {
			fail(x, "| or ^ of operands whose bits may overlap")
		}
		// disjoint bits: or = xor = sum, and the sum cannot overflow
		return intV{lean: fmt.Sprintf("(%s + %s)", a.lean, b.lean), ty: ty, mask: a.mask | b.mask}
	case token.ADD, token.SUB, token.MUL:
		b := t.intOf(x.Y)
		if a.c != nil && b.c != nil {
			switch x.Op {
			case token.ADD:
				return constInt(ty, *a.c+*b.c)
			case token.SUB:
				return constInt(ty, *a.c-*b.c)
			}
			return constInt(ty, *a.c**b.c)
		}
		op := map[token.Token]string{token.ADD: "+", token.SUB: "-", token.MUL: "*"}[x.Op]
		return intV{lean: wrapLean(ty, fmt.Sprintf("(%s %s %s)", a.lean, op, b.lean), x), ty: ty, mask: ^uint64(0)}
	}
	fail(x, "binary %s on integers", x.Op)
	return nil
}

// fits: a value whose possibly-set bits are `mask` (non-negative, mask known) lies in the range of a w-bit type
func fits(mask uint64, w int, signed bool) bool {
	if mask == ^uint64(0) {
		return false
	}
	if signed {
		w--
	}
	return w >= 64 || mask>>uint(w) == 0
}

func shrMask(m uint64, k uint, signed bool) uint64 {
	if signed || m == ^uint64(0) {
		return ^uint64(0)
	}
	return m >> k
}

func (t *tr) boolOf(e ast.Expr) boolV {
	v := t.eval(e)
	b, ok := v.(boolV)
	if !ok {
		fail(e, "expected a condition")
	}
	return b
}

func mkBool(b bool) boolV {
	return boolV{lean: map[bool]string{true: "True", false: "False"}[b], c: &b}
}

func (t *tr) boolExpr(x *ast.BinaryExpr) boolV {
	switch x.Op {
	case token.LAND, token.LOR:
		a := t.boolOf(x.X)
		// Go evaluates the right operand only when needed; bounds checks inside it are guarded accordingly
		if a.c != nil {
			if (x.Op == token.LAND) != *a.c {
				return a // false && _, true || _
			}
			return t.boolOf(x.Y)
		}
		if x.Op == token.LAND {
			t.path = append(t.path, a.lean)
		} else {
			t.path = append(t.path, "¬ "+a.lean)
		}
		b := t.boolOf(x.Y)
		t.path = t.path[:len(t.path)-1]
		if b.c != nil {
			if (x.Op == token.LAND) == *b.c {
				return a // a && true, a || false
			}
			return b // a && false, a || true
		}
		if x.Op == token.LAND {
			return boolV{lean: "(" + a.lean + " ∧ " + b.lean + ")"}
		}
		return boolV{lean: "(" + a.lean + " ∨ " + b.lean + ")"}
	}
	op := map[token.Token]string{token.EQL: "=", token.NEQ: "≠", token.LSS: "<", token.LEQ: "≤", token.GTR: ">", token.GEQ: "≥"}[x.Op]
	l, r := t.eval(x.X), t.eval(x.Y)
	// error comparisons with nil
	if le, ok := l.(errV); ok {
		if re, ok := r.(errV); ok {
			var e errV
			switch {
			case re.cond == "False":
				e = le
			case le.cond == "False":
				e = re
			default:
				fail(x, "comparison of two error values")
			}
			nonNil := x.Op == token.NEQ
			if x.Op != token.NEQ && x.Op != token.EQL {
				fail(x, "ordering of errors")
			}
			if known, v := t.implied(e.cond); known {
				return mkBool(v == nonNil)
			}
			if nonNil {
				return boolV{lean: e.cond}
			}
			return boolV{lean: "¬ " + e.cond}
		}
	}
	a, ok1 := l.(intV)
	b, ok2 := r.(intV)
	if !ok1 || !ok2 {
		fail(x, "unsupported comparison")
	}
	if a.c != nil && b.c != nil {
		var res bool
		switch x.Op {
		case token.EQL:
			res = *a.c == *b.c
		case token.NEQ:
			res = *a.c != *b.c
		case token.LSS:
			res = *a.c < *b.c
		case token.LEQ:
			res = *a.c <= *b.c
		case token.GTR:
			res = *a.c > *b.c
		case token.GEQ:
			res = *a.c >= *b.c
		}
		return mkBool(res)
	}
	return boolV{lean: fmt.Sprintf("(%s %s %s)", a.lean, op, b.lean)}
}

// ---- floats ----

func floatConst(t *tr, e ast.Expr) (string, bool) {
	if tv, ok := t.info.Types[e]; ok && tv.Value != nil {
		f, _ := constant.Float64Val(constant.ToFloat(tv.Value))
		return strconv.FormatFloat(f, 'g', -1, 64), true
	}
	return "", false
}

func (t *tr) floatOf(e ast.Expr) *fl {
	v := t.eval(e)
	if f, ok := v.(floatV); ok {
		return f.f
	}
	fail(e, "expected a float expression")
	return nil
}

func (t *tr) floatExpr(e ast.Expr) *fl {
	switch x := e.(type) {
	case *ast.ParenExpr:
		return t.floatExpr(x.X)
	case *ast.BinaryExpr:
		f0 := t.floatOf(x.X)
		if f0.nan || f0.cond != "" {
			fail(e, "arithmetic on NaN / conditional float")
		}
		f := *f0
		cs, ok := floatConst(t, x.Y)
		if !ok {
			fail(e, "float arithmetic with a non-constant")
		}
		ci, isInt := strconv.ParseInt(cs, 10, 64)
		switch x.Op {
		case token.MUL:
			if isInt != nil || f.div != 1 || f.off != "0" {
				fail(e, "float multiplication not of the form float64(i) * int")
			}
			f.mul *= ci
		case token.QUO:
			if isInt != nil || f.mul != 1 || f.off != "0" || f.div != 1 {
				fail(e, "float division not of the form float64(i) / int")
			}
			f.div = ci
		case token.ADD:
			if f.off != "0" {
				fail(e, "two float offsets")
			}
			f.off = cs
		case token.SUB:
			if f.off != "0" {
				fail(e, "two float offsets")
			}
			f.off = "-" + cs
		default:
			fail(e, "float operator %s", x.Op)
		}
		return &f
	}
	return t.floatOf(e)
}

// ---- calls ----

func (t *tr) call(x *ast.CallExpr) val {
	ty := t.info.TypeOf(x)
	// conversions T(x)
	if tv, ok := t.info.Types[x.Fun]; ok && tv.IsType() {
		if len(x.Args) != 1 {
			fail(x, "conversion with %d args", len(x.Args))
		}
		if isFloat(tv.Type) {
			a := t.eval(x.Args[0])
			switch av := a.(type) {
			case intV:
				return floatV{&fl{raw: av.lean, mul: 1, div: 1, off: "0"}}
			case floatV:
				return av
			}
			fail(x, "conversion to float of a non-integer")
		}
		if _, _, isInt := intType(tv.Type); isInt {
			a := t.intOf(x.Args[0])
			if a.c != nil {
				return constInt(tv.Type, *a.c)
			}
			w, s, _ := intType(tv.Type)
			if fits(a.mask, w, s) {
				// the operand is known to be non-negative and below the target's range: the conversion keeps the value
				return intV{lean: a.lean, ty: tv.Type, mask: a.mask}
			}
			m := ^uint64(0)
			if !s {
				m = widthMask(w)
				if a.mask != ^uint64(0) {
					m = a.mask & widthMask(w)
				}
			}
			return intV{lean: wrapLean(tv.Type, a.lean, x), ty: tv.Type, mask: m}
		}
		if isErrorType(tv.Type) {
			return t.toErr(t.eval(x.Args[0]), x)
		}
		fail(x, "conversion to %s", tv.Type)
	}
	switch f := x.Fun.(type) {
	case *ast.Ident:
		switch f.Name {
		case "len":
			if _, isBuiltin := t.info.Uses[f].(*types.Builtin); isBuiltin {
				s := t.sliceOf(x.Args[0])
				st, dyn := t.sliceLen(s)
				if dyn == "" {
					return constInt(types.Typ[types.Int], int64(st))
				}
				if s.lo == 0 {
					return intV{lean: "(inp.length : Int)", ty: types.Typ[types.Int], mask: ^uint64(0)}
				}
				return intV{lean: fmt.Sprintf("((inp.length : Int) - %d)", s.lo), ty: types.Typ[types.Int], mask: ^uint64(0)}
			}
		}
		if fd, ok := t.funcs[f.Name]; ok {
			if _, isFunc := t.info.Uses[f].(*types.Func); isFunc {
				return t.inline(fd, x, nil)
			}
		}
		fail(x, "unsupported call of %s", f.Name)
	case *ast.SelectorExpr:
		// binary.LittleEndian.UintNN
		if s2, ok := f.X.(*ast.SelectorExpr); ok && s2.Sel.Name == "LittleEndian" {
			n := map[string]int{"Uint16": 2, "Uint32": 4, "Uint64": 8}[f.Sel.Name]
			if n == 0 || len(x.Args) != 1 {
				fail(x, "binary.LittleEndian.%s", f.Sel.Name)
			}
			s := t.sliceOf(x.Args[0])
			t.requireLen(s, n, x)
			parts := make([]string, n)
			for i := 0; i < n; i++ {
				if i == 0 {
					parts[i] = t.elem(s, i).lean
				} else {
					parts[i] = fmt.Sprintf("%d * %s", int64(1)<<uint(8*i), t.elem(s, i).lean)
				}
			}
			return intV{lean: "(" + strings.Join(parts, " + ") + ")", ty: ty, mask: widthMask(8 * n)}
		}
		if id := identOf(f.X); id != nil {
			if pn, ok := t.info.Uses[id].(*types.PkgName); ok {
				switch pn.Imported().Path() + "." + f.Sel.Name {
				case "math.NaN":
					return floatV{&fl{nan: true}}
				case "fmt.Errorf":
					return t.errorf(x)
				case "errors.New":
					return errV{cond: "True", class: ".other"}
				case "fmt.Sprintf", "fmt.Sprint":
					for _, a := range x.Args {
						t.eval(a)
					}
					return opaqueV{}
				}
			}
		}
		// veconst.XFactory.New(v)
		if f.Sel.Name == "New" {
			if fsel, ok := f.X.(*ast.SelectorExpr); ok && strings.HasSuffix(fsel.Sel.Name, "Factory") {
				facType := t.info.TypeOf(fsel)
				tn := facType.String()
				tn = tn[strings.LastIndex(tn, ".")+1:]
				tn = strings.TrimSuffix(tn, "FactoryType")
				arg := t.intOf(x.Args[0])
				lv := arg.lean
				if !plainVar.MatchString(lv) {
					lv = t.fresh("x")
					t.let(lv, "Int", arg.lean)
				}
				rt := ty.(*types.Tuple).At(0).Type()
				return []val{intV{lean: lv, ty: rt, mask: arg.mask}, errV{cond: fmt.Sprintf("enumOk Gen.enums %q %s = false", tn, lv), class: ".invalidEnum"}}
			}
		}
		// a method of a package-local type (value receivers over symbolic structs are not needed by the decoders)
		fail(x, "unsupported call in expression")
	}
	fail(x, "unsupported call")
	return nil
}

// errorf: fmt.Errorf — the result matches (errors.Is) what its %w operands match
func (t *tr) errorf(x *ast.CallExpr) val {
	class := ".other"
	format := ""
	if tv, ok := t.info.Types[x.Args[0]]; ok && tv.Value != nil && tv.Value.Kind() == constant.String {
		format = constant.StringVal(tv.Value)
	} else {
		fail(x, "fmt.Errorf with a non-constant format")
	}
	// which argument does each verb consume?
	argIdx := 1
	for i := 0; i < len(format); i++ {
		if format[i] != '%' {
			continue
		}
		i++
		for i < len(format) && strings.ContainsRune("+-# 0123456789.[]*", rune(format[i])) {
			i++
		}
		if i >= len(format) {
			break
		}
		if format[i] == '%' {
			continue
		}
		if argIdx < len(x.Args) {
			v := t.eval(x.Args[argIdx])
			if format[i] == 'w' {
				e := t.toErr(v, x.Args[argIdx])
				if known, nn := t.implied(e.cond); !(known && nn) && e.cond != "True" {
					fail(x, "%%w operand that may be nil")
				}
				if class == ".other" {
					class = e.class
				} else if e.class != ".other" && e.class != class {
					fail(x, "two %%w operands of different classes")
				}
			}
		}
		argIdx++
	}
	for ; argIdx < len(x.Args); argIdx++ {
		t.eval(x.Args[argIdx])
	}
	return errV{cond: "True", class: class}
}

// toErr: a value used where an error is expected
func (t *tr) toErr(v val, n ast.Node) errV {
	switch e := v.(type) {
	case errV:
		return e
	case structV:
		// a local error type: it matches what its Unwrap() result matches
		name := typeName(e.typ)
		if m, ok := t.methods[name+".Unwrap"]; ok {
			if len(m.Body.List) == 1 {
				if r, ok := m.Body.List[0].(*ast.ReturnStmt); ok && len(r.Results) == 1 {
					if sel, ok := r.Results[0].(*ast.SelectorExpr); ok {
						if fv, ok := e.fields[sel.Sel.Name]; ok {
							inner := t.toErr(fv, n)
							return errV{cond: "True", class: inner.class}
						}
						// field not set in the literal: nil
						return errV{cond: "True", class: ".other"}
					}
				}
			}
			fail(n, "Unwrap method of %s is not `return recv.Field`", name)
		}
		if _, ok := t.methods[name+".Is"]; ok {
			fail(n, "error type %s with an Is method", name)
		}
		return errV{cond: "True", class: ".other"}
	}
	fail(n, "expected an error value")
	return errV{}
}

func typeName(ty types.Type) string {
	if p, ok := ty.(*types.Pointer); ok {
		ty = p.Elem()
	}
	if n, ok := ty.(*types.Named); ok {
		return n.Obj().Name()
	}
	return ty.String()
}

func (t *tr) composite(x *ast.CompositeLit) val {
	ty := t.info.TypeOf(x)
	switch u := ty.Underlying().(type) {
	case *types.Slice:
		var elems []intV
		for _, el := range x.Elts {
			elems = append(elems, t.intOf(el))
		}
		return sliceV{lit: elems}
	case *types.Struct:
		sv := structV{typ: ty, fields: map[string]val{}}
		for i, el := range x.Elts {
			if kv, ok := el.(*ast.KeyValueExpr); ok {
				sv.fields[kv.Key.(*ast.Ident).Name] = t.evalLoose(kv.Value)
			} else {
				sv.fields[u.Field(i).Name()] = t.evalLoose(el)
			}
		}
		return sv
	}
	fail(x, "composite literal of type %s", ty)
	return nil
}

// evalLoose: evaluate for effects (bounds checks); values of kinds the translation does not track become opaque
func (t *tr) evalLoose(e ast.Expr) (v val) {
	ty := t.info.TypeOf(e)
	if b, ok := ty.Underlying().(*types.Basic); ok && b.Info()&types.IsString != 0 {
		if _, isCall := e.(*ast.CallExpr); !isCall {
			return opaqueV{}
		}
	}
	return t.eval(e)
}

// ---- merging ----

func (t *tr) mergeVal(c string, a, b val, what string) val {
	switch av := a.(type) {
	case intV:
		bv, ok := b.(intV)
		if !ok {
			fail(nil, "%s holds values of different kinds on two paths", what)
		}
		if av.lean == bv.lean {
			return av
		}
		return intV{lean: fmt.Sprintf("(if %s then %s else %s)", c, av.lean, bv.lean), ty: av.ty, mask: av.mask | bv.mask}
	case floatV:
		bv, ok := b.(floatV)
		if !ok {
			fail(nil, "%s holds values of different kinds on two paths", what)
		}
		if av.f.lean() == bv.f.lean() {
			return av
		}
		return floatV{&fl{cond: c, a: av.f, b: bv.f}}
	case boolV:
		bv, ok := b.(boolV)
		if !ok {
			fail(nil, "%s holds values of different kinds on two paths", what)
		}
		if av.lean == bv.lean {
			return av
		}
		return boolV{lean: fmt.Sprintf("((%s ∧ %s) ∨ (¬ %s ∧ %s))", c, av.lean, c, bv.lean)}
	case errV:
		bv, ok := b.(errV)
		if !ok {
			fail(nil, "%s holds values of different kinds on two paths", what)
		}
		if av == bv {
			return av
		}
		r := errV{}
		switch {
		case av.cond == bv.cond:
			r.cond = av.cond
		case av.cond == "True" && bv.cond == "False":
			r.cond = c
		case av.cond == "False" && bv.cond == "True":
			r.cond = "¬ " + c
		case bv.cond == "False":
			r.cond = fmt.Sprintf("(%s ∧ %s)", c, av.cond)
		case av.cond == "False":
			r.cond = fmt.Sprintf("(¬ %s ∧ %s)", c, bv.cond)
		default:
			r.cond = fmt.Sprintf("((%s ∧ %s) ∨ (¬ %s ∧ %s))", c, av.cond, c, bv.cond)
		}
		switch {
		case av.class == bv.class || bv.cond == "False":
			r.class = av.class
		case av.cond == "False":
			r.class = bv.class
		default:
			r.class = fmt.Sprintf("(if %s then %s else %s)", c, av.class, bv.class)
		}
		return r
	case structV:
		bv, ok := b.(structV)
		if !ok {
			fail(nil, "%s holds values of different kinds on two paths", what)
		}
		r := structV{typ: av.typ, fields: map[string]val{}, order: av.order}
		for k, fa := range av.fields {
			fb, ok := bv.fields[k]
			if !ok {
				fail(nil, "%s.%s is set on one path only", what, k)
			}
			r.fields[k] = t.mergeVal(c, fa, fb, what+"."+k)
		}
		return r
	case sliceV:
		bv, ok := b.(sliceV)
		if !ok || fmt.Sprint(av) != fmt.Sprint(bv) {
			fail(nil, "%s is a different slice on two paths", what)
		}
		return av
	case opaqueV:
		return av
	case []val:
		bv, ok := b.([]val)
		if !ok || len(av) != len(bv) {
			fail(nil, "%s holds tuples of different shapes", what)
		}
		r := make([]val, len(av))
		for i := range av {
			r[i] = t.mergeVal(c, av[i], bv[i], what)
		}
		return r
	}
	fail(nil, "cannot merge %s", what)
	return nil
}

func copyEnv(e map[types.Object]val) map[types.Object]val {
	m := make(map[types.Object]val, len(e))
	for k, v := range e {
		if sv, ok := v.(structV); ok {
			f := make(map[string]val, len(sv.fields))
			for fk, fv := range sv.fields {
				f[fk] = fv
			}
			sv.fields = f
			v = sv
		}
		m[k] = v
	}
	return m
}

func (t *tr) mergeEnv(c string, a, b map[types.Object]val) map[types.Object]val {
	m := map[types.Object]val{}
	for k, va := range a {
		vb, ok := b[k]
		if !ok {
			continue // declared inside one branch: out of scope afterwards
		}
		m[k] = t.mergeVal(c, va, vb, k.Name())
	}
	return m
}

// ---- statements ----

// result of executing a statement list: nil = fell through; otherwise the values returned (helpers) or the
// marker that the decoder returned (its outcome line has been emitted)
type ret struct{ vals []val }

func (t *tr) zero(ty types.Type, n ast.Node) val {
	switch {
	case isErrorType(ty):
		return errV{cond: "False", class: ".other"}
	case isFloat(ty):
		return floatV{&fl{raw: "0", mul: 1, div: 1, off: "0"}}
	case isBool(ty):
		return mkBool(false)
	}
	if _, _, ok := intType(ty); ok {
		return constInt(ty, 0)
	}
	if st, ok := ty.Underlying().(*types.Struct); ok {
		sv := structV{typ: ty, fields: map[string]val{}}
		for i := 0; i < st.NumFields(); i++ {
			sv.fields[st.Field(i).Name()] = t.zero(st.Field(i).Type(), n)
			sv.order = append(sv.order, st.Field(i).Name())
		}
		return sv
	}
	if b, ok := ty.Underlying().(*types.Basic); ok && b.Info()&types.IsString != 0 {
		return opaqueV{}
	}
	fail(n, "zero value of type %s", ty)
	return nil
}

// bind: store a value in a variable; integers that are not plain get a `let`
func (t *tr) bind(obj types.Object, v val, prefix string) {
	if iv, ok := v.(intV); ok && iv.c == nil && !plainVar.MatchString(iv.lean) {
		lv := t.fresh(prefix)
		t.let(lv, "Int", iv.lean)
		iv.lean = lv
		v = iv
	}
	t.env[obj] = v
}

func (t *tr) objOf(id *ast.Ident) types.Object {
	if o := t.info.Defs[id]; o != nil {
		return o
	}
	return t.info.Uses[id]
}

func (t *tr) assignTo(lhs ast.Expr, v val, define bool) {
	switch l := lhs.(type) {
	case *ast.Ident:
		if l.Name == "_" {
			return
		}
		obj := t.objOf(l)
		if obj == nil {
			fail(lhs, "assignment to unknown variable %s", l.Name)
		}
		if vr, ok := obj.(*types.Var); ok && isErrorType(vr.Type()) {
			v = t.toErr(v, lhs)
		}
		t.bind(obj, v, "v")
	case *ast.SelectorExpr:
		id := identOf(l.X)
		if id == nil {
			fail(lhs, "assignment to a nested field")
		}
		obj := t.objOf(id)
		sv, ok := t.env[obj].(structV)
		if !ok {
			fail(lhs, "assignment to a field of something that is not a local struct")
		}
		old, ok := sv.fields[l.Sel.Name]
		if !ok {
			fail(lhs, "assignment to unknown field %s", l.Sel.Name)
		}
		switch old.(type) {
		case intV:
			iv, ok := v.(intV)
			if !ok {
				fail(lhs, "integer field assigned a non-integer")
			}
			// stored through a let so that later reads (switch tags) are cheap and the record stays small
			if !plainVar.MatchString(iv.lean) {
				lv := t.fresh("x")
				t.let(lv, "Int", iv.lean)
				iv = intV{lean: lv, ty: iv.ty, c: iv.c, mask: iv.mask}
			}
			v = iv
		case floatV:
			if _, ok := v.(floatV); !ok {
				fail(lhs, "float field assigned a non-float")
			}
		}
		f := make(map[string]val, len(sv.fields))
		for k, fv := range sv.fields {
			f[k] = fv
		}
		f[l.Sel.Name] = v
		sv.fields = f
		t.env[obj] = sv
	default:
		fail(lhs, "unsupported assignment target")
	}
}

func (t *tr) execAssign(x *ast.AssignStmt) {
	define := x.Tok == token.DEFINE
	switch x.Tok {
	case token.DEFINE, token.ASSIGN:
		if len(x.Rhs) == 1 && len(x.Lhs) > 1 {
			v := t.eval(x.Rhs[0])
			tuple, ok := v.([]val)
			if !ok || len(tuple) != len(x.Lhs) {
				fail(x, "multi-value assignment from a non-tuple")
			}
			for i, l := range x.Lhs {
				t.assignTo(l, tuple[i], define)
			}
			return
		}
		if len(x.Lhs) != len(x.Rhs) {
			fail(x, "unbalanced assignment")
		}
		vals := make([]val, len(x.Rhs))
		for i, r := range x.Rhs {
			vals[i] = t.evalLoose(r)
			if tuple, ok := vals[i].([]val); ok && len(tuple) == 1 {
				vals[i] = tuple[0]
			}
		}
		for i, l := range x.Lhs {
			t.assignTo(l, vals[i], define)
		}
	default:
		// x op= y
		op, ok := map[token.Token]token.Token{token.AND_ASSIGN: token.AND, token.OR_ASSIGN: token.OR, token.SHL_ASSIGN: token.SHL,
			token.SHR_ASSIGN: token.SHR, token.ADD_ASSIGN: token.ADD, token.SUB_ASSIGN: token.SUB, token.MUL_ASSIGN: token.MUL, token.XOR_ASSIGN: token.XOR}[x.Tok]
		if !ok || len(x.Lhs) != 1 {
			fail(x, "assignment operator %s", x.Tok)
		}
		be := &ast.BinaryExpr{X: x.Lhs[0], Op: op, Y: x.Rhs[0], OpPos: x.TokPos}
		ty := t.info.TypeOf(x.Lhs[0])
		if isFloat(ty) {
			fail(x, "float assignment operator")
		}
		t.assignTo(x.Lhs[0], t.intBinary(be, ty), false)
	}
}

func (t *tr) execSeq(stmts []ast.Stmt) *ret {
	for i, s := range stmts {
		switch x := s.(type) {
		case *ast.ReturnStmt:
			return t.execReturn(x)
		case *ast.AssignStmt:
			t.execAssign(x)
		case *ast.DeclStmt:
			gd, ok := x.Decl.(*ast.GenDecl)
			if !ok || gd.Tok != token.VAR {
				if ok && gd.Tok == token.CONST {
					continue
				}
				fail(s, "unsupported declaration")
			}
			for _, sp := range gd.Specs {
				vs := sp.(*ast.ValueSpec)
				for j, n := range vs.Names {
					obj := t.info.Defs[n]
					if len(vs.Values) > j {
						t.bind(obj, t.evalLoose(vs.Values[j]), "v")
					} else {
						t.env[obj] = t.zero(obj.Type(), s)
					}
				}
			}
		case *ast.ExprStmt:
			t.evalLoose(x.X)
		case *ast.BlockStmt:
			if r := t.execSeq(x.List); r != nil {
				return r
			}
		case *ast.IfStmt:
			if r, done := t.execIf(x, stmts[i+1:]); done {
				return r
			}
		case *ast.SwitchStmt:
			if r, done := t.execSwitch(x, stmts[i+1:]); done {
				return r
			}
		case *ast.EmptyStmt:
		default:
			fail(s, "unsupported statement %T", s)
		}
	}
	return nil
}

// branch: run a block under an extra path condition on a copy of the environment
func (t *tr) branch(cond string, body []ast.Stmt, env map[types.Object]val) (*ret, map[types.Object]val) {
	saved := t.env
	t.env = copyEnv(env)
	if cond != "" {
		t.path = append(t.path, cond)
	}
	r := t.execSeq(body)
	if cond != "" {
		t.path = t.path[:len(t.path)-1]
	}
	out := t.env
	t.env = saved
	return r, out
}

// joinBranches: combine the outcomes of `if c then A else B`; `rest` is what follows the statement.
// Returns (result, true) when the whole remainder has been consumed.
func (t *tr) joinBranches(c string, rA *ret, eA map[types.Object]val, rB *ret, eB map[types.Object]val, rest []ast.Stmt) (*ret, bool) {
	switch {
	case rA == nil && rB == nil:
		t.env = t.mergeEnv(c, eA, eB)
		return nil, false
	case rA != nil && rB != nil:
		if t.top {
			return rA, true
		}
		return &ret{t.mergeVal(c, rA.vals, rB.vals, "result").([]val)}, true
	}
	if t.top {
		// the returning branch has emitted its outcome line; what follows is evaluated on the other branch only
		if rA != nil {
			t.env = eB
		} else {
			t.env = eA
		}
		return nil, false
	}
	// a helper: the value of the call is conditional; the remainder runs under the complementary condition
	if rA != nil {
		t.env = eB
		t.path = append(t.path, "¬ "+c)
		rR := t.execSeq(rest)
		t.path = t.path[:len(t.path)-1]
		if rR == nil {
			fail(nil, "helper may fall off its end")
		}
		return &ret{t.mergeVal(c, rA.vals, rR.vals, "result").([]val)}, true
	}
	t.env = eA
	t.path = append(t.path, c)
	rR := t.execSeq(rest)
	t.path = t.path[:len(t.path)-1]
	if rR == nil {
		fail(nil, "helper may fall off its end")
	}
	return &ret{t.mergeVal(c, rR.vals, rB.vals, "result").([]val)}, true
}

func (t *tr) execIf(x *ast.IfStmt, rest []ast.Stmt) (*ret, bool) {
	outer := t.env
	t.env = copyEnv(outer)
	if x.Init != nil {
		if r := t.execSeq([]ast.Stmt{x.Init}); r != nil {
			fail(x, "return in if-init")
		}
	}
	c := t.boolOf(x.Cond)
	var elseBody []ast.Stmt
	switch e := x.Else.(type) {
	case *ast.BlockStmt:
		elseBody = e.List
	case *ast.IfStmt:
		elseBody = []ast.Stmt{e}
	case nil:
	default:
		fail(x, "unsupported else")
	}
	inner := t.env
	drop := func(e map[types.Object]val) map[types.Object]val { // variables of the if-init go out of scope
		m := map[types.Object]val{}
		for k, v := range e {
			if _, ok := outer[k]; ok {
				m[k] = v
			}
		}
		return m
	}
	if c.c != nil {
		// decided at translation time
		body := x.Body.List
		if !*c.c {
			body = elseBody
		}
		r, e := t.branch("", body, inner)
		t.env = drop(e)
		if r != nil {
			return r, true
		}
		return nil, false
	}
	rA, eA := t.branch(c.lean, x.Body.List, inner)
	rB, eB := t.branch("¬ "+c.lean, elseBody, inner)
	r, done := t.joinBranches(c.lean, rA, drop(eA), rB, drop(eB), rest)
	return r, done
}

func (t *tr) execSwitch(x *ast.SwitchStmt, rest []ast.Stmt) (*ret, bool) {
	outer := t.env
	t.env = copyEnv(outer)
	if x.Init != nil {
		if r := t.execSeq([]ast.Stmt{x.Init}); r != nil {
			fail(x, "return in switch-init")
		}
	}
	var tag *intV
	if x.Tag != nil {
		tv := t.intOf(x.Tag)
		tag = &tv
	}
	before := t.env
	type br struct {
		cond string
		r    *ret
		env  map[types.Object]val
	}
	var brs []br
	var seen []string
	var def *ast.CaseClause
	for _, cc := range x.Body.List {
		c := cc.(*ast.CaseClause)
		if len(c.List) == 0 {
			def = c
			continue
		}
		for _, st := range c.Body {
			if b, ok := st.(*ast.BranchStmt); ok && b.Tok == token.FALLTHROUGH {
				fail(b, "fallthrough")
			}
		}
		var cs []string
		for _, v := range c.List {
			if tag != nil {
				k := t.intOf(v)
				if k.c == nil {
					fail(v, "non-constant case")
				}
				if tag.c != nil {
					cs = append(cs, map[bool]string{true: "True", false: "False"}[*tag.c == *k.c])
				} else {
					cs = append(cs, fmt.Sprintf("%s = %d", tag.lean, *k.c))
				}
			} else {
				b := t.boolOf(v)
				cs = append(cs, strings.TrimSuffix(strings.TrimPrefix(b.lean, "("), ")"))
				if !strings.HasPrefix(b.lean, "(") {
					cs[len(cs)-1] = b.lean
				}
			}
		}
		cnd := "(" + strings.Join(cs, " ∨ ") + ")"
		full := cnd
		if len(seen) > 0 {
			full = "(" + cnd + " ∧ ¬ (" + strings.Join(seen, " ∨ ") + "))"
		}
		seen = append(seen, cnd)
		r, e := t.branch(full, c.Body, before)
		brs = append(brs, br{full, r, e})
	}
	// the default clause (or nothing) when no case matched
	var rD *ret
	eD := before
	if def != nil {
		full := "True"
		if len(seen) > 0 {
			full = "¬ (" + strings.Join(seen, " ∨ ") + ")"
		}
		rD, eD = t.branch(full, def.Body, before)
	}
	drop := func(e map[types.Object]val) map[types.Object]val {
		m := map[types.Object]val{}
		for k, v := range e {
			if _, ok := outer[k]; ok {
				m[k] = v
			}
		}
		return m
	}
	// merge from the last case backwards
	curR, curE := rD, eD
	for i := len(brs) - 1; i >= 0; i-- {
		b := brs[i]
		switch {
		case b.r == nil && curR == nil:
			curE = t.mergeEnv(b.cond, b.env, curE)
		case b.r != nil && curR != nil:
			if !t.top {
				curR = &ret{t.mergeVal(b.cond, b.r.vals, curR.vals, "result").([]val)}
			}
		case t.top && b.r != nil:
			// this case returned: its outcome line is emitted; keep the others' state
		case t.top && curR != nil:
			curR, curE = nil, b.env
		default:
			fail(x, "a helper's switch in which only some cases return")
		}
	}
	t.env = drop(curE)
	if curR != nil {
		return curR, true
	}
	_ = rest
	return nil, false
}

// ---- inlining ----

func (t *tr) inline(fd *ast.FuncDecl, call *ast.CallExpr, recv val) val {
	if t.depth > 8 {
		fail(call, "helper nesting too deep (recursion?)")
	}
	if fd.Body == nil {
		fail(call, "helper without body")
	}
	var args []val
	for _, a := range call.Args {
		args = append(args, t.evalLoose(a))
	}
	savedEnv, savedTop := t.env, t.top
	t.env = map[types.Object]val{}
	t.top = false
	t.depth++
	i := 0
	for _, p := range fd.Type.Params.List {
		for _, n := range p.Names {
			if i >= len(args) {
				fail(call, "variadic or missing arguments")
			}
			obj := t.info.Defs[n]
			v := args[i]
			i++
			if n.Name == "_" {
				continue
			}
			if vr, ok := obj.(*types.Var); ok && isErrorType(vr.Type()) {
				v = t.toErr(v, call)
			}
			if iv, ok := v.(intV); ok {
				// the parameter has its own type
				iv.ty = obj.Type()
				v = iv
			}
			t.env[obj] = v // substituted: arguments are small (a byte, a let-bound word, a constant)
		}
	}
	if i != len(args) {
		fail(call, "variadic helper")
	}
	var named []types.Object
	if fd.Type.Results != nil {
		for _, r := range fd.Type.Results.List {
			for _, n := range r.Names {
				obj := t.info.Defs[n]
				named = append(named, obj)
				t.env[obj] = t.zero(obj.Type(), call)
			}
		}
	}
	t.fdStack = append(t.fdStack, named)
	r := t.execSeq(fd.Body.List)
	t.fdStack = t.fdStack[:len(t.fdStack)-1]
	var out []val
	if r != nil {
		out = r.vals
	} else if fd.Type.Results == nil || fd.Type.Results.NumFields() == 0 {
		out = nil
	} else if len(named) > 0 {
		for _, o := range named {
			out = append(out, t.env[o])
		}
	} else {
		fail(call, "helper may fall off its end")
	}
	t.env, t.top = savedEnv, savedTop
	t.depth--
	switch len(out) {
	case 0:
		return opaqueV{}
	case 1:
		return out[0]
	}
	return out
}

func (t *tr) execReturn(x *ast.ReturnStmt) *ret {
	if !t.top {
		named := t.fdStack[len(t.fdStack)-1]
		var vals []val
		if len(x.Results) == 0 {
			for _, o := range named {
				vals = append(vals, t.env[o])
			}
			return &ret{vals}
		}
		if len(x.Results) == 1 {
			v := t.evalLoose(x.Results[0])
			if tuple, ok := v.([]val); ok {
				return &ret{tuple}
			}
			return &ret{[]val{v}}
		}
		for _, r := range x.Results {
			vals = append(vals, t.evalLoose(r))
		}
		return &ret{vals}
	}
	// the decoder returns: (ret, err)
	rv, ev := t.env[t.retObj], t.env[t.errObj]
	switch len(x.Results) {
	case 0:
	case 2:
		rv = t.eval(x.Results[0])
		ev = t.toErr(t.eval(x.Results[1]), x)
	case 1:
		tuple, ok := t.eval(x.Results[0]).([]val)
		if !ok || len(tuple) != 2 {
			fail(x, "return of a single non-tuple value")
		}
		rv, ev = tuple[0], t.toErr(tuple[1], x)
	default:
		fail(x, "return with %d results", len(x.Results))
	}
	t.outcome(rv.(structV), ev.(errV), x)
	return &ret{}
}

// outcome: emit what the decoder returns on the current path
func (t *tr) outcome(rec structV, e errV, n ast.Node) {
	known, nonNil := t.implied(e.cond)
	final := len(t.path) == 0
	switch {
	case known && nonNil:
		if final {
			t.lines = append(t.lines, fmt.Sprintf("(.err %s)", e.class))
			t.ended = true
			return
		}
		t.check("True", fmt.Sprintf("(.err %s)", e.class))
	case known && !nonNil:
		if final {
			t.finish(rec)
			return
		}
		t.check("True", "(.ok "+t.recLit(rec)+")")
	default:
		t.check(e.cond, fmt.Sprintf("(.err %s)", e.class))
		if final {
			t.finish(rec)
			return
		}
		t.check("True", "(.ok "+t.recLit(rec)+")")
	}
}

func (t *tr) fieldLean(v val, n ast.Node) string {
	switch f := v.(type) {
	case intV:
		return ".i " + f.lean
	case floatV:
		return ".f " + f.f.lean()
	}
	fail(n, "result field of unsupported kind")
	return ""
}

func (t *tr) recLit(rec structV) string {
	var parts []string
	for _, f := range t.order {
		parts = append(parts, fmt.Sprintf("(%q, %s)", f, t.fieldLean(rec.fields[f], nil)))
	}
	return "[" + strings.Join(parts, ", ") + "]"
}

func (t *tr) finish(rec structV) {
	var parts []string
	for _, f := range t.order {
		t.lines = append(t.lines, fmt.Sprintf("let f%s : FVal := %s", f, t.fieldLean(rec.fields[f], nil)))
		parts = append(parts, fmt.Sprintf("(%q, f%s)", f, f))
	}
	t.lines = append(t.lines, fmt.Sprintf(".ok [%s]", strings.Join(parts, ", ")))
	t.ended = true
}

// ---- per function ----

func translate(info *types.Info, funcs, methods map[string]*ast.FuncDecl, fd *ast.FuncDecl, w *bufio.Writer) (err error) {
	defer func() {
		if r := recover(); r != nil {
			if u, ok := r.(unsupported); ok {
				err = fmt.Errorf("%s (in %s)", u.msg, fd.Name.Name)
				return
			}
			panic(r)
		}
	}()
	// signature: func DecodeX(inp []byte) (T, error)
	if fd.Type.Params.NumFields() != 1 || fd.Type.Results.NumFields() != 2 {
		fail(fd, "decoder signature")
	}
	t := &tr{info: info, funcs: funcs, methods: methods, env: map[types.Object]val{}, top: true, fd: fd}
	pn := fd.Type.Params.List[0].Names[0]
	t.inpObj = info.Defs[pn]
	t.env[t.inpObj] = sliceV{isInp: true, lo: 0, hi: -1}
	var resTypes []types.Type
	var resObjs []types.Object
	for _, r := range fd.Type.Results.List {
		ty := info.TypeOf(r.Type)
		if len(r.Names) == 0 {
			resTypes = append(resTypes, ty)
			resObjs = append(resObjs, nil)
		}
		for _, n := range r.Names {
			resTypes = append(resTypes, ty)
			resObjs = append(resObjs, info.Defs[n])
		}
	}
	st, ok := resTypes[0].Underlying().(*types.Struct)
	if !ok || !isErrorType(resTypes[1]) {
		fail(fd, "decoder result is not (struct, error)")
	}
	for i := 0; i < st.NumFields(); i++ {
		f := st.Field(i)
		t.order = append(t.order, f.Name())
		if _, _, isInt := intType(f.Type()); !isInt && !isFloat(f.Type()) {
			fail(fd, "field %s of unsupported type %s", f.Name(), f.Type())
		}
	}
	// unnamed results get private objects
	if resObjs[0] == nil {
		resObjs[0] = types.NewVar(token.NoPos, nil, "ret", resTypes[0])
	}
	if resObjs[1] == nil {
		resObjs[1] = types.NewVar(token.NoPos, nil, "err", resTypes[1])
	}
	t.retObj, t.errObj = resObjs[0], resObjs[1]
	t.env[t.retObj] = t.zero(resTypes[0], fd)
	t.env[t.errObj] = t.zero(resTypes[1], fd)
	t.fdStack = [][]types.Object{{t.retObj, t.errObj}}
	if r := t.execSeq(fd.Body.List); r == nil {
		// fell off the end: the named results
		t.outcome(t.env[t.retObj].(structV), t.env[t.errObj].(errV), fd)
	}
	if !t.ended {
		fail(fd, "the decoder has no final outcome")
	}
	name := "decode" + strings.TrimPrefix(fd.Name.Name, "Decode")
	fmt.Fprintf(w, "/-- translation of bleparser.%s -/\ndef %s (inp spare : Bytes) : R Rec :=\n", fd.Name.Name, name)
	for _, l := range t.lines {
		fmt.Fprintf(w, "  %s\n", l)
	}
	fmt.Fprintf(w, "\n")
	return nil
}

func isDecoderSignature(info *types.Info, fd *ast.FuncDecl) bool {
	if fd.Type.Params.NumFields() != 1 || fd.Type.Results == nil || fd.Type.Results.NumFields() != 2 {
		return false
	}
	pt := info.TypeOf(fd.Type.Params.List[0].Type)
	sl, ok := pt.Underlying().(*types.Slice)
	if !ok {
		return false
	}
	if b, ok := sl.Elem().Underlying().(*types.Basic); !ok || b.Kind() != types.Uint8 {
		return false
	}
	var res []types.Type
	for _, r := range fd.Type.Results.List {
		n := len(r.Names)
		if n == 0 {
			n = 1
		}
		for i := 0; i < n; i++ {
			res = append(res, info.TypeOf(r.Type))
		}
	}
	if len(res) != 2 || !isErrorType(res[1]) {
		return false
	}
	_, isStruct := res[0].Underlying().(*types.Struct)
	return isStruct
}

func main() {
	if len(os.Args) < 3 {
		fmt.Fprintln(os.Stderr, "usage: ble2lean <repo>/bleparser <out.lean>")
		os.Exit(2)
	}
	dir := os.Args[1]
	pkgs, err := parser.ParseDir(fset, dir, func(fi os.FileInfo) bool { return !strings.HasSuffix(fi.Name(), "_test.go") }, parser.ParseComments)
	if err != nil {
		fmt.Fprintln(os.Stderr, "ble2lean:", err)
		os.Exit(1)
	}
	pkg := pkgs["bleparser"]
	if pkg == nil {
		fmt.Fprintln(os.Stderr, "ble2lean: package bleparser not found")
		os.Exit(1)
	}
	var files []*ast.File
	var names []string
	for n := range pkg.Files {
		names = append(names, n)
	}
	sort.Strings(names)
	for _, n := range names {
		files = append(files, pkg.Files[n])
	}
	info := &types.Info{Types: map[ast.Expr]types.TypeAndValue{}, Defs: map[*ast.Ident]types.Object{}, Uses: map[*ast.Ident]types.Object{},
		Selections: map[*ast.SelectorExpr]*types.Selection{}}
	conf := types.Config{Importer: importer.ForCompiler(fset, "source", nil)}
	if _, err := conf.Check("github.com/koestler/go-victron/bleparser", fset, files, info); err != nil {
		fmt.Fprintln(os.Stderr, "ble2lean: type check:", err)
		os.Exit(1)
	}
	funcs := map[string]*ast.FuncDecl{}
	methods := map[string]*ast.FuncDecl{}
	var decoders []*ast.FuncDecl
	for _, f := range files {
		for _, d := range f.Decls {
			fd, ok := d.(*ast.FuncDecl)
			if !ok {
				continue
			}
			if fd.Recv == nil {
				funcs[fd.Name.Name] = fd
				// a record decoder: func DecodeX(inp []byte) (XRecord, error); other functions that merely start with
				// "Decode" (a dispatcher over record types, say) are not decoders of a record layout
				if strings.HasPrefix(fd.Name.Name, "Decode") && isDecoderSignature(info, fd) {
					decoders = append(decoders, fd)
				}
				continue
			}
			rt := fd.Recv.List[0].Type
			if s, ok := rt.(*ast.StarExpr); ok {
				rt = s.X
			}
			if id, ok := rt.(*ast.Ident); ok {
				methods[id.Name+"."+fd.Name.Name] = fd
			}
		}
	}
	sort.Slice(decoders, func(i, j int) bool { return decoders[i].Name.Name < decoders[j].Name.Name })
	out, err := os.Create(os.Args[2])
	if err != nil {
		panic(err)
	}
	w := bufio.NewWriter(out)
	w.WriteString("-- GENERATED by tools/ble2lean from /repo/bleparser on every run. Do not edit, do not commit.\n")
	w.WriteString("import Victron.Model.Ble\nimport Victron.Gen.Tables\nnamespace Victron.Gen.Ble\nopen Victron Victron.Ble\n\n")
	rc := 0
	var done []string
	for _, fd := range decoders {
		if err := translate(info, funcs, methods, fd, w); err != nil {
			fmt.Fprintln(os.Stderr, "ble2lean:", err)
			rc = 1
			continue
		}
		done = append(done, strings.TrimPrefix(fd.Name.Name, "Decode"))
	}
	fmt.Fprintf(w, "def decoders : List String := [%s]\n\n", `"`+strings.Join(done, `", "`)+`"`)
	w.WriteString("def decodeByName (name : String) : Option (Bytes → Bytes → R Rec) :=\n")
	for _, d := range done {
		fmt.Fprintf(w, "  if name = %q then some decode%s else\n", d, d)
	}
	w.WriteString("  none\n\nend Victron.Gen.Ble\n")
	w.Flush()
	out.Close()
	os.Exit(rc)
}
