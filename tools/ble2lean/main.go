// ble2lean (T2): translates the Decode* functions of /repo/bleparser into Lean definitions that mirror them
// statement by statement with Go's semantics made explicit (bounds checks against len / cap as explicit panics,
// fixed-width wrap-around, two's-complement conversions, symbolic float conversion). Anything outside the
// accepted subset is rejected with "unsupported construct at file:line": a rejected file is a broken tie.
package main

import (
	"bufio"
	"fmt"
	"go/ast"
	"go/constant"
	"go/importer"
	"go/parser"
	"go/token"
	"go/types"
	"os"
	"path/filepath"
	"sort"
	"strconv"
	"strings"
)

type unsupported struct{ msg string }

var fset = token.NewFileSet()

func fail(n ast.Node, format string, a ...any) {
	pos := fset.Position(n.Pos())
	panic(unsupported{fmt.Sprintf("unsupported construct at %s:%d: %s", filepath.Base(pos.Filename), pos.Line, fmt.Sprintf(format, a...))})
}

// ---- symbolic values ----

type sliceVal struct {
	isInp  bool // a sub-slice of inp: [lo, hi) ; whole inp: lo=0, hi=-1
	lo, hi int
	lit    []string // []byte{…} literal: element expressions
}

type fexpr struct { // raw * mul / div + off  | NaN | conditional
	lean string
}

type tr struct {
	info    *types.Info
	funcs   map[string]*ast.FuncDecl
	lines   []string          // emitted "if … then … else" / "let … :=" lines
	env     map[string]string // Go local -> Lean Int variable
	senv    map[string]sliceVal
	consts  map[string]int64 // constant parameters of an inlined helper
	fields  map[string]string
	path    []string
	nvar    int
	inpName string
}

func (t *tr) fresh(p string) string { t.nvar++; return fmt.Sprintf("%s%d", p, t.nvar) }

func (t *tr) pathCond() string {
	if len(t.path) == 0 {
		return ""
	}
	return strings.Join(t.path, " ∧ ")
}

func (t *tr) check(cond, outcome string) {
	c := cond
	if pc := t.pathCond(); pc != "" {
		c = pc + " ∧ " + cond
	}
	t.lines = append(t.lines, fmt.Sprintf("if %s then %s else", c, outcome))
}

func (t *tr) let(name, typ, expr string) {
	t.lines = append(t.lines, fmt.Sprintf("let %s : %s := %s", name, typ, expr))
}

func intType(ty types.Type) (w int, signed bool, ok bool) {
	b, isB := ty.Underlying().(*types.Basic)
	if !isB {
		return 0, false, false
	}
	switch b.Kind() {
	case types.Uint8:
		return 8, false, true
	case types.Uint16:
		return 16, false, true
	case types.Uint32:
		return 32, false, true
	case types.Uint64, types.Uint:
		return 64, false, true
	case types.Int8:
		return 8, true, true
	case types.Int16:
		return 16, true, true
	case types.Int32:
		return 32, true, true
	case types.Int64, types.Int:
		return 64, true, true
	}
	return 0, false, false
}

func wrap(ty types.Type, e string, n ast.Node) string {
	w, s, ok := intType(ty)
	if !ok {
		fail(n, "arithmetic in non-integer type %s", ty)
	}
	if s {
		return fmt.Sprintf("(wrapS %d %s)", w, e)
	}
	return fmt.Sprintf("(wrapU %d %s)", w, e)
}

func (t *tr) constOf(e ast.Expr) (int64, bool) {
	if tv, ok := t.info.Types[e]; ok && tv.Value != nil {
		if v, ok := constant.Int64Val(constant.ToInt(tv.Value)); ok && constant.ToInt(tv.Value).Kind() == constant.Int {
			return v, true
		}
	}
	switch x := e.(type) {
	case *ast.Ident:
		if v, ok := t.consts[x.Name]; ok {
			return v, true
		}
	case *ast.ParenExpr:
		return t.constOf(x.X)
	case *ast.BinaryExpr:
		a, ok1 := t.constOf(x.X)
		b, ok2 := t.constOf(x.Y)
		if ok1 && ok2 {
			switch x.Op {
			case token.ADD:
				return a + b, true
			case token.SUB:
				return a - b, true
			case token.MUL:
				return a * b, true
			}
		}
	}
	return 0, false
}

func lit(v int64) string {
	if v < 0 {
		return fmt.Sprintf("(%d)", v)
	}
	return strconv.FormatInt(v, 10)
}

// ---- slices ----

func (t *tr) slice(e ast.Expr) sliceVal {
	switch x := e.(type) {
	case *ast.Ident:
		if x.Name == t.inpName {
			return sliceVal{isInp: true, lo: 0, hi: -1}
		}
		if s, ok := t.senv[x.Name]; ok {
			return s
		}
	case *ast.SliceExpr:
		base := t.slice(x.X)
		if !base.isInp || base.hi != -1 || x.Slice3 || x.Low == nil || x.High == nil {
			fail(e, "slice expression other than inp[a:b]")
		}
		lo, ok1 := t.constOf(x.Low)
		hi, ok2 := t.constOf(x.High)
		if !ok1 || !ok2 {
			fail(e, "non-constant slice bounds")
		}
		// Go: 0 <= lo <= hi <= cap(inp)
		if lo > hi || lo < 0 {
			t.check("True", ".panic")
		}
		t.check(fmt.Sprintf("¬ (%d ≤ %s.length + spare.length)", hi, t.inpName), ".panic")
		return sliceVal{isInp: true, lo: int(lo), hi: int(hi)}
	case *ast.CompositeLit:
		var elems []string
		for _, el := range x.Elts {
			s, _ := t.intExpr(el)
			elems = append(elems, s)
		}
		return sliceVal{lit: elems}
	}
	fail(e, "unsupported slice value")
	return sliceVal{}
}

func (t *tr) sliceLen(s sliceVal) (static int, dynamic string) {
	if s.lit != nil {
		return len(s.lit), ""
	}
	if s.hi == -1 {
		return -1, t.inpName + ".length"
	}
	return s.hi - s.lo, ""
}

func (t *tr) elem(s sliceVal, i int) string {
	if s.lit != nil {
		return s.lit[i]
	}
	return fmt.Sprintf("(at' %s spare %d)", t.inpName, s.lo+i)
}

// requireLen: Go's bounds check "n <= len(s)"
func (t *tr) requireLen(s sliceVal, n int, node ast.Node) {
	st, dyn := t.sliceLen(s)
	if dyn != "" {
		t.check(fmt.Sprintf("¬ (%d ≤ %s)", n, dyn), ".panic")
	} else if st < n {
		t.check("True", ".panic")
	}
}

// ---- integer expressions (Lean type Int) ----

func (t *tr) intExpr(e ast.Expr) (string, types.Type) {
	ty := t.info.TypeOf(e)
	if v, ok := t.constOf(e); ok {
		if _, isId := e.(*ast.Ident); !isId || t.info.Types[e].Value != nil || true {
			return lit(v), ty
		}
	}
	switch x := e.(type) {
	case *ast.ParenExpr:
		return t.intExpr(x.X)
	case *ast.Ident:
		if v, ok := t.env[x.Name]; ok {
			return v, ty
		}
		fail(e, "unknown identifier %s", x.Name)
	case *ast.IndexExpr:
		s := t.slice(x.X)
		i, ok := t.constOf(x.Index)
		if !ok {
			fail(e, "non-constant index")
		}
		t.requireLen(s, int(i)+1, e)
		return t.elem(s, int(i)), ty
	case *ast.SelectorExpr:
		// ret.Field read back (switch tag)
		if id, ok := x.X.(*ast.Ident); ok && id.Name == "ret" {
			if v, ok := t.fields[x.Sel.Name]; ok && strings.HasPrefix(v, ".i ") {
				return strings.TrimPrefix(v, ".i "), ty
			}
		}
		fail(e, "unsupported selector")
	case *ast.UnaryExpr:
		if x.Op == token.SUB {
			a, _ := t.intExpr(x.X)
			return wrap(ty, fmt.Sprintf("(-%s)", a), e), ty
		}
		fail(e, "unary %s", x.Op)
	case *ast.BinaryExpr:
		a, _ := t.intExpr(x.X)
		switch x.Op {
		case token.SHR, token.SHL:
			k, ok := t.constOf(x.Y)
			if !ok || k < 0 || k > 63 {
				fail(e, "non-constant shift count")
			}
			if x.Op == token.SHR {
				return fmt.Sprintf("(%s / %d)", a, int64(1)<<uint(k)), ty
			}
			return wrap(ty, fmt.Sprintf("(%s * %d)", a, int64(1)<<uint(k)), e), ty
		case token.AND:
			m, ok := t.constOf(x.Y)
			if !ok || m < 0 || (m+1)&m != 0 {
				fail(e, "& with something other than a constant 2^k-1 mask")
			}
			if _, s, _ := intType(ty); s {
				fail(e, "& on a signed operand")
			}
			return fmt.Sprintf("(%s %% %d)", a, m+1), ty
		case token.ADD, token.SUB, token.MUL:
			b, _ := t.intExpr(x.Y)
			op := map[token.Token]string{token.ADD: "+", token.SUB: "-", token.MUL: "*"}[x.Op]
			return wrap(ty, fmt.Sprintf("(%s %s %s)", a, op, b), e), ty
		}
		fail(e, "binary %s on integers", x.Op)
	case *ast.CallExpr:
		// conversions T(x)
		if tv, ok := t.info.Types[x.Fun]; ok && tv.IsType() {
			if len(x.Args) != 1 {
				fail(e, "conversion with %d args", len(x.Args))
			}
			a, _ := t.intExpr(x.Args[0])
			return wrap(tv.Type, a, e), ty
		}
		// binary.LittleEndian.Uint16 / Uint32
		if sel, ok := x.Fun.(*ast.SelectorExpr); ok {
			if s2, ok := sel.X.(*ast.SelectorExpr); ok && s2.Sel.Name == "LittleEndian" {
				n := map[string]int{"Uint16": 2, "Uint32": 4}[sel.Sel.Name]
				if n == 0 || len(x.Args) != 1 {
					fail(e, "binary.LittleEndian.%s", sel.Sel.Name)
				}
				s := t.slice(x.Args[0])
				t.requireLen(s, n, e)
				parts := make([]string, n)
				for i := 0; i < n; i++ {
					if i == 0 {
						parts[i] = t.elem(s, i)
					} else {
						parts[i] = fmt.Sprintf("%d * %s", int64(1)<<uint(8*i), t.elem(s, i))
					}
				}
				return "(" + strings.Join(parts, " + ") + ")", ty
			}
		}
		fail(e, "unsupported call in integer expression")
	}
	fail(e, "unsupported integer expression %T", e)
	return "", nil
}

// ---- conditions ----

func (t *tr) cond(e ast.Expr) string {
	switch x := e.(type) {
	case *ast.ParenExpr:
		return "(" + t.cond(x.X) + ")"
	case *ast.UnaryExpr:
		if x.Op == token.NOT {
			return "(¬ " + t.cond(x.X) + ")"
		}
	case *ast.BinaryExpr:
		switch x.Op {
		case token.LAND:
			return "(" + t.cond(x.X) + " ∧ " + t.cond(x.Y) + ")"
		case token.LOR:
			return "(" + t.cond(x.X) + " ∨ " + t.cond(x.Y) + ")"
		case token.EQL, token.NEQ, token.LSS, token.LEQ, token.GTR, token.GEQ:
			op := map[token.Token]string{token.EQL: "=", token.NEQ: "≠", token.LSS: "<", token.LEQ: "≤", token.GTR: ">", token.GEQ: "≥"}[x.Op]
			// len(inp) < N
			if c, ok := x.X.(*ast.CallExpr); ok {
				if id, ok := c.Fun.(*ast.Ident); ok && id.Name == "len" {
					if a, ok := c.Args[0].(*ast.Ident); ok && a.Name == t.inpName {
						n, ok := t.constOf(x.Y)
						if !ok {
							fail(e, "len(inp) compared with a non-constant")
						}
						return fmt.Sprintf("((%s.length : Int) %s %d)", t.inpName, op, n)
					}
				}
			}
			a, _ := t.intExpr(x.X)
			b, _ := t.intExpr(x.Y)
			return fmt.Sprintf("(%s %s %s)", a, op, b)
		}
	}
	fail(e, "unsupported condition")
	return ""
}

// ---- float expressions ----

type fl struct {
	nan      bool
	raw      string
	mul, div int64
	off      string
	cond     string // conditional: if cond then a else b
	a, b     *fl
}

func (f *fl) lean() string {
	if f.cond != "" {
		return fmt.Sprintf("(if %s then %s else %s)", f.cond, f.a.lean(), f.b.lean())
	}
	if f.nan {
		return "FV.nan"
	}
	return fmt.Sprintf("(FV.num %s %d %d %q)", f.raw, f.mul, f.div, f.off)
}

func floatConst(t *tr, e ast.Expr) (string, bool) {
	if tv, ok := t.info.Types[e]; ok && tv.Value != nil {
		f, _ := constant.Float64Val(constant.ToFloat(tv.Value))
		return strconv.FormatFloat(f, 'g', -1, 64), true
	}
	return "", false
}

func (t *tr) floatExpr(e ast.Expr) *fl {
	switch x := e.(type) {
	case *ast.ParenExpr:
		return t.floatExpr(x.X)
	case *ast.CallExpr:
		if sel, ok := x.Fun.(*ast.SelectorExpr); ok {
			if id, ok := sel.X.(*ast.Ident); ok && id.Name == "math" && sel.Sel.Name == "NaN" {
				return &fl{nan: true}
			}
		}
		if tv, ok := t.info.Types[x.Fun]; ok && tv.IsType() {
			if b, ok := tv.Type.Underlying().(*types.Basic); ok && b.Kind() == types.Float64 {
				a, _ := t.intExpr(x.Args[0])
				return &fl{raw: a, mul: 1, div: 1, off: "0"}
			}
		}
		if id, ok := x.Fun.(*ast.Ident); ok {
			if fd, ok := t.funcs[id.Name]; ok {
				return t.inlineFloatFunc(fd, x)
			}
		}
		fail(e, "unsupported call in float expression")
	case *ast.BinaryExpr:
		f := t.floatExpr(x.X)
		if f.nan || f.cond != "" {
			fail(e, "arithmetic on NaN / conditional float")
		}
		cs, ok := floatConst(t, x.Y)
		if !ok {
			fail(e, "float arithmetic with a non-constant")
		}
		ci, isInt := strconv.ParseInt(cs, 10, 64)
		switch x.Op {
		case token.MUL:
			if isInt != nil || f.div != 1 || f.off != "0" {
				fail(e, "float multiplication not of the form float64(i) * int")
			}
			f.mul *= ci
		case token.QUO:
			if isInt != nil || f.mul != 1 || f.off != "0" || f.div != 1 {
				fail(e, "float division not of the form float64(i) / int")
			}
			f.div = ci
		case token.ADD:
			if f.off != "0" {
				fail(e, "two float offsets")
			}
			f.off = cs
		case token.SUB:
			if f.off != "0" {
				fail(e, "two float offsets")
			}
			f.off = "-" + cs
		default:
			fail(e, "float operator %s", x.Op)
		}
		return f
	}
	fail(e, "unsupported float expression %T", e)
	return nil
}

// inlineFloatFunc: a package-local helper `func f(inp []byte, consts...) float64` called with constant arguments
func (t *tr) inlineFloatFunc(fd *ast.FuncDecl, call *ast.CallExpr) *fl {
	saved, savedEnv := t.consts, t.env
	t.consts = map[string]int64{}
	t.env = map[string]string{}
	for k, v := range savedEnv {
		t.env[k] = v
	}
	i := 0
	for _, p := range fd.Type.Params.List {
		for _, n := range p.Names {
			arg := call.Args[i]
			i++
			if n.Name == t.inpName || i == 1 {
				if id, ok := arg.(*ast.Ident); !ok || id.Name != t.inpName {
					fail(call, "helper must be called with inp as first argument")
				}
				if n.Name != t.inpName {
					fail(call, "helper's slice parameter must be named like the decoder's")
				}
				continue
			}
			v, ok := t.constOf(arg)
			if !ok {
				fail(call, "helper called with a non-constant argument")
			}
			t.consts[n.Name] = v
		}
	}
	res := t.floatBody(fd.Body.List)
	t.consts, t.env = saved, savedEnv
	return res
}

func (t *tr) floatBody(stmts []ast.Stmt) *fl {
	if len(stmts) == 0 {
		fail(nil, "helper without return")
	}
	switch s := stmts[0].(type) {
	case *ast.ReturnStmt:
		if len(s.Results) != 1 {
			fail(s, "helper return with %d results", len(s.Results))
		}
		return t.floatExpr(s.Results[0])
	case *ast.IfStmt:
		if s.Init != nil {
			t.execInit(s.Init)
		}
		c := t.cond(s.Cond)
		t.path = append(t.path, c)
		a := t.floatBody(s.Body.List)
		t.path = t.path[:len(t.path)-1]
		var b *fl
		if s.Else != nil {
			fail(s, "helper if with else")
		}
		t.path = append(t.path, "¬ "+c)
		b = t.floatBody(stmts[1:])
		t.path = t.path[:len(t.path)-1]
		return &fl{cond: c, a: a, b: b}
	}
	fail(stmts[0], "unsupported statement in helper")
	return nil
}

// ---- statements ----

func (t *tr) execInit(s ast.Stmt) {
	as, ok := s.(*ast.AssignStmt)
	if !ok || as.Tok != token.DEFINE || len(as.Lhs) != 1 || len(as.Rhs) != 1 {
		fail(s, "unsupported init statement")
	}
	name := as.Lhs[0].(*ast.Ident).Name
	v, _ := t.intExpr(as.Rhs[0])
	lv := t.fresh("v")
	t.let(lv, "Int", v)
	t.env[name] = lv
}

func isErrReturn(b *ast.BlockStmt) (string, bool) {
	// { err = X; return }
	if len(b.List) != 2 {
		return "", false
	}
	as, ok := b.List[0].(*ast.AssignStmt)
	if !ok || len(as.Lhs) != 1 {
		return "", false
	}
	if id, ok := as.Lhs[0].(*ast.Ident); !ok || id.Name != "err" {
		return "", false
	}
	if _, ok := b.List[1].(*ast.ReturnStmt); !ok {
		return "", false
	}
	switch r := as.Rhs[0].(type) {
	case *ast.Ident:
		return r.Name, true
	}
	return "", false
}

func (t *tr) copyFields() map[string]string {
	m := map[string]string{}
	for k, v := range t.fields {
		m[k] = v
	}
	return m
}

func (t *tr) mergeFields(c string, a, b map[string]string) {
	for k := range t.fields {
		if a[k] == b[k] {
			t.fields[k] = a[k]
		} else {
			// both must be of the same constructor
			ka, kb := a[k][:2], b[k][:2]
			if ka != kb {
				fail(nil, "field %s assigned values of different kinds", k)
			}
			t.fields[k] = fmt.Sprintf("%s (if %s then %s else %s)", ka, c, strings.TrimPrefix(a[k], ka+" "), strings.TrimPrefix(b[k], kb+" "))
		}
	}
}

func (t *tr) assignField(lhs *ast.SelectorExpr, rhs ast.Expr) {
	name := lhs.Sel.Name
	old, ok := t.fields[name]
	if !ok {
		fail(lhs, "assignment to unknown field %s", name)
	}
	if strings.HasPrefix(old, ".f ") {
		t.fields[name] = ".f " + t.floatExpr(rhs).lean()
	} else {
		v, _ := t.intExpr(rhs)
		// store through a let so that later reads (switch tags) are cheap and the record stays small
		lv := t.fresh("x")
		t.let(lv, "Int", v)
		t.fields[name] = ".i " + lv
	}
}

func (t *tr) exec(stmts []ast.Stmt) {
	for _, s := range stmts {
		switch x := s.(type) {
		case *ast.ReturnStmt:
			if len(x.Results) != 0 {
				fail(s, "return with results")
			}
			return
		case *ast.AssignStmt:
			if len(x.Lhs) == 1 && len(x.Rhs) == 1 && x.Tok == token.DEFINE {
				// v := <integer expression> : a local, bound once
				if _, _, ok := intType(t.info.TypeOf(x.Rhs[0])); ok {
					t.execInit(x)
					continue
				}
			}
			if len(x.Lhs) != 1 || x.Tok != token.ASSIGN {
				fail(s, "unsupported assignment")
			}
			sel, ok := x.Lhs[0].(*ast.SelectorExpr)
			if !ok {
				fail(s, "assignment to something other than ret.Field")
			}
			if id, ok := sel.X.(*ast.Ident); !ok || id.Name != "ret" {
				fail(s, "assignment to something other than ret.Field")
			}
			t.assignField(sel, x.Rhs[0])
		case *ast.IfStmt:
			t.execIf(x)
		case *ast.SwitchStmt:
			t.execSwitch(x)
		default:
			fail(s, "unsupported statement %T", s)
		}
	}
}

func (t *tr) execIf(x *ast.IfStmt) {
	// form 1: if len(inp) < N { err = ErrInputTooShort; return }
	if x.Init == nil && x.Else == nil {
		if errName, ok := isErrReturn(x.Body); ok {
			if errName != "ErrInputTooShort" {
				fail(x, "error return of %s", errName)
			}
			t.check(t.cond(x.Cond), "(.err .tooShort)")
			return
		}
	}
	// form 2: if v, e := veconst.XFactory.New(ARG); e != nil { err = e; return } else { ret.F = v }
	if as, ok := x.Init.(*ast.AssignStmt); ok && len(as.Lhs) == 2 {
		call, ok := as.Rhs[0].(*ast.CallExpr)
		if !ok {
			fail(x, "two-value init that is not a call")
		}
		sel, ok := call.Fun.(*ast.SelectorExpr)
		if !ok || sel.Sel.Name != "New" {
			fail(x, "two-value init that is not Factory.New")
		}
		fsel, ok := sel.X.(*ast.SelectorExpr)
		if !ok || !strings.HasSuffix(fsel.Sel.Name, "Factory") {
			fail(x, "two-value init that is not veconst.XFactory.New")
		}
		facType := t.info.TypeOf(fsel)
		tn := facType.String()
		tn = tn[strings.LastIndex(tn, ".")+1:]
		tn = strings.TrimSuffix(tn, "FactoryType")
		vName := as.Lhs[0].(*ast.Ident).Name
		eName := as.Lhs[1].(*ast.Ident).Name
		// cond must be e != nil, body an error return of e, else { ret.F = v }
		be, ok := x.Cond.(*ast.BinaryExpr)
		if !ok || be.Op != token.NEQ {
			fail(x, "factory check condition")
		}
		if id, ok := be.X.(*ast.Ident); !ok || id.Name != eName {
			fail(x, "factory check condition")
		}
		if en, ok := isErrReturn(x.Body); !ok || en != eName {
			fail(x, "factory check body")
		}
		arg, _ := t.intExpr(call.Args[0])
		lv := t.fresh("x")
		t.let(lv, "Int", arg)
		t.check(fmt.Sprintf("enumOk Gen.enums %q %s = false", tn, lv), "(.err .invalidEnum)")
		els, ok := x.Else.(*ast.BlockStmt)
		if !ok || len(els.List) != 1 {
			fail(x, "factory check else branch")
		}
		ea, ok := els.List[0].(*ast.AssignStmt)
		if !ok {
			fail(x, "factory check else branch")
		}
		if id, ok := ea.Rhs[0].(*ast.Ident); !ok || id.Name != vName {
			fail(x, "factory check else branch")
		}
		fsel2 := ea.Lhs[0].(*ast.SelectorExpr)
		if _, ok := t.fields[fsel2.Sel.Name]; !ok {
			fail(x, "unknown field")
		}
		t.fields[fsel2.Sel.Name] = ".i " + lv
		return
	}
	// form 3: if [v := E;] COND { S1 } [else { S2 }]
	savedEnv := map[string]string{}
	for k, v := range t.env {
		savedEnv[k] = v
	}
	if x.Init != nil {
		t.execInit(x.Init)
	}
	c := t.cond(x.Cond)
	before := t.copyFields()
	t.path = append(t.path, c)
	t.exec(x.Body.List)
	t.path = t.path[:len(t.path)-1]
	a := t.copyFields()
	t.fields = before
	b := t.copyFields()
	if x.Else != nil {
		eb, ok := x.Else.(*ast.BlockStmt)
		if !ok {
			fail(x, "else if")
		}
		t.fields = t.copyFields()
		t.path = append(t.path, "¬ "+c)
		t.exec(eb.List)
		t.path = t.path[:len(t.path)-1]
		b = t.copyFields()
	}
	t.mergeFields(c, a, b)
	t.env = savedEnv
}

func (t *tr) execSwitch(x *ast.SwitchStmt) {
	if x.Init != nil || x.Tag == nil {
		fail(x, "switch with init / without tag")
	}
	tag, _ := t.intExpr(x.Tag)
	before := t.copyFields()
	type br struct {
		cond   string
		fields map[string]string
	}
	var brs []br
	var seen []string
	for _, cc := range x.Body.List {
		c := cc.(*ast.CaseClause)
		if len(c.List) == 0 {
			fail(c, "default clause")
		}
		var cs []string
		for _, v := range c.List {
			k, ok := t.constOf(v)
			if !ok {
				fail(v, "non-constant case")
			}
			cs = append(cs, fmt.Sprintf("%s = %d", tag, k))
		}
		cnd := "(" + strings.Join(cs, " ∨ ") + ")"
		full := cnd
		if len(seen) > 0 {
			full = "(" + cnd + " ∧ ¬ (" + strings.Join(seen, " ∨ ") + "))"
		}
		seen = append(seen, cnd)
		t.fields = map[string]string{}
		for k, v := range before {
			t.fields[k] = v
		}
		t.path = append(t.path, full)
		t.exec(c.Body)
		t.path = t.path[:len(t.path)-1]
		brs = append(brs, br{full, t.copyFields()})
	}
	// merge from the last case backwards
	cur := before
	for i := len(brs) - 1; i >= 0; i-- {
		t.fields = map[string]string{}
		for k := range before {
			t.fields[k] = ""
		}
		t.mergeFields(brs[i].cond, brs[i].fields, cur)
		cur = t.copyFields()
	}
	t.fields = cur
}

// ---- per function ----

func translate(info *types.Info, funcs map[string]*ast.FuncDecl, fd *ast.FuncDecl, w *bufio.Writer) (err error) {
	defer func() {
		if r := recover(); r != nil {
			if u, ok := r.(unsupported); ok {
				err = fmt.Errorf("%s (in %s)", u.msg, fd.Name.Name)
				return
			}
			panic(r)
		}
	}()
	// signature: func DecodeX(inp []byte) (ret T, err error)
	if fd.Type.Params.NumFields() != 1 || fd.Type.Results.NumFields() != 2 {
		fail(fd, "decoder signature")
	}
	t := &tr{info: info, funcs: funcs, env: map[string]string{}, senv: map[string]sliceVal{}, consts: map[string]int64{}, fields: map[string]string{}}
	t.inpName = fd.Type.Params.List[0].Names[0].Name
	if t.inpName != "inp" {
		fail(fd, "decoder parameter must be called inp")
	}
	if fd.Type.Results.List[0].Names[0].Name != "ret" {
		fail(fd, "decoder result must be called ret")
	}
	rt := info.TypeOf(fd.Type.Results.List[0].Type)
	st, ok := rt.Underlying().(*types.Struct)
	if !ok {
		fail(fd, "decoder result is not a struct")
	}
	var order []string
	for i := 0; i < st.NumFields(); i++ {
		f := st.Field(i)
		order = append(order, f.Name())
		if b, ok := f.Type().Underlying().(*types.Basic); ok && b.Kind() == types.Float64 {
			t.fields[f.Name()] = `.f (FV.num 0 1 1 "0")`
		} else if _, _, ok := intType(f.Type()); ok {
			t.fields[f.Name()] = ".i 0"
		} else {
			fail(fd, "field %s of unsupported type %s", f.Name(), f.Type())
		}
	}
	t.exec(fd.Body.List)
	name := "decode" + strings.TrimPrefix(fd.Name.Name, "Decode")
	fmt.Fprintf(w, "/-- translation of bleparser.%s -/\ndef %s (inp spare : Bytes) : R Rec :=\n", fd.Name.Name, name)
	for _, l := range t.lines {
		fmt.Fprintf(w, "  %s\n", l)
	}
	var parts []string
	for _, f := range order {
		fmt.Fprintf(w, "  let f%s : FVal := %s\n", f, t.fields[f])
		parts = append(parts, fmt.Sprintf("(%q, f%s)", f, f))
	}
	fmt.Fprintf(w, "  .ok [%s]\n\n", strings.Join(parts, ", "))
	return nil
}

func main() {
	if len(os.Args) < 3 {
		fmt.Fprintln(os.Stderr, "usage: ble2lean <repo>/bleparser <out.lean>")
		os.Exit(2)
	}
	dir := os.Args[1]
	pkgs, err := parser.ParseDir(fset, dir, func(fi os.FileInfo) bool { return !strings.HasSuffix(fi.Name(), "_test.go") }, parser.ParseComments)
	if err != nil {
		fmt.Fprintln(os.Stderr, "ble2lean:", err)
		os.Exit(1)
	}
	pkg := pkgs["bleparser"]
	if pkg == nil {
		fmt.Fprintln(os.Stderr, "ble2lean: package bleparser not found")
		os.Exit(1)
	}
	var files []*ast.File
	var names []string
	for n := range pkg.Files {
		names = append(names, n)
	}
	sort.Strings(names)
	for _, n := range names {
		files = append(files, pkg.Files[n])
	}
	info := &types.Info{Types: map[ast.Expr]types.TypeAndValue{}, Defs: map[*ast.Ident]types.Object{}, Uses: map[*ast.Ident]types.Object{}}
	conf := types.Config{Importer: importer.ForCompiler(fset, "source", nil)}
	if _, err := conf.Check("github.com/koestler/go-victron/bleparser", fset, files, info); err != nil {
		fmt.Fprintln(os.Stderr, "ble2lean: type check:", err)
		os.Exit(1)
	}
	funcs := map[string]*ast.FuncDecl{}
	var decoders []*ast.FuncDecl
	for _, f := range files {
		for _, d := range f.Decls {
			if fd, ok := d.(*ast.FuncDecl); ok && fd.Recv == nil {
				funcs[fd.Name.Name] = fd
				if strings.HasPrefix(fd.Name.Name, "Decode") {
					decoders = append(decoders, fd)
				}
			}
		}
	}
	sort.Slice(decoders, func(i, j int) bool { return decoders[i].Name.Name < decoders[j].Name.Name })
	out, err := os.Create(os.Args[2])
	if err != nil {
		panic(err)
	}
	w := bufio.NewWriter(out)
	w.WriteString("-- GENERATED by tools/ble2lean from /repo/bleparser on every run. Do not edit, do not commit.\n")
	w.WriteString("import Victron.Model.Ble\nimport Victron.Gen.Tables\nnamespace Victron.Gen.Ble\nopen Victron Victron.Ble\n\n")
	rc := 0
	var done []string
	for _, fd := range decoders {
		if err := translate(info, funcs, fd, w); err != nil {
			fmt.Fprintln(os.Stderr, "ble2lean:", err)
			rc = 1
			continue
		}
		done = append(done, strings.TrimPrefix(fd.Name.Name, "Decode"))
	}
	fmt.Fprintf(w, "def decoders : List String := [%s]\n\n", `"`+strings.Join(done, `", "`)+`"`)
	w.WriteString("def decodeByName (name : String) : Option (Bytes → Bytes → R Rec) :=\n")
	for _, d := range done {
		fmt.Fprintf(w, "  if name = %q then some decode%s else\n", d, d)
	}
	w.WriteString("  none\n\nend Victron.Gen.Ble\n")
	w.Flush()
	out.Close()
	os.Exit(rc)
}
