package main

func runCliSuite(suite string, rng *Rng, thorough bool, s *Sink) bool {
	return false
}
