package main

import (
	"bytes"
	"context"
	"fmt"
	"os"
	"os/exec"
	"path/filepath"
	"sort"
	"strconv"
	"strings"
	"sync"
	"syscall"
	"time"
	"unsafe"

	"github.com/koestler/go-victron/vedirect"
	"github.com/koestler/go-victron/vedirectapi"
	"github.com/koestler/go-victron/veproduct"
	"github.com/koestler/go-victron/veregister"
)

func runCliSuite(suite string, rng *Rng, thorough bool, s *Sink) bool {
	if suite != "c20" {
		return false
	}
	suiteC20(rng, thorough, s)
	return true
}

// ---- pseudo terminal ----

func openPty() (master *os.File, slave string, err error) {
	master, err = os.OpenFile("/dev/ptmx", os.O_RDWR|syscall.O_NOCTTY, 0)
	if err != nil {
		return nil, "", err
	}
	var unlock int32
	if _, _, e := syscall.Syscall(syscall.SYS_IOCTL, master.Fd(), 0x40045431 /* TIOCSPTLCK */, uintptr(unsafe.Pointer(&unlock))); e != 0 {
		master.Close()
		return nil, "", e
	}
	var n uint32
	if _, _, e := syscall.Syscall(syscall.SYS_IOCTL, master.Fd(), 0x80045430 /* TIOCGPTN */, uintptr(unsafe.Pointer(&n))); e != 0 {
		master.Close()
		return nil, "", e
	}
	return master, fmt.Sprintf("/dev/pts/%d", n), nil
}

// serveDevice: a VE.Direct device on the pty master, answering from `dev` (the same reactive device the API
// suites use); stops when the master is closed
func serveDevice(master *os.File, dev *DevPort, wg *sync.WaitGroup) {
	defer wg.Done()
	var pending []byte
	buf := make([]byte, 4096)
	for {
		n, err := master.Read(buf)
		if n > 0 {
			pending = append(pending, buf[:n]...)
			for {
				i := bytes.IndexByte(pending, '\n')
				if i < 0 {
					break
				}
				frame := pending[:i+1]
				pending = pending[i+1:]
				dev.queue = nil
				dev.Write(frame)
				if len(dev.queue) > 0 {
					if dev.LatencyMs > 0 {
						time.Sleep(time.Duration(dev.LatencyMs) * time.Millisecond)
					}
					master.Write(dev.queue)
				}
			}
		}
		if err != nil {
			return
		}
	}
}

type cliRun struct {
	stdout   string
	ioLog    string
	timedOut bool
	err      error
}

// cliLogPrefill: content the io-log file already holds when the CLI starts (the log of an earlier, longer run)
var cliLogPrefill []byte

// cliViaLink: name the serial port through a symbolic link (/dev/serial/by-id/..., a udev SYMLINK+= name) instead of the device node
var cliViaLink bool

func runVecli(bin string, dev *DevPort, verbose, ioLog bool, limit time.Duration) cliRun {
	master, slave, err := openPty()
	if err != nil {
		return cliRun{err: err}
	}
	node := slave // the device node itself (the name handed to the CLI may be a link to it)
	if cliViaLink {
		dir, err := os.MkdirTemp("", "verif-serial-by-id-*")
		if err == nil {
			defer os.RemoveAll(dir)
			link := filepath.Join(dir, "usb-VictronEnergy_BV_VE_Direct_cable_VE1ABCDE-if00-port0")
			if os.Symlink(slave, link) == nil {
				slave = link
			}
		}
	}
	var wg sync.WaitGroup
	wg.Add(1)
	go serveDevice(master, dev, &wg)
	args := []string{"vedirect", "-d", slave}
	if verbose {
		args = append(args, "-v")
	}
	logPath := ""
	if ioLog {
		f, _ := os.CreateTemp("", "verif-iolog-*")
		logPath = f.Name()
		f.Write(cliLogPrefill) // what an earlier run left in the file
		f.Close()
		defer os.Remove(logPath)
		args = append(args, "--io-log", logPath)
	}
	ctx, cancel := context.WithTimeout(context.Background(), limit)
	defer cancel()
	cmd := exec.CommandContext(ctx, bin, args...)
	var out bytes.Buffer
	cmd.Stdout = &out
	cmd.Stderr = new(bytes.Buffer) // the debug log goes to stderr
	rerr := cmd.Run()
	r := cliRun{stdout: out.String(), err: rerr}
	if ctx.Err() != nil {
		r.timedOut = true
	}
	// a CLI that gave up before it opened the port leaves the simulator waiting for a first byte: opening and closing the
	// slave side once ends that read with a hang-up
	if f, e := os.OpenFile(node, os.O_RDWR|syscall.O_NOCTTY, 0); e == nil {
		f.Close()
	}
	master.Close()
	wg.Wait()
	if logPath != "" {
		b, _ := os.ReadFile(logPath)
		r.ioLog = string(b)
	}
	return r
}

// ---- scenario ----

// canonical line: sort|name=<value text as printed>
type cliLine struct {
	sort int
	name string
	text string
}

// expectedRegs: "that product's list", from the class rules of the property text (C12's oracle), not from the
// library's own selection function
func expectedRegs(p veproduct.Product) (veregister.RegisterList, bool) {
	cl := productClass(p)
	return classList(cl), cl != ""
}

// expectedCliText: the line vecli must print for a register whose device-side content is the payload p:
// the value the device holds, scaled as the register defines. Independent of the library's readers.
func expectedCliText(kind int, it poolItem, p []byte) (string, bool) {
	name := it.reg().Name()
	switch kind {
	case 1:
		var raw float64
		if it.n.Signed() {
			switch len(p) {
			case 1:
				raw = float64(int8(p[0]))
			case 2:
				raw = float64(int16(leU(p)))
			case 4:
				raw = float64(int32(leU(p)))
			case 8:
				raw = float64(int64(leU(p)))
			default:
				return "", false
			}
		} else {
			if len(p) > 8 {
				return "", false
			}
			raw = float64(leU(p))
		}
		return fmt.Sprintf("%s=%f%s", name, raw/float64(it.n.Factor())+it.n.Offset(), it.n.Unit()), true
	case 2:
		return name + "=" + strings.TrimSpace(string(bytes.TrimRight(p, "\x00"))), true
	case 3:
		raw := leU(p)
		nm, ok := it.e.Factory().IntToStringMap()[int(raw)]
		if !ok {
			return "", false
		}
		return fmt.Sprintf("%s=%d:%s", name, raw, nm), true
	case 4:
		m := it.f.Factory().IntToStringMap()
		raw := leU(p)
		ks := make([]int, 0, len(m))
		for k := range m {
			ks = append(ks, k)
		}
		sort.Ints(ks)
		var names []string
		for _, k := range ks {
			if raw&(1<<uint(k)) != 0 {
				names = append(names, m[k])
			}
		}
		return name + "=" + strings.Join(names, ", "), true
	}
	return "", false
}

func suiteC20(rng *Rng, thorough bool, s *Sink) {
	exe, _ := os.Executable()
	bin := filepath.Join(filepath.Dir(exe), "vecli")
	if v := os.Getenv("VERIF_VECLI"); v != "" {
		bin = v
	}
	if _, err := os.Stat(bin); err != nil {
		s.Violate("CL setup", "", "vecli binary not found next to the harness: "+bin)
		return
	}
	ids := []uint16{0x203, 0xA381, 0xA389, 0xA056, 0xA053, 0xA231, 0xA05F, 0xA04C}
	if thorough {
		ids = append(ids, 0x204, 0xA383, 0xA38A, 0xA060, 0xA042, 0x0300, 0xA2B1, 0xA2FA, 0xA066, 0xA067, 0xA054, 0xA075)
	}
	type scen struct {
		id       uint16
		verbose  bool
		ioLog    bool
		silent   int // -1: answers everything; k: silent after k answered Gets
		noPing   bool
		midFrame bool // the device dies in the middle of the frame answering the (k+1)-th Get
		latency  int  // milliseconds the device takes for every answer (well below the 200 ms read timeout)
		async    int  // an asynchronous frame precedes every async-th answer
		link     bool // the port is named through a symbolic link
		prefill  bool // the io-log file already holds the log of an earlier run
	}
	var scens []scen
	for i, id := range ids {
		scens = append(scens, scen{id, false, false, -1, false, false, 0, 0, false, false})
		scens = append(scens, scen{id, i%2 == 0, true, -1, false, false, 0, 0, false, false})
		if thorough {
			scens = append(scens, scen{id, true, false, -1, false, false, 0, 0, false, false}, scen{id, true, true, -1, false, false, 0, 0, false, false})
		}
	}
	// a slow but healthy device (75 ms per answer: about four seconds for the whole list), a device that keeps sending
	// asynchronous frames between its answers (with the io log on: it must still replay)
	scens = append(scens, scen{id: 0xA05F, silent: -1, latency: 75}, scen{id: 0xA381, ioLog: true, silent: -1, async: 4}, scen{id: 0xA056, ioLog: true, verbose: true, silent: -1, async: 1})
	scens = append(scens, scen{id: 0xA056, silent: -1, link: true}, scen{id: 0x203, ioLog: true, silent: -1, link: true})
	scens = append(scens, scen{id: 0xA053, ioLog: true, silent: -1, prefill: true}, scen{id: 0xA381, ioLog: true, verbose: true, silent: -1, prefill: true}, scen{id: 0x203, ioLog: true, silent: 4, prefill: true})
	// silent exactly at the last registers read (the field-list group comes last): -2 = after all but one answer, -3 = all but two
	scens = append(scens, scen{0xA056, false, false, -2, false, false, 0, 0, false, false}, scen{0xA231, false, true, -2, false, false, 0, 0, false, false}, scen{0xA231, true, false, -3, false, false, 0, 0, false, false},
		scen{0xA05F, false, false, -2, false, false, 0, 0, false, false}, scen{0x203, false, false, -2, false, false, 0, 0, false, false})
	scens = append(scens, scen{0xA056, false, false, 0, false, false, 0, 0, false, false}, scen{0xA381, false, true, 7, false, false, 0, 0, false, false}, scen{0x203, true, false, 3, false, false, 0, 0, false, false}, scen{0xA231, false, false, -1, true, false, 0, 0, false, false},
		scen{0xA053, false, false, 5, false, true, 0, 0, false, false}, scen{0x203, false, true, 0, false, true, 0, 0, false, false})
	if thorough {
		for k := 0; k < 30; k++ {
			scens = append(scens, scen{ids[rng.Intn(len(ids))], rng.Bool(), rng.Bool(), rng.Intn(40), false, rng.Bool(), 0, 0, false, false})
		}
	}
	for _, sc := range scens {
		p := veproduct.Product(sc.id)
		rl, _ := expectedRegs(p)
		if sc.silent <= -2 {
			sc.silent = rl.Len() + sc.silent + 1
		}
		dev := NewDevPort(sc.id)
		dev.NoPing = sc.noPing
		dev.SilentAfter = sc.silent
		dev.DieMidFrame = sc.midFrame
		dev.LatencyMs = sc.latency
		dev.AsyncEvery = sc.async
		var mp []string
		wantText := map[string]string{}
		add := func(kind int, it poolItem, e *veregister.EnumRegisterStruct) {
			r := it.reg()
			pl := answerFor(kind, r, e, rng)
			if kind == 1 && rng.Intn(3) == 0 {
				pl = [][]byte{{0xFF, 0xFF}, {0x00, 0x80}, {0xFF, 0xFF, 0xFF, 0x7F}, {0x80}, {0x9C}, {0xFF, 0xFF, 0xFF, 0xFF}}[rng.Intn(6)]
			}
			if kind == 2 && rng.Intn(2) == 0 { // a long text: a frame of more than a hundred characters
				pl = append([]byte("SmartSolar Charger MPPT VE.Can 250/100 rev2 - installed on the roof of the boat house"[:43+rng.Intn(40)]), 0)
			}
			dev.Regs[r.Address()] = DevAnswer{0, pl}
			mp = append(mp, fmt.Sprintf("%d=ok:%s", r.Address(), HEX(pl)))
			if t, ok := expectedCliText(kind, it, pl); ok {
				wantText[r.Name()] = t
			}
		}
		for i := range rl.NumberRegisters {
			add(1, poolItem{kind: 1, n: &rl.NumberRegisters[i]}, nil)
		}
		for i := range rl.TextRegisters {
			add(2, poolItem{kind: 2, t: &rl.TextRegisters[i]}, nil)
		}
		for i := range rl.EnumRegisters {
			add(3, poolItem{kind: 3, e: &rl.EnumRegisters[i]}, &rl.EnumRegisters[i])
		}
		for i := range rl.FieldListRegisters {
			add(4, poolItem{kind: 4, f: &rl.FieldListRegisters[i]}, nil)
		}
		sort.Strings(mp)
		limit := 30 * time.Second
		cliLogPrefill = nil
		if sc.prefill {
			// about 8 KiB: longer than the log of the run to come is unlikely to be, and not a multiple of any line length
			var sb strings.Builder
			for i := 0; sb.Len() < 8000; i++ {
				fmt.Fprintf(&sb, "%q: %q, // GetString(0x%X) = an earlier run, line %d, with a long text value of the old boat house\n", fmt.Sprintf(":7%02X0100%02X\n", i%256, (0x4D-i%256)&0xFF), ":70A010053686F72\n", 0x10A, i)
			}
			cliLogPrefill = []byte(sb.String())
		}
		cliViaLink = sc.link
		run := runVecli(bin, dev, sc.verbose, sc.ioLog, limit)
		cliViaLink = false
		if sc.prefill {
			if !strings.HasPrefix(run.ioLog, string(cliLogPrefill)) {
				s.Violate(fmt.Sprintf("CL %d io log appended to an existing file", sc.id), run.ioLog[:min(len(run.ioLog), 200)], fmt.Sprintf("the io-log file held %d bytes of an earlier run's log; after this run it no longer starts with them (the new log must be appended: a log written over the old one can be neither parsed nor replayed)", len(cliLogPrefill)))
				run.ioLog = ""
			} else {
				run.ioLog = run.ioLog[len(cliLogPrefill):]
			}
			cliLogPrefill = nil
		}
		m := strings.Join(mp, ",")
		if m == "" {
			m = "-"
		}
		sil := "-"
		if sc.silent >= 0 {
			sil = strconv.Itoa(sc.silent)
		}
		ping := "ok"
		if sc.noPing {
			ping = "err"
		}
		op := fmt.Sprintf("CL %d %s %s %s", sc.id, ping, sil, m)
		if sc.latency > 0 {
			op += fmt.Sprintf(" mut:device-takes-%dms-per-answer", sc.latency)
		}
		if sc.async > 0 {
			op += fmt.Sprintf(" mut:async-frame-before-every-%d-answers", sc.async)
		}
		if sc.midFrame {
			op += " mut:device-dies-mid-frame"
		}
		if sc.link {
			op += " mut:port-named-through-a-symlink"
		}
		if sc.prefill {
			op += " mut:io-log-file-holds-an-earlier-log"
		}
		tag := "full"
		if sc.silent >= 0 {
			tag = "silent-after-k"
		}
		if sc.midFrame {
			tag = "dies-mid-frame"
		}
		if sc.noPing {
			tag = "no-ping"
		}
		if sc.ioLog {
			tag += "-iolog"
		}
		if sc.verbose {
			tag += "-v"
		}
		viol := func(w string) { s.Violate(op[:min(len(op), 200)], run.stdout[:min(len(run.stdout), 300)], w) }
		if run.timedOut {
			s.Line(tag, op, "HANG")
			viol(fmt.Sprintf("vecli did not terminate within %s (device silent after %d answers)", limit, sc.silent))
			continue
		}
		// parse stdout
		lines := strings.Split(strings.TrimRight(run.stdout, "\n"), "\n")
		var errLine string
		count := -1
		var regLines []cliLine
		bySort := map[string]int{}
		for _, r := range rl.GetRegisters() {
			bySort[r.Name()] = r.Sort()
		}
		prevSort := -1 << 31
		ordered := true
		for _, l := range lines {
			switch {
			case strings.HasPrefix(l, "error creating api:"):
				errLine = "connect-error"
			case strings.HasPrefix(l, "error fetching registers:"):
				errLine = "fetch-error"
			case strings.HasPrefix(l, "fetched "):
				f := strings.Fields(l)
				count, _ = strconv.Atoi(f[1])
			case l == "":
			default:
				name := strings.SplitN(l, "=", 2)[0]
				so, ok := bySort[name]
				if !ok {
					viol("unexpected output line: " + l)
					continue
				}
				if so < prevSort {
					ordered = false
				}
				prevSort = so
				regLines = append(regLines, cliLine{so, name, l})
			}
		}
		if !ordered {
			viol("register lines are not ordered by non-decreasing sort key")
		}
		sort.Slice(regLines, func(i, j int) bool {
			if regLines[i].sort != regLines[j].sort {
				return regLines[i].sort < regLines[j].sort
			}
			return regLines[i].name < regLines[j].name
		})
		var parts []string
		for _, l := range regLines {
			parts = append(parts, fmt.Sprintf("%d|%s", l.sort, l.text))
		}
		out := fmt.Sprintf("%s n=%d %s", map[string]string{"": "ok", "connect-error": "connect-error", "fetch-error": "fetch-error"}[errLine], count, strings.Join(parts, ";;"))
		s.Line(tag, op, out)
		// ---- the property, directly ----
		// a device that falls silent only after more answers than the product has registers never falls silent in this run
		full := (sc.silent < 0 || sc.silent >= rl.Len()) && !sc.noPing
		if full {
			if errLine != "" || count != rl.Len() || len(regLines) != rl.Len() {
				viol(fmt.Sprintf("a healthy device of product 0x%04X must yield %d register lines (header says %d, %d lines, error %q)", sc.id, rl.Len(), count, len(regLines), errLine))
			}
			// each line shows the value the device holds, scaled as the register defines
			seen := map[string]bool{}
			for _, l := range regLines {
				seen[l.name] = true
				if w, ok := wantText[l.name]; ok && w != l.text {
					viol(fmt.Sprintf("line %q does not show the value the device holds: expected %q", l.text, w))
				}
			}
			for _, r := range rl.GetRegisters() {
				if !seen[r.Name()] {
					viol(fmt.Sprintf("no line for register %s of the product's list", r.Name()))
				}
			}
			// ... and agrees with the library's readers on the same device
			dev2 := NewDevPort(sc.id)
			for a, v := range dev.Regs {
				dev2.Regs[a] = v
			}
			if api, err := connectApi(dev2); err == nil {
				rv, err := api.ReadAllRegisters(context.Background())
				if err == nil {
					want := map[string]string{}
					for _, v := range rv.GetList() {
						want[v.Name()] = v.String()
					}
					for _, l := range regLines {
						if want[l.name] != l.text {
							viol(fmt.Sprintf("line %q differs from the register value %q", l.text, want[l.name]))
						}
					}
				}
			}
		} else {
			if errLine == "" {
				viol("the device stopped answering but no error was reported")
			}
		}
		// the io log of a run that ended with an error: every exchange the device answered before it fell silent is in the log
		// (ping, device id, the answered reads), and each replays to the value the device held
		if sc.ioLog && !full && !sc.noPing {
			answered := sc.silent
			if answered > rl.Len() {
				answered = rl.Len()
			}
			nOK, nGetOK := 0, 0
			for _, ln := range strings.Split(strings.TrimRight(run.ioLog, "\n"), "\n") {
				if ln == "" {
					continue
				}
				tx, rx, ok := parseIoLine(ln)
				if !ok {
					viol("io log line of a failed run does not parse: " + ln)
					continue
				}
				nOK++
				fs := grammarFrames(tx)
				if len(fs) == 1 && fs[0].nibble == 7 && len(fs[0].payload) >= 2 {
					addr := uint16(fs[0].payload[0]) | uint16(fs[0].payload[1])<<8
					if a, has := dev.Regs[addr]; has && strings.Contains(string(rx), string(simGet(addr, a.Flag, a.Payload))) {
						nGetOK++
					}
				}
			}
			if nOK < 2+answered || nGetOK < answered {
				viol(fmt.Sprintf("the device answered ping, id query and %d reads before it fell silent; the io log of that run holds %d lines, %d of them answered reads (a log that ends before the run does cannot be replayed)", answered, nOK, nGetOK))
			}
			s.Extra["io_logs_of_failed_runs_checked"]++
		}
		// the io log replays to the same values
		if sc.ioLog && full {
			table := map[string][]byte{}
			for _, ln := range strings.Split(strings.TrimRight(run.ioLog, "\n"), "\n") {
				tx, rx, ok := parseIoLine(ln)
				if !ok {
					viol("io log line does not parse: " + ln)
					continue
				}
				table[string(tx)] = rx
			}
			lp := &lookupPort{table: table}
			api, err := vedirectapi.NewRegisterApi(lp, vedirect.Config{})
			if err != nil {
				viol("replaying the io log: connect fails: " + err.Error())
			} else {
				rv, err := api.ReadAllRegisters(context.Background())
				if err != nil || lp.miss {
					viol(fmt.Sprintf("replaying the io log fails: err=%v, unknown transmission=%v", err, lp.miss))
				} else {
					got := map[string]string{}
					for _, v := range rv.GetList() {
						got[v.Name()] = v.String()
					}
					for _, l := range regLines {
						if got[l.name] != l.text {
							viol(fmt.Sprintf("replayed io log gives %q, the CLI printed %q", got[l.name], l.text))
						}
					}
					s.Extra["io_logs_replayed"]++
				}
			}
		}
		s.Extra["cli_runs"]++
	}
}
