package main

import (
	"errors"
	"fmt"
	"io"
	"io/fs"
	"os"
	"runtime"
	"syscall"
	"time"
)

// Port is the scripted vedirect.IOPort. Reply k (a list of chunks) is queued by the k-th Write call;
// every Read delivers the oldest queued chunk (io.EOF when none, like a serial port that timed out);
// Flush drops the queue. Write/Read/Flush calls whose index is in WF/RF/FF fail instead.
// The Lean model `Victron.Port` is the same machine.
type Port struct {
	Queue   [][]byte
	Replies [][][]byte
	WF      map[int]bool
	RF      map[int]bool
	FF      map[int]bool
	WS      map[int]bool // Write calls that accept only half of the bytes handed to them (n < len(b), nil error)
	RDelay  map[int]int  // Read calls that take that many milliseconds (a slow device)
	EOFData int          // the first EOFData Reads that drain the queue report io.EOF together with the data (legal for an io.Reader)
	Yield   bool         // Write yields the processor before it looks at its argument (a blocking port)
	NW      int
	NR      int
	NE      int // Reads that delivered nothing (end of data or an error)
	NF      int
	Written [][]byte
	Events  []byte // 'W' per Write call, 'F' per Flush call, 'R' per Read call
	Closed  bool
	Fault   error // what a failing operation reports (nil: errFault)
}

var errFault = errors.New("injected port fault")

// the kinds of error a real port reports: *os.File errors of a closed or timed-out file (a *fs.PathError around a sentinel that is
// no errno), of an unplugged adapter (a *fs.PathError around an errno), plain sentinels, a private error type
type portGone struct{ code int }

func (e portGone) Error() string { return "port gone" }

var faultErrs = []error{
	errFault,
	&fs.PathError{Op: "read", Path: "/dev/ttyUSB0", Err: os.ErrClosed},
	&fs.PathError{Op: "write", Path: "/dev/ttyUSB0", Err: syscall.EIO},
	&fs.PathError{Op: "read", Path: "/dev/ttyUSB0", Err: os.ErrDeadlineExceeded},
	io.ErrUnexpectedEOF,
	io.ErrClosedPipe,
	syscall.ENODEV,
	portGone{5},
	&portGone{6},
	fmt.Errorf("wrapped: %w", &fs.PathError{Op: "read", Path: "x", Err: errors.New("not an errno")}),
}

func idxSet(l []int) map[int]bool {
	m := map[int]bool{}
	for _, i := range l {
		m[i] = true
	}
	return m
}

func NewPort(init [][]byte, replies [][][]byte, wf, rf, ff []int) *Port {
	p := &Port{Replies: replies, WF: idxSet(wf), RF: idxSet(rf), FF: idxSet(ff)}
	for _, c := range init {
		if len(c) > 0 {
			p.Queue = append(p.Queue, append([]byte(nil), c...))
		}
	}
	return p
}

func (p *Port) fault() error {
	if p.Fault != nil {
		return p.Fault
	}
	return errFault
}

func (p *Port) Write(b []byte) (int, error) {
	if p.Yield {
		runtime.Gosched()
	}
	k := p.NW
	p.NW++
	if p.NW > opBudget {
		panic(budgetExceeded{})
	}
	p.Events = append(p.Events, 'W')
	if p.WF[k] {
		return 0, p.fault()
	}
	p.Written = append(p.Written, append([]byte(nil), b...))
	if k < len(p.Replies) {
		for _, c := range p.Replies[k] {
			if len(c) > 0 {
				p.Queue = append(p.Queue, append([]byte(nil), c...))
			}
		}
	}
	if p.WS[k] {
		return len(b) / 2, nil
	}
	return len(b), nil
}

// budget: a call that performs this many port operations is looping (C06: bounded reads / writes)
const opBudget = 20000

type budgetExceeded struct{}

func (p *Port) Read(b []byte) (int, error) {
	k := p.NR
	p.NR++
	if p.NR > opBudget {
		panic(budgetExceeded{})
	}
	p.Events = append(p.Events, 'R')
	if d := p.RDelay[k]; d > 0 {
		time.Sleep(time.Duration(d) * time.Millisecond)
	}
	if p.RF[k] {
		p.NE++
		return 0, p.fault()
	}
	if len(p.Queue) == 0 {
		p.NE++
		return 0, io.EOF
	}
	c := p.Queue[0]
	n := copy(b, c)
	if n < len(c) {
		p.Queue[0] = c[n:]
	} else {
		p.Queue = p.Queue[1:]
	}
	if len(p.Queue) == 0 && p.EOFData > 0 {
		p.EOFData--
		return n, io.EOF
	}
	return n, nil
}

func (p *Port) Flush() error {
	k := p.NF
	p.NF++
	p.Events = append(p.Events, 'F')
	if p.FF[k] {
		return p.fault()
	}
	p.Queue = nil
	return nil
}

func (p *Port) Close() error {
	p.Closed = true
	return nil
}
