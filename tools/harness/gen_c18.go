package main

import (
	"bytes"
	"fmt"
	"io"
	"os"
	"strings"
	"sync"

	"github.com/koestler/go-victron/vedirect"
	"github.com/koestler/go-victron/vedirectapi"
)

// lookupPort: the replay device of C18 — a written tx is answered with the logged rx.
type lookupPort struct {
	table map[string][]byte
	buf   bytes.Buffer
	miss  bool
}

func (l *lookupPort) Write(b []byte) (int, error) {
	if rx, ok := l.table[string(b)]; ok {
		l.buf.Write(rx)
	} else {
		l.miss = true
	}
	return len(b), nil
}
func (l *lookupPort) Read(b []byte) (int, error) { return l.buf.Read(b) }
func (l *lookupPort) Flush() error               { l.buf.Truncate(0); return nil }
func (l *lookupPort) Close() error               { return nil }

var _ io.ReadWriteCloser = (*lookupPort)(nil)

// oracleReplay: C18 — for every typed call that completed in a single exchange, replaying the logged
// (tx, rx) pair through a lookup port reproduces the call's result.
func oracleReplay(sc *Scenario, res *RunResult) (checked int, v []string) {
	if sc.Cfg&2 == 0 {
		return
	}
	li := 0
	for i, c := range sc.Calls {
		typed := c.Kind == "ping" || c.Kind == "devid" || c.Kind == "uint" || c.Kind == "int" || c.Kind == "str"
		if !typed {
			continue
		}
		if li >= len(res.Lines) {
			v = append(v, fmt.Sprintf("typed call %d (%s) emitted no io log line", i, callName(c)))
			return
		}
		ln := res.Lines[li]
		li++
		if res.PerCallWrites[i] != 1 || len(ln[0]) == 0 {
			continue
		}
		// raw calls made earlier leave their bytes in the log buffers: only histories of typed calls are replayed
		clean := true
		for _, pc := range sc.Calls[:i] {
			if pc.Kind == "raw" || pc.Kind == "cmd" {
				clean = false
			}
		}
		if !clean {
			continue
		}
		lp := &lookupPort{table: map[string][]byte{string(ln[0]): ln[1]}}
		vd, _ := vedirect.NewVedirect(lp, vedirect.Config{})
		out := doCall(vd, c, &RunResult{})
		checked++
		if out != res.Results[i] || lp.miss {
			v = append(v, fmt.Sprintf("call %d (%s): logged pair %q: %q replays to %s, the call returned %s", i, callName(c), ln[0], ln[1], out, res.Results[i]))
		}
	}
	if li != len(res.Lines) {
		v = append(v, fmt.Sprintf("%d io log lines for %d typed calls", len(res.Lines), li))
	}
	return
}

// traffic signature that must not depend on the logger configuration
func trafficSig(out string) string {
	if i := strings.LastIndex(out, " L="); i >= 0 {
		return out[:i]
	}
	return out
}

// file logger: previous content + lines -> content after Close
func runFileLogger(prev []byte, lines []string) (string, error) {
	f, err := os.CreateTemp("", "verif-filelog-*")
	if err != nil {
		return "", err
	}
	path := f.Name()
	defer os.Remove(path)
	f.Write(prev)
	f.Close()
	fl, err := vedirectapi.NewFileLogger(path)
	if err != nil {
		return "", err
	}
	for _, l := range lines {
		fl.Println(l)
	}
	if err := fl.Close(); err != nil {
		return "", err
	}
	b, err := os.ReadFile(path)
	return HEX(b), err
}

// twoFileLoggers: two loggers on one file (a second tool, or a second device, logging to the same path) and a third
// party appending meanwhile: each logger, once closed, has appended its lines after what the file held at that moment
func twoFileLoggers(prev []byte, a1, b, a2 []string, other []byte) (got, want string, err error) {
	f, err := os.CreateTemp("", "verif-filelog2-*")
	if err != nil {
		return "", "", err
	}
	path := f.Name()
	defer os.Remove(path)
	f.Write(prev)
	f.Close()
	la, err := vedirectapi.NewFileLogger(path)
	if err != nil {
		return "", "", err
	}
	for _, l := range a1 {
		la.Println(l)
	}
	lb, err := vedirectapi.NewFileLogger(path)
	if err != nil {
		return "", "", err
	}
	for _, l := range b {
		lb.Println(l)
	}
	if err := lb.Close(); err != nil {
		return "", "", err
	}
	if len(other) > 0 {
		o, err := os.OpenFile(path, os.O_APPEND|os.O_WRONLY, 0)
		if err != nil {
			return "", "", err
		}
		o.Write(other)
		o.Close()
	}
	for _, l := range a2 {
		la.Println(l)
	}
	if err := la.Close(); err != nil {
		return "", "", err
	}
	w := append([]byte(nil), prev...)
	for _, l := range b {
		w = append(append(w, l...), '\n')
	}
	w = append(w, other...)
	for _, l := range append(append([]string(nil), a1...), a2...) {
		w = append(append(w, l...), '\n')
	}
	bs, err := os.ReadFile(path)
	return HEX(bs), HEX(w), err
}

// loggerAcrossConnections: ONE file logger (created by the caller, closed by the caller at the very end) serves as I/O log of
// several consecutive connections to a device, each opened with NewRegisterApi and closed with api.Close(): once the
// logger is closed the file holds the previous content and then every line of every connection, in order
func loggerAcrossConnections(s *Sink, rng *Rng) {
	for round := 0; round < 4; round++ {
		f, err := os.CreateTemp("", "verif-filelog3-*")
		if err != nil {
			return
		}
		path := f.Name()
		prev := []byte("previous content\n")
		if round%2 == 1 {
			prev = nil
		}
		f.Write(prev)
		f.Close()
		fl, err := vedirectapi.NewFileLogger(path)
		if err != nil {
			os.Remove(path)
			return
		}
		nconn := 2 + round
		wantLines := 0
		for c := 0; c < nconn; c++ {
			dev := NewDevPort(0xA231)
			dev.Regs[0xEDF0] = DevAnswer{0, []byte{byte(c), 0}}
			cfg := vedirect.Config{IoLogger: fl}
			if round == 3 {
				cfg.DebugLogger = fl // one logger for both purposes
			}
			api, err := vedirectapi.NewRegisterApi(dev, cfg)
			if err != nil {
				s.Violate(fmt.Sprintf("FL one-logger-for-%d-connections", nconn), "connect failed", fmt.Sprintf("connection %d with the shared file logger failed: %v", c, err))
				break
			}
			v, err := api.Vd.GetUint(0xEDF0)
			if err != nil || v != uint64(c) {
				s.Violate(fmt.Sprintf("FL one-logger-for-%d-connections", nconn), fmt.Sprint(v, err), "a read with the shared file logger gave a wrong result")
			}
			wantLines += 3 // ping, device id, the read
			api.Close()
		}
		fl.Println("// trailer written by the caller")
		cerr := fl.Close()
		b, _ := os.ReadFile(path)
		os.Remove(path)
		s.Extra["file_logger_across_connections"]++
		if round == 3 {
			continue // with the debug log in the same file only the presence of the trailer is checked below
		}
		got := string(b)
		op := fmt.Sprintf("FL %s - mut:one-logger-for-%d-connections", HEX(prev), nconn)
		if cerr != nil || !strings.HasPrefix(got, string(prev)) {
			s.Violate(op, HEX(b[:min(len(b), 80)]), fmt.Sprintf("file logger shared by %d connections: Close()=%v, the file does not start with the previous content", nconn, cerr))
			continue
		}
		lines := strings.Split(strings.TrimSuffix(got[len(prev):], "\n"), "\n")
		if len(lines) != wantLines+1 || lines[len(lines)-1] != "// trailer written by the caller" {
			s.Violate(op, fmt.Sprintf("%d lines", len(lines)), fmt.Sprintf("file logger shared by %d connections (each closed with api.Close()): the file holds %d lines after the previous content, want %d I/O lines (ping, id, one read per connection) and the caller's trailer; last line %q", nconn, len(lines), wantLines, lines[len(lines)-1]))
		}
	}
}

// ---------- logger implementations ----------

// valLogger: a logger implemented on a plain struct with a value receiver (`type stdoutLogger struct{...}`), funcLogger: a
// function adapter - both as legal as a pointer type
type valLogger struct{ c *capLogger }

func (l valLogger) Println(v ...any) { l.c.Println(v...) }

type funcLogger func(v ...any)

func (f funcLogger) Println(v ...any) { f(v...) }

type strLogger string // a named string type: not a pointer, not nillable

var strLoggerSink = map[strLogger]*capLogger{}

func (l strLogger) Println(v ...any) { strLoggerSink[l].Println(v...) }

func loggerOfKind(kind int, c *capLogger) vedirect.Logger {
	switch kind % 4 {
	case 1:
		return valLogger{c}
	case 2:
		return funcLogger(c.Println)
	case 3:
		name := strLogger(fmt.Sprintf("logger-%p", c))
		strLoggerSink[name] = c
		return name
	}
	return c
}

// parallelIoLogs: several drivers, each with its own port and its own I/O logger, polled from their own goroutines (one
// driver per device is how the library is used): every line a driver's logger receives carries the bytes written and
// consumed by THAT driver's call - nothing of a neighbour's traffic
func parallelIoLogs(s *Sink, rng *Rng) {
	const drivers, calls = 4, 300
	type drv struct {
		port *Port
		log  *capLogger
		vd   *vedirect.Vedirect
		addr uint16
		mark byte
	}
	var ds []*drv
	for d := 0; d < drivers; d++ {
		addr := uint16(0x1000 + d)
		mark := byte('a' + d)
		var replies [][][]byte
		for c := 0; c < calls; c++ {
			val := make([]byte, 1500)
			for i := range val {
				val[i] = mark
			}
			val[0] = byte('0' + c%10)
			replies = append(replies, one(simGet(addr, 0, val)))
		}
		p := NewPort(nil, replies, nil, nil, nil)
		l := &capLogger{}
		vd, err := vedirect.NewVedirect(p, vedirect.Config{IoLogger: l})
		if err != nil {
			return
		}
		ds = append(ds, &drv{p, l, vd, addr, mark})
	}
	var wg sync.WaitGroup
	panicked := make([]bool, drivers)
	for i, d := range ds {
		wg.Add(1)
		go func(i int, d *drv) {
			defer wg.Done()
			defer func() {
				if r := recover(); r != nil {
					panicked[i] = true
				}
			}()
			for c := 0; c < calls; c++ {
				d.vd.GetString(d.addr)
			}
		}(i, d)
	}
	wg.Wait()
	for i, d := range ds {
		op := fmt.Sprintf("parallel io logs: driver %d of %d (register 0x%04X, %d calls)", i, drivers, d.addr, calls)
		if panicked[i] {
			s.Violate(op, "PANIC", "a typed call panicked while other drivers were logging")
			continue
		}
		if len(d.log.lines) != calls {
			s.Violate(op, fmt.Sprint(len(d.log.lines)), fmt.Sprintf("%d io log lines for %d typed calls", len(d.log.lines), calls))
			continue
		}
		for c, ln := range d.log.lines {
			tx, rx, ok := parseIoLine(ln)
			want := simGet(d.addr, 0, nil)
			_ = want
			foreign := false
			for o := 0; o < drivers; o++ {
				if byte('a'+o) != d.mark && bytes.Contains(rx, bytes.Repeat([]byte(fmt.Sprintf("%02X", 'a'+o)), 8)) {
					foreign = true
				}
			}
			if !ok || c >= len(d.port.Written) || string(tx) != string(d.port.Written[c]) || foreign ||
				bytes.Count(rx, []byte(fmt.Sprintf("%02X", d.mark))) < 1400 {
				s.Violate(op, ln[:min(len(ln), 160)], fmt.Sprintf("line %d of this driver's I/O log does not carry the bytes written / consumed by this driver's call %d (its frames carry only '%c' bytes): %s", c, c, d.mark, ln[:min(len(ln), 120)]))
				break
			}
		}
	}
	s.Extra["parallel_io_log_lines_checked"] += drivers * calls
}
