package main

import (
	"encoding/hex"
	"errors"
	"fmt"
	"github.com/koestler/go-victron/vedirectapi"
	"math"
	"sort"
	"strconv"
	"strings"

	"github.com/koestler/go-victron/veconst"
	"github.com/koestler/go-victron/vedirect"
	"github.com/koestler/go-victron/veproduct"
	"github.com/koestler/go-victron/veregister"
)

func hexS(s string) string { return strings.ToUpper(hex.EncodeToString([]byte(s))) }
func b01(b bool) string {
	if b {
		return "1"
	}
	return "0"
}

type enumF struct {
	name  string
	f     veconst.EnumFactory
	typed func(b uint8) (int, string, error)
	cast  func(b uint8) (int, string) // the constant written down directly (a cast of a parsed byte), not obtained from the factory
}

func tw[T interface {
	Idx() int
	String() string
}](f func(uint8) (T, error)) func(uint8) (int, string, error) {
	return func(b uint8) (int, string, error) {
		v, err := f(b)
		if err != nil {
			return 0, "", err
		}
		return v.Idx(), v.String(), nil
	}
}

func cs[T interface {
	~uint8
	Idx() int
	String() string
}]() func(uint8) (int, string) {
	return func(b uint8) (int, string) { return T(b).Idx(), T(b).String() }
}

func enumFs() []enumF {
	return []enumF{
		{"SolarChargerTrackerMode", veconst.SolarChargerTrackerModeFactory, tw(veconst.SolarChargerTrackerModeFactory.New), cs[veconst.SolarChargerTrackerMode]()},
		{"BmvAuxMode", veconst.BmvAuxModeFactory, tw(veconst.BmvAuxModeFactory.New), cs[veconst.BmvAuxMode]()},
		{"BooleanDisabledEnabled", veconst.BooleanDisabledEnabledFactory, tw(veconst.BooleanDisabledEnabledFactory.New), cs[veconst.BooleanDisabledEnabled]()},
		{"BooleanFalseTrue", veconst.BooleanFalseTrueFactory, tw(veconst.BooleanFalseTrueFactory.New), cs[veconst.BooleanFalseTrue]()},
		{"BooleanInactiveActive", veconst.BooleanInactiveActiveFactory, tw(veconst.BooleanInactiveActiveFactory.New), cs[veconst.BooleanInactiveActive]()},
		{"BooleanNoYes", veconst.BooleanNoYesFactory, tw(veconst.BooleanNoYesFactory.New), cs[veconst.BooleanNoYes]()},
		{"BooleanOffOn", veconst.BooleanOffOnFactory, tw(veconst.BooleanOffOnFactory.New), cs[veconst.BooleanOffOn]()},
		{"DcDcConverterError", veconst.DcDcConverterErrorFactory, tw(veconst.DcDcConverterErrorFactory.New), cs[veconst.DcDcConverterError]()},
		{"DcDcConverterState", veconst.DcDcConverterStateFactory, tw(veconst.DcDcConverterStateFactory.New), cs[veconst.DcDcConverterState]()},
		{"DcEnergyMeterAuxMode", veconst.DcEnergyMeterAuxModeFactory, tw(veconst.DcEnergyMeterAuxModeFactory.New), cs[veconst.DcEnergyMeterAuxMode]()},
		{"InverterFrequency", veconst.InverterFrequencyFactory, tw(veconst.InverterFrequencyFactory.New), cs[veconst.InverterFrequency]()},
		{"InverterMode", veconst.InverterModeFactory, tw(veconst.InverterModeFactory.New), cs[veconst.InverterMode]()},
		{"InverterState", veconst.InverterStateFactory, tw(veconst.InverterStateFactory.New), cs[veconst.InverterState]()},
		{"MultiRsActiveInput", veconst.MultiRsActiveInputFactory, tw(veconst.MultiRsActiveInputFactory.New), cs[veconst.MultiRsActiveInput]()},
		{"SolarChargerError", veconst.SolarChargerErrorFactory, tw(veconst.SolarChargerErrorFactory.New), cs[veconst.SolarChargerError]()},
		{"SolarChargerBatteryType", veconst.SolarChargerBatteryTypeFactory, tw(veconst.SolarChargerBatteryTypeFactory.New), cs[veconst.SolarChargerBatteryType]()},
		{"SolarChargerBatteryVoltage", veconst.SolarChargerBatteryVoltageFactory, tw(veconst.SolarChargerBatteryVoltageFactory.New), cs[veconst.SolarChargerBatteryVoltage]()},
		{"SolarChargerDeviceMode", veconst.SolarChargerDeviceModeFactory, tw(veconst.SolarChargerDeviceModeFactory.New), cs[veconst.SolarChargerDeviceMode]()},
		{"SolarChargerState", veconst.SolarChargerStateFactory, tw(veconst.SolarChargerStateFactory.New), cs[veconst.SolarChargerState]()},
		{"VeBusAlarm", veconst.VeBusAlarmFactory, tw(veconst.VeBusAlarmFactory.New), cs[veconst.VeBusAlarm]()},
	}
}

type flF struct {
	name string
	f    veconst.FieldListFactory
}

func flFs() []flF {
	return []flF{{"InverterOffReasons", veconst.InverterOffReasonsFactory}, {"SolarOffReasons", veconst.SolarOffReasonsFactory}, {"InverterWarningReasons", veconst.InverterWarningReasonFactory}}
}

func factoryName(f any) string {
	s := fmt.Sprintf("%T", f)
	return strings.TrimSuffix(strings.TrimPrefix(s, "veconst."), "FactoryType")
}

func renderReg(kind int, r veregister.Register, signed bool, factor int, offset float64, unit, factory string) string {
	return strings.Join([]string{strconv.Itoa(kind), hexS(r.Category()), hexS(r.Name()), hexS(r.Description()), strconv.Itoa(r.Sort()),
		strconv.Itoa(int(r.Address())), b01(r.Static()), b01(r.Writable()), b01(signed), strconv.Itoa(factor),
		strconv.FormatFloat(offset, 'g', -1, 64), hexS(unit), factory}, ";")
}

func renderList(rl veregister.RegisterList) string {
	var n, t, e, f []string
	for _, r := range rl.NumberRegisters {
		n = append(n, renderReg(1, r, r.Signed(), r.Factor(), r.Offset(), r.Unit(), ""))
	}
	for _, r := range rl.TextRegisters {
		t = append(t, renderReg(2, r, false, 0, 0, "", ""))
	}
	for _, r := range rl.EnumRegisters {
		fn := "nil"
		if r.Factory() != nil {
			fn = factoryName(r.Factory())
		}
		e = append(e, renderReg(3, r, false, 0, 0, "", fn))
	}
	for _, r := range rl.FieldListRegisters {
		fn := "nil"
		if r.Factory() != nil {
			fn = factoryName(r.Factory())
		}
		f = append(f, renderReg(4, r, false, 0, 0, "", fn))
	}
	return strings.Join([]string{strings.Join(n, ","), strings.Join(t, ","), strings.Join(e, ","), strings.Join(f, ",")}, "|")
}

// ---------- C13 ----------

func rangeCategory(id int) int {
	hi := id >> 8
	switch {
	case hi == 0x02 || (id >= 0xA380 && id <= 0xA38F):
		return 1
	case hi == 0x03 || hi == 0xA0 || hi == 0xA1:
		return 2
	case hi == 0xA2 || (id >= 0xA340 && id <= 0xA34F):
		return 3
	}
	return 0
}

// rangeTypes: the product families (veproduct.Type values) of each id block, from the id assignment the table follows:
// 0x02xx BMV-70x; 0xA38x the smart monitors (BMV Smart, SmartShunt); 0x03xx BlueSolar; 0xA0xx BlueSolar/SmartSolar MPPT;
// 0xA1xx their VE.Can variants; 0xA2xx Phoenix Inverter (Smart); 0xA34x Phoenix Smart IP43 Charger
func rangeTypes(id int) []int {
	hi := id >> 8
	switch {
	case hi == 0x02:
		return []int{1}
	case id >= 0xA380 && id <= 0xA38F:
		return []int{2, 10}
	case hi == 0x03:
		return []int{3}
	case hi == 0xA0:
		return []int{3, 4}
	case hi == 0xA1:
		return []int{5, 6}
	case hi == 0xA2:
		return []int{7, 8}
	case id >= 0xA340 && id <= 0xA34F:
		return []int{9}
	}
	return nil
}

func typeFitsRange(id int, t veproduct.Type) bool {
	for _, x := range rangeTypes(id) {
		if x == int(t) {
			return true
		}
	}
	return false
}

func designation(model string) (int, int, bool) {
	i := 0
	for i < len(model) && model[i] >= '0' && model[i] <= '9' {
		i++
	}
	if i == 0 || i >= len(model) || (model[i] != '|' && model[i] != '/') {
		return 0, 0, false
	}
	j := i + 1
	for j < len(model) && model[j] >= '0' && model[j] <= '9' {
		j++
	}
	if j == i+1 {
		return 0, 0, false
	}
	v, _ := strconv.Atoi(model[:i])
	c, _ := strconv.Atoi(model[i+1 : j])
	return v, c, true
}

func phoenixModel(id int) (string, bool) {
	x, y := (id>>4)&0xF, id&0xF
	v := map[int]string{1: "12V", 2: "24V", 4: "48V"}[y&7]
	va := map[int]string{3: "250VA", 4: "375VA", 5: "500VA", 6: "800VA", 7: "1200VA", 8: "1600VA", 9: "2000VA", 10: "3000VA", 11: "5000VA", 14: "800VA", 15: "1200VA"}[x]
	if v == "" || va == "" {
		return "", false
	}
	ac := "230V"
	if y&8 != 0 {
		ac = "120V"
	}
	switch {
	case x == 11:
		return v + " " + va + " " + ac + "ac 64k", true
	case x >= 14:
		return v + " " + va + " " + ac + "ac 64k HS", true
	}
	return v + " " + va + " " + ac, true
}

func suiteC13(s *Sink) {
	suiteC13pass(s, "")
	// the same coherence after a caller has edited a map it obtained earlier (histories of lookups)
	m := veproduct.GetStringMap()
	delete(m, 0x204)
	m[0x1234] = "inserted"
	m[0xA389] = "my shunt"
	suiteC13pass(s, " mut:stringmap-edited")
	// the table is read-only data: readers on several goroutines see what a single reader sees
	ids := []int{0x203, 0x204, 0x300, 0xA042, 0xA053, 0xA056, 0xA05F, 0xA102, 0xA231, 0xA2FA, 0xA340, 0xA381, 0xA389, 0xA38B, 0x1234, 0xFFFF}
	view := func(i int) string {
		p := veproduct.Product(ids[i])
		return fmt.Sprintf("%v|%s|%d|%s|%d|%d", p.Exists(), p.Model(), p.Type(), p.String(), p.MaxPanelVoltage(), p.MaxPanelCurrent())
	}
	for _, b := range concurrently(8, 3000, len(ids), view) {
		s.Violate("PR concurrent", b, "product lookups from several goroutines disagree with the same lookups made alone: "+b)
	}
}

func suiteC13pass(s *Sink, mut string) {
	sm := veproduct.GetStringMap()
	for id := 0; id < 65536; id++ {
		if mut != "" && !veproduct.Product(id).Exists() && id%257 != 0 && id != 0x1234 {
			continue
		}
		p := veproduct.Product(id)
		mv, inMap := sm[p]
		op := fmt.Sprintf("PR %d%s", id, mut)
		out := fmt.Sprintf("%s|%s|%d|%s|%d|%d|%s|%s", b01(p.Exists()), hexS(p.Model()), int(p.Type()), hexS(p.String()), p.MaxPanelVoltage(), p.MaxPanelCurrent(), b01(inMap), hexS(mv))
		tag := "unknown-id"
		if p.Exists() {
			tag = "known-id"
		}
		s.Line(tag, op, out)
		// the property, stated directly
		t := p.Type()
		viol := func(w string) { s.Violate(op, out, fmt.Sprintf("product 0x%04X: %s", id, w)) }
		if p.Exists() != (p.Model() != "") || p.Exists() != (t != veproduct.TypeUnknown) || p.Exists() != inMap {
			viol("existence, non-empty model, known type and presence in the string map disagree")
		}
		if p.Exists() {
			if p.String() != t.String()+" "+p.Model() || mv != p.String() || t.String() == "" {
				viol(fmt.Sprintf("display string %q is not type name + space + model, or differs from the map's %q", p.String(), mv))
			}
			cats := 0
			cat := 0
			if t.IsBMV() {
				cats++
				cat = 1
			}
			if t.IsSolar() {
				cats++
				cat = 2
			}
			if t.IsInverter() {
				cats++
				cat = 3
			}
			if !typeFitsRange(id, p.Type()) {
				viol(fmt.Sprintf("type %d (%s) is not one of the product families %v of its id block", p.Type(), p.Type().String(), rangeTypes(id)))
			}
			if cats != 1 || cat != rangeCategory(id) {
				viol(fmt.Sprintf("is in %d categories (BMV/solar/inverter), category %d, id range demands %d", cats, cat, rangeCategory(id)))
			}
			if t.IsSolar() {
				v, c, ok := designation(p.Model())
				if !ok || v != p.MaxPanelVoltage() || c != p.MaxPanelCurrent() {
					viol(fmt.Sprintf("panel numbers %d/%d differ from the model designation %q", p.MaxPanelVoltage(), p.MaxPanelCurrent(), p.Model()))
				}
			} else if p.MaxPanelVoltage() != -1 || p.MaxPanelCurrent() != -1 {
				viol("non-solar product with panel numbers other than -1")
			}
			if id>>8 == 0xA2 {
				if m, ok := phoenixModel(id); !ok || m != p.Model() {
					viol(fmt.Sprintf("Phoenix model %q disagrees with the digits of the id (%q)", p.Model(), m))
				}
			}
		} else if p.String() != "" || p.MaxPanelVoltage() != -1 || p.MaxPanelCurrent() != -1 {
			viol("unknown id with a display string or panel numbers")
		}
	}
	if mut != "" {
		return
	}
	for t := 0; t < 256; t++ {
		ty := veproduct.Type(t)
		op := fmt.Sprintf("TY %d", t)
		out := fmt.Sprintf("%s|%s|%s|%s", hexS(ty.String()), b01(ty.IsBMV()), b01(ty.IsSolar()), b01(ty.IsInverter()))
		s.Line("type", op, out)
		n := 0
		for _, b := range []bool{ty.IsBMV(), ty.IsSolar(), ty.IsInverter()} {
			if b {
				n++
			}
		}
		named := ty.String() != ""
		if named != (t >= 1 && t <= 10) || (named && n != 1) || (!named && n != 0) {
			s.Violate(op, out, fmt.Sprintf("type value %d: name %q, member of %d categories", t, ty.String(), n))
		}
	}
	for c := 0; c < 256; c++ {
		s.Line("response", fmt.Sprintf("RS %d", c), strconv.Itoa(int(vedirect.ResponseForCommand(vedirect.VeCommand(c)))))
	}
}

// ---------- C14 ----------

func enumOut(e veconst.Enum, err error) string {
	if err != nil {
		return "err:" + errKind(err)
	}
	return fmt.Sprintf("ok:%d:%s", e.Idx(), hexS(e.String()))
}

func suiteC14(rng *Rng, thorough bool, s *Sink) {
	extremes := fitInts(-1<<63, -1<<63+1, 1<<63-1, 1<<63-2, -1<<31, -1<<31-1, -1<<31+1, 1<<31, 1<<31-1, 1<<31+1, 1<<32, 1<<32+1, 1<<32+255,
		1<<16, 1<<16+1, 1<<16+255, -1<<16, 70001, -70001, 1<<24, 1<<24+9, 1<<40+3)
	for _, e := range enumFs() {
		m := e.f.IntToStringMap()
		// index-to-name map
		ks := make([]int, 0, len(m))
		for k := range m {
			ks = append(ks, k)
		}
		sort.Ints(ks)
		var ents []string
		for _, k := range ks {
			ents = append(ents, fmt.Sprintf("%d=%s", k, hexS(m[k])))
		}
		s.Line("map", "EM "+e.name, strings.Join(ents, ","))
		check := func(v int) (string, bool) {
			en, err := e.f.NewEnum(v)
			name, isKey := m[v]
			op := fmt.Sprintf("EN %s %d", e.name, v)
			out := enumOut(en, err)
			if isKey {
				if err != nil || en == nil || en.Idx() != v || en.String() != name || name == "" {
					s.Violate(op, out, fmt.Sprintf("%s: %d is a key of the index-to-name map (%q) but construction gave %s", e.name, v, name, out))
				}
			} else if err == nil || !errors.Is(err, veconst.ErrInvalidEnumIdx) {
				s.Violate(op, out, fmt.Sprintf("%s: %d is NOT a key of the index-to-name map but construction gave %s", e.name, v, out))
			}
			return out, err == nil
		}
		// all integers in [-70000, 70000], summarised as the accepted set
		lo, hi := -70000, 70000
		var acc []string
		for v := lo; v <= hi; v++ {
			out, ok := check(v)
			if ok {
				parts := strings.SplitN(out, ":", 2)
				acc = append(acc, fmt.Sprintf("%d:%s", v, parts[1]))
			}
		}
		s.Line("range", fmt.Sprintf("ENR %s %d %d", e.name, lo, hi), strings.Join(acc, ","))
		s.Extra["integers_checked"] += hi - lo + 1
		for _, v := range extremes {
			out, _ := check(v)
			s.Line("extreme", fmt.Sprintf("EN %s %d", e.name, v), out)
		}
		n := 50
		if thorough {
			n = 5000
		}
		for i := 0; i < n; i++ {
			v := int(int64(rng.U64()) >> uint(rng.Intn(56)))
			out, _ := check(v)
			s.Line("random", fmt.Sprintf("EN %s %d", e.name, v), out)
		}
		// typed constructor, all 256 bytes
		var typed []string
		for b := 0; b < 256; b++ {
			idx, name, err := e.typed(uint8(b))
			mn, isKey := m[b]
			if (err == nil) != isKey || (err == nil && (idx != b || name != mn)) || (err != nil && !errors.Is(err, veconst.ErrInvalidEnumIdx)) {
				s.Violate("ET "+e.name, "", fmt.Sprintf("%s.New(%d): key=%v gave idx=%d name=%q err=%v", e.name, b, isKey, idx, name, err))
			}
			if err == nil {
				typed = append(typed, fmt.Sprintf("%d:%d:%s", b, idx, hexS(name)))
			}
		}
		s.Line("typed", "ET "+e.name, strings.Join(typed, ","))
		// the map is what the caller sees: after a caller has edited the map it was handed (a key deleted, a name
		// changed, a key added) construction must still agree with the map the factory hands out now
		if len(ks) > 0 {
			edited := e.f.IntToStringMap()
			delete(edited, ks[len(ks)-1])
			edited[ks[0]] = "edited by a caller"
			for v := 0; v < 300; v++ {
				if _, isKey := m[v]; !isKey {
					edited[v] = "added by a caller"
					break
				}
			}
			m2 := e.f.IntToStringMap()
			var ents2 []string
			ks2 := make([]int, 0, len(m2))
			for k := range m2 {
				ks2 = append(ks2, k)
			}
			sort.Ints(ks2)
			for _, k := range ks2 {
				ents2 = append(ents2, fmt.Sprintf("%d=%s", k, hexS(m2[k])))
			}
			s.Line("map-after-edit", "EM "+e.name+" mut:a-caller-edited-an-earlier-result", strings.Join(ents2, ","))
			for v := -2; v <= 257; v++ {
				en, err := e.f.NewEnum(v)
				name, isKey := m2[v]
				op := fmt.Sprintf("EN %s %d mut:a-caller-edited-an-earlier-map", e.name, v)
				out := enumOut(en, err)
				if isKey != (err == nil) || (err == nil && en.String() != name) {
					s.Violate(op, out, fmt.Sprintf("%s: after a caller edited an earlier IntToStringMap() result, the map says key=%v name=%q for %d but construction gives %s", e.name, isKey, name, v, out))
				}
			}
		}
	}
	enumInterleaved(s)
}

// enumInterleaved: the same index asked of one enumeration after the other (a process that talks to a charger, an inverter
// and a battery monitor decodes their state registers in turn): each enumeration answers from its own table
func enumInterleaved(s *Sink) {
	es := enumFs()
	maps := make([]map[int]string, len(es))
	for i, e := range es {
		maps[i] = e.f.IntToStringMap()
	}
	for round := 0; round < 2; round++ {
		for v := -3; v <= 260; v++ {
			for i, e := range es {
				if round == 1 {
					e, i = es[len(es)-1-i], len(es)-1-i
					en, err := e.f.NewEnum(v)
					checkInterleaved(s, e, maps[i], v, en, err)
					continue
				}
				en, err := e.f.NewEnum(v)
				checkInterleaved(s, e, maps[i], v, en, err)
			}
		}
	}
	// typed constructors and direct constants interleaved likewise
	for b := 0; b < 256; b++ {
		for i, e := range es {
			idx, name, err := e.typed(uint8(b))
			mn, isKey := maps[i][b]
			if (err == nil) != isKey || (err == nil && (idx != b || name != mn)) {
				s.Violate(fmt.Sprintf("ET %s %d mut:asked-in-turn-with-the-other-enumerations", e.name, b), name, fmt.Sprintf("%s.New(%d) asked in turn with the other enumerations: key=%v (%q) but got idx=%d name=%q err=%v", e.name, b, isKey, mn, idx, name, err))
			}
			if _, cname := e.cast(uint8(b)); isKey && cname != mn {
				s.Violate(fmt.Sprintf("EC %s %d mut:asked-in-turn-with-the-other-enumerations", e.name, b), cname, fmt.Sprintf("%s(%d).String() = %q, the enumeration's map says %q", e.name, b, cname, mn))
			}
		}
	}
}

func checkInterleaved(s *Sink, e enumF, m map[int]string, v int, en veconst.Enum, err error) {
	op := fmt.Sprintf("EN %s %d mut:asked-in-turn-with-the-other-enumerations", e.name, v)
	out := enumOut(en, err)
	s.Line("interleaved", op, out)
	name, isKey := m[v]
	if isKey {
		if err != nil || en == nil || en.Idx() != v || en.String() != name {
			s.Violate(op, out, fmt.Sprintf("%s: %d is a key of the index-to-name map (%q) but, asked right after the same index of another enumeration, construction gave %s", e.name, v, name, out))
		}
	} else if err == nil || !errors.Is(err, veconst.ErrInvalidEnumIdx) {
		s.Violate(op, out, fmt.Sprintf("%s: %d is NOT a key of the index-to-name map but, asked right after the same index of another enumeration, construction gave %s", e.name, v, out))
	}
}

// ---------- C15 ----------

// fieldListRegisters: one real field-list register per factory (needed to reach FieldListValue.CommaString
// through the public API: StreamRegisterList hands the handler a FieldListValue)
func fieldListRegisters() map[string]veregister.FieldListRegisterStruct {
	out := map[string]veregister.FieldListRegisterStruct{}
	for _, ap := range []func(*veregister.RegisterList){veregister.AppendBmv, veregister.AppendSolar, veregister.AppendInverter} {
		rl := veregister.NewRegisterList()
		ap(&rl)
		for _, r := range rl.FieldListRegisters {
			if r.Factory() != nil {
				n := factoryName(r.Factory())
				if _, ok := out[n]; !ok {
					out[n] = r
				}
			}
		}
	}
	return out
}

func suiteC15(rng *Rng, thorough bool, s *Sink) {
	regs := fieldListRegisters()
	for _, fl := range flFs() {
		m := fl.f.IntToStringMap()
		ks := make([]int, 0, len(m))
		for k := range m {
			ks = append(ks, k)
		}
		sort.Ints(ks)
		var ents []string
		for _, k := range ks {
			ents = append(ents, fmt.Sprintf("%d=%s", k, hexS(m[k])))
		}
		s.Line("map", "EM "+fl.name, strings.Join(ents, ","))
		// raw values: all combinations of the documented bits x settings of the remaining bits
		var raws []uint64
		docMask := uint64(0)
		for _, k := range ks {
			docMask |= 1 << uint(k)
		}
		ncomb := 1 << uint(len(ks))
		others := []uint64{0, ^docMask, rng.U64() &^ docMask, 0xFFFFFFFF00000000, 1 << 32, 1 << 63}
		for c := 0; c < ncomb; c++ {
			var v uint64
			for i, k := range ks {
				if c&(1<<uint(i)) != 0 {
					v |= 1 << uint(k)
				}
			}
			for oi, o := range others {
				if !thorough && oi >= 3 && c%7 != 0 {
					continue
				}
				raws = append(raws, v|(o&^docMask))
			}
		}
		if fl.name == "InverterWarningReasons" { // the 16-bit type: exhaustive
			for v := 0; v < 65536; v++ {
				raws = append(raws, uint64(v))
			}
		}
		for _, raw := range raws {
			flv, err := fl.f.NewFieldList(uint(raw))
			op := fmt.Sprintf("FF %s %d", fl.name, raw)
			if err != nil {
				s.Line("fields", op, "err:"+errKind(err))
				s.Violate(op, "err", "NewFieldList failed")
				continue
			}
			fields := flv.Fields()
			type kv struct {
				idx int
				set bool
			}
			var l []kv
			for f, set := range fields {
				l = append(l, kv{f.Idx(), set})
			}
			sort.Slice(l, func(i, j int) bool { return l[i].idx < l[j].idx })
			var parts []string
			for _, e := range l {
				parts = append(parts, fmt.Sprintf("%d:%s", e.idx, b01(e.set)))
			}
			out := strings.Join(parts, ",")
			s.Line("fields", op, out)
			// the property, directly
			if len(l) != len(ks) {
				s.Violate(op, out, fmt.Sprintf("%s raw=0x%X: decoded field set has %d keys, %d documented", fl.name, raw, len(l), len(ks)))
			}
			for i, e := range l {
				if i < len(ks) && (e.idx != ks[i] || e.set != (raw&(1<<uint(e.idx)) != 0)) {
					s.Violate(op, out, fmt.Sprintf("%s raw=0x%X: field %d decoded as set=%v, bit %d of the raw value is %v", fl.name, raw, e.idx, e.set, e.idx, raw&(1<<uint(e.idx)) != 0))
				}
			}
			// the typed entry point (what a consumer of e.g. a BLE record's AlarmReason calls): the same field set
			if td := typedDecodeStr(flv); td != out {
				s.Violate(op, td, fmt.Sprintf("%s raw=0x%X: the typed Decode() gives {%s}, the documented field set is {%s}", fl.name, raw, td, out))
			}
			// ... and it stays the field set of this raw value after a caller edited a map it was given
			if len(l) > 0 && raw%5 == 0 {
				mutateTypedDecode(flv)
				mf := flv.Fields()
				for f := range mf {
					mf[f] = !mf[f]
					break
				}
				again, _ := fl.f.NewFieldList(uint(raw))
				if a := fieldsStr(again.Fields()); a != fieldsStr(fields) || typedDecodeStr(again) != out {
					s.Violate(op+" mut:a-caller-edited-an-earlier-decode", a, fmt.Sprintf("%s raw=0x%X: after a caller edited an earlier result the field set reads {%s} / {%s}, it was {%s}", fl.name, raw, a, typedDecodeStr(again), out))
				}
			}
		}
		// rendering through the register API, each value rendered repeatedly
		reg, ok := regs[fl.name]
		if !ok {
			continue
		}
		reps := 8
		type renderedVal struct {
			val   vedirectapi.FieldListValue
			first string
			op    string
		}
		var rendered []renderedVal
		for ri, raw := range raws {
			if fl.name == "InverterWarningReasons" && !thorough && ri%5 != 0 && ri > 2000 {
				continue
			}
			w := 4
			if fl.name == "InverterWarningReasons" {
				w = 2
			}
			if raw>>32 != 0 {
				w = 8
			}
			val, err := fieldListValueVia(reg, leBytes(w, raw))
			op := fmt.Sprintf("FC %s %d", fl.name, leU(leBytes(w, raw)))
			if err != nil {
				s.Line("render", op, "err:"+errKind(err))
				continue
			}
			first, panicked := "", false
			func() {
				defer func() {
					if r := recover(); r != nil {
						panicked = true
					}
				}()
				first = val.CommaString()
			}()
			if panicked {
				s.Line("render", op, "PANIC")
				s.Violate(op, "PANIC", fmt.Sprintf("%s raw=0x%X: rendering the value panics", fl.name, raw))
				continue
			}
			for k := 1; k < reps; k++ {
				if again := val.CommaString(); again != first {
					s.Violate(op, hexS(again), fmt.Sprintf("%s raw=0x%X: rendering #%d %q differs from rendering #0 %q", fl.name, raw, k, again, first))
					break
				}
			}
			// names exactly the set fields, each once
			var want []string
			for _, k := range ks {
				if leU(leBytes(w, raw))&(1<<uint(k)) != 0 {
					want = append(want, m[k])
				}
			}
			if !namesExactly(first, want) {
				s.Violate(op, hexS(first), fmt.Sprintf("%s raw=0x%X: rendering %q does not name exactly the set fields %q", fl.name, raw, first, want))
			}
			if val.String() != reg.Name()+"="+first {
				s.Violate(op, hexS(first), "String() is not name=CommaString()")
			}
			s.Line("render", op, hexS(first))
			if len(want) >= 2 && len(rendered) < 48 {
				rendered = append(rendered, renderedVal{val, first, op})
			}
		}
		// "identical every time it is produced" also when values are rendered from several goroutines at once
		// (register values are handed to the caller's handler and commonly rendered on other goroutines)
		if len(rendered) > 1 {
			rounds := 400
			if thorough {
				rounds = 20000
			}
			type bad struct {
				i   int
				got string
			}
			const workers = 8
			res := make(chan *bad, workers)
			for g := 0; g < workers; g++ {
				go func(g int) {
					for r := 0; r < rounds; r++ {
						for j := range rendered {
							i := (j*(2*g+1) + r) % len(rendered)
							if got := rendered[i].val.CommaString(); got != rendered[i].first {
								res <- &bad{i, got}
								return
							}
						}
					}
					res <- nil
				}(g)
			}
			concurrentRenderings += workers * rounds * len(rendered)
			for g := 0; g < workers; g++ {
				if b := <-res; b != nil {
					rv := rendered[b.i]
					s.Violate(rv.op, hexS(b.got), fmt.Sprintf("%s: rendered concurrently with other values, the value renders as %q; alone it renders as %q", fl.name, b.got, rv.first))
				}
			}
		}
	}
	// names asked for indices the type does not document (a consumer of a BLE record prints the name of every bit of a raw
	// off-reason word): looking a name up must leave the field sets, the maps and the renderings as they were
	docBefore := map[string]string{}
	for _, fl := range flFs() {
		docBefore[fl.name] = intMapStr(fl.f.IntToStringMap())
	}
	for b := 0; b < 256; b++ {
		_ = veconst.InverterOffReason(b).String()
		_ = veconst.SolarOffReason(b).String()
		_ = veconst.InverterWarningReason(b).String()
		_, _ = veconst.InverterOffReason(b).Idx(), veconst.SolarOffReason(b).Idx()
	}
	for _, fl := range flFs() {
		m := fl.f.IntToStringMap()
		ks := make([]int, 0, len(m))
		for k := range m {
			ks = append(ks, k)
		}
		sort.Ints(ks)
		var ents []string
		for _, k := range ks {
			ents = append(ents, fmt.Sprintf("%d=%s", k, hexS(m[k])))
		}
		s.Line("map-after-name-lookups", "EM "+fl.name+" mut:after-names-were-asked-for-undocumented-indices", strings.Join(ents, ","))
		if now := intMapStr(m); now != docBefore[fl.name] {
			s.Violate("EM "+fl.name+" mut:after-names-were-asked-for-undocumented-indices", now[:min(300, len(now))], fmt.Sprintf("%s: asking the names of undocumented indices (String() of 0..255) changed the index-to-name map, i.e. the set of documented fields, from {%s} to {%s}", fl.name, docBefore[fl.name][:min(200, len(docBefore[fl.name]))], now[:min(300, len(now))]))
		}
		for _, raw := range fitUints(0, 1, 0x80, 0xFF, 0x3FF, 0xFFFF, 0x12345, 0xFFFFFFFF, uint64(rng.U64())) {
			flv, err := fl.f.NewFieldList(raw)
			op := fmt.Sprintf("FF %s %d mut:after-names-were-asked-for-undocumented-indices", fl.name, raw)
			if err != nil {
				s.Line("fields-after-name-lookups", op, "err:"+errKind(err))
				continue
			}
			out := fieldsStr(flv.Fields())
			s.Line("fields-after-name-lookups", op, out)
			if nk := strings.Count(out, ":"); nk != strings.Count(docBefore[fl.name], "=") {
				s.Violate(op, out[:min(300, len(out))], fmt.Sprintf("%s raw=0x%X: after names were asked for undocumented indices the decoded field set has %d keys, %d are documented", fl.name, raw, nk, strings.Count(docBefore[fl.name], "=")))
			}
			if td := typedDecodeStr(flv); td != out {
				s.Violate(op, td, fmt.Sprintf("%s raw=0x%X: after name lookups the typed Decode() gives {%s}, Fields() gives {%s}", fl.name, raw, td, out))
			}
			if reg, ok := fieldListRegisters()[fl.name]; ok {
				w := 4
				if fl.name == "InverterWarningReasons" {
					w = 2
				}
				if val, err := fieldListValueVia(reg, leBytes(w, uint64(raw))); err == nil {
					op := fmt.Sprintf("FC %s %d mut:after-names-were-asked-for-undocumented-indices", fl.name, leU(leBytes(w, uint64(raw))))
					out := "PANIC"
					func() {
						defer func() { recover() }()
						out = hexS(val.CommaString())
					}()
					s.Line("render-after-name-lookups", op, out)
					if out == "PANIC" {
						s.Violate(op, out, fmt.Sprintf("%s raw=0x%X: rendering the value panics", fl.name, raw))
					}
				}
			}
		}
	}
}

var concurrentRenderings int

// namesExactly: `rendering` is the ", "-join of some permutation of `want` (names may contain ", " themselves)
func namesExactly(rendering string, want []string) bool {
	if len(want) == 0 {
		return rendering == ""
	}
	for i, w := range want {
		rest := append(append([]string(nil), want[:i]...), want[i+1:]...)
		if len(rest) == 0 {
			if rendering == w {
				return true
			}
		} else if strings.HasPrefix(rendering, w+", ") && namesExactly(rendering[len(w)+2:], rest) {
			return true
		}
	}
	return false
}

// ---------- C12 ----------

func suiteC12(s *Sink) {
	// two passes over all ids: between them, callers trim and empty lists they were given; the second answer for every id
	// (supported or not) must be the first one again
	for pass := 1; pass <= 2; pass++ {
		suiteC12pass(s, pass)
		if pass == 1 {
			for _, id := range []uint16{0x204, 0xA382, 0xA38A, 0xA057, 0xA054, 0xA060, 0xA232, 0xA2B2} {
				rl, err := veregister.GetRegisterListByProduct(veproduct.Product(id))
				if err != nil {
					continue
				}
				var names []string
				for i, r := range rl.GetRegisters() {
					if i%3 == 0 {
						names = append(names, r.Name())
					}
				}
				held := rl // the caller keeps the list and narrows a copy of it (`essential := all; essential.FilterByName(...)`)
				before := renderList(held)
				rl.FilterByName(names...)
				rl.FilterRegister(func(r veregister.Register) bool { return r.Sort()%2 == 0 })
				rl.FilterRegister(func(veregister.Register) bool { return false })
				if after := renderList(held); after != before {
					s.Violate(fmt.Sprintf("SL %d mut:a-copy-of-the-list-was-filtered", id), after[:min(200, len(after))], fmt.Sprintf("product 0x%04X: the list the caller holds changed when a by-value copy of it was filtered (names / addresses / factors / decoders of the held list are no longer those of its class): %s", id, after[:min(300, len(after))]))
				}
			}
		}
	}
}

func suiteC12pass(s *Sink, pass int) {
	mut := ""
	if pass > 1 {
		mut = fmt.Sprintf(" mut:pass-%d-after-callers-trimmed-their-lists", pass)
	}
	groups := map[string][]int{}
	var order []string
	for id := 0; id < 65536; id++ {
		rl, err := veregister.GetRegisterListByProduct(veproduct.Product(id))
		st := "ok"
		if err != nil {
			st = "err:" + errKind(err)
		}
		sig := st + " " + renderList(rl)
		if _, ok := groups[sig]; !ok {
			order = append(order, sig)
		}
		groups[sig] = append(groups[sig], id)
		p := veproduct.Product(id)
		// the property, directly
		op := fmt.Sprintf("SL %d", id) + mut
		if err != nil {
			if !errors.Is(err, veregister.ErrUnsupportedType) || rl.Len() != 0 {
				s.Violate(op, sig[:min(200, len(sig))], fmt.Sprintf("product 0x%04X: error %v with %d registers (want ErrUnsupportedType and an empty list)", id, err, rl.Len()))
			}
			if cl := productClass(p); cl != "" {
				s.Violate(op, st, fmt.Sprintf("product 0x%04X (%s) of class %s yields %v", id, p.String(), cl, err))
			}
			continue
		}
		cl := productClass(p)
		if cl == "" {
			s.Violate(op, st, fmt.Sprintf("product 0x%04X (%q, type %d) is not of a supported class but got err=nil and %d registers", id, p.String(), p.Type(), rl.Len()))
			continue
		}
		if !typeFitsRange(id, p.Type()) {
			s.Violate(op, st, fmt.Sprintf("product 0x%04X (%q) gets the list of class %s, but its type %d is not one of the product families %v of its id block", id, p.String(), cl, p.Type(), rangeTypes(id)))
		}
		names, addrs := map[string]bool{}, map[uint16]bool{}
		for _, r := range rl.GetRegisters() {
			if names[r.Name()] {
				s.Violate(op, st, fmt.Sprintf("product 0x%04X: register name %s occurs twice", id, r.Name()))
			}
			if addrs[r.Address()] {
				s.Violate(op, st, fmt.Sprintf("product 0x%04X: register address 0x%04X occurs twice", id, r.Address()))
			}
			names[r.Name()], addrs[r.Address()] = true, true
		}
		for _, r := range rl.NumberRegisters {
			if r.Factor() == 0 {
				s.Violate(op, st, fmt.Sprintf("product 0x%04X: number register %s has factor 0", id, r.Name()))
			}
		}
		for _, r := range rl.EnumRegisters {
			if r.Factory() == nil {
				s.Violate(op, st, fmt.Sprintf("product 0x%04X: enum register %s has no decoder", id, r.Name()))
			}
		}
		for _, r := range rl.FieldListRegisters {
			if r.Factory() == nil {
				s.Violate(op, st, fmt.Sprintf("product 0x%04X: field-list register %s has no decoder", id, r.Name()))
			}
		}
		if want := classList(cl); renderList(want) != renderList(rl) {
			s.Violate(op, st, fmt.Sprintf("product 0x%04X (%s): register list (%d regs) differs from the list of its class %s (%d regs)", id, p.String(), rl.Len(), cl, want.Len()))
		}
	}
	for _, sig := range order {
		ids := groups[sig]
		s.Line("list", fmt.Sprintf("SL %d", ids[0])+mut, sig)
		for i := 0; i < len(ids); i += 500 {
			j := min(i+500, len(ids))
			chunk := []string{strconv.Itoa(ids[0])}
			for _, id := range ids[i:j] {
				chunk = append(chunk, strconv.Itoa(id))
			}
			s.Line("group", "SG "+strings.Join(chunk, ",")+mut, "same")
		}
	}
	s.Extra["distinct_lists"] = len(order)
}

// productClass, from the property text: BMV; smart BMV or SmartShunt; MPPT without / with load output; Phoenix inverter
func productClass(p veproduct.Product) string {
	if !p.Exists() {
		return ""
	}
	switch p.Type() {
	case veproduct.TypeBMV:
		return "bmv"
	case veproduct.TypeBMVSmart, veproduct.TypeSmartShunt:
		return "bmv-smart"
	case veproduct.TypeBlueSolarMPPT, veproduct.TypeSmartSolarMPPT:
		_, c, ok := designation(p.Model())
		if ok && (c == 10 || c == 15 || c == 20) {
			return "mppt-load"
		}
		return "mppt"
	case veproduct.TypePhoenixInverter, veproduct.TypePhoenixInverterSmart:
		return "phoenix"
	}
	return ""
}

// classList: the family's full list minus the class's documented exclusions
func classList(cl string) veregister.RegisterList {
	rl := veregister.NewRegisterList()
	switch cl {
	case "bmv":
		veregister.AppendBmv(&rl)
		rl.FilterByName("AuxVoltage", "BatteryTemperature", "MidPointVoltage", "MidPointVoltageDeviation", "AuxVoltageMinimum", "AuxVoltageMaximum")
	case "bmv-smart":
		veregister.AppendBmv(&rl)
		rl.FilterByName("ProductRevision", "Description")
	case "mppt":
		veregister.AppendSolar(&rl)
		load := veregister.NewRegisterList()
		veregister.AppendSolarLoadData(&load)
		var names []string
		for _, r := range load.GetRegisters() {
			names = append(names, r.Name())
		}
		rl.FilterByName(names...)
	case "mppt-load":
		veregister.AppendSolar(&rl)
		rl.FilterByName("PanelCurrent")
	case "phoenix":
		veregister.AppendInverter(&rl)
	}
	return rl
}

// ---------- C16 ----------

type poolItem struct {
	kind int
	n    *veregister.NumberRegisterStruct
	t    *veregister.TextRegisterStruct
	e    *veregister.EnumRegisterStruct
	f    *veregister.FieldListRegisterStruct
}

func (p poolItem) reg() veregister.Register {
	switch p.kind {
	case 1:
		return *p.n
	case 2:
		return *p.t
	case 3:
		return *p.e
	}
	return *p.f
}

func buildPool() []poolItem {
	var pool []poolItem
	for _, ap := range []func(*veregister.RegisterList){veregister.AppendBmv, veregister.AppendSolar, veregister.AppendInverter} {
		rl := veregister.NewRegisterList()
		ap(&rl)
		for i := range rl.NumberRegisters {
			pool = append(pool, poolItem{kind: 1, n: &rl.NumberRegisters[i]})
		}
		for i := range rl.TextRegisters {
			pool = append(pool, poolItem{kind: 2, t: &rl.TextRegisters[i]})
		}
		for i := range rl.EnumRegisters {
			pool = append(pool, poolItem{kind: 3, e: &rl.EnumRegisters[i]})
		}
		for i := range rl.FieldListRegisters {
			pool = append(pool, poolItem{kind: 4, f: &rl.FieldListRegisters[i]})
		}
	}
	return pool
}

func shortReg(kind int, r veregister.Register) string {
	return fmt.Sprintf("%d:%s@%d#%d", kind, r.Name(), r.Address(), r.Sort())
}

func kindOf(r veregister.Register) int { return int(r.Type()) }

func predOf(p string) func(r veregister.Register) bool {
	parts := strings.Split(p, ":")
	switch parts[0] {
	case "kind":
		k, _ := strconv.Atoi(parts[1])
		return func(r veregister.Register) bool { return int(r.Type()) == k }
	case "sortpar":
		k, _ := strconv.Atoi(parts[1])
		return func(r veregister.Register) bool { return ((r.Sort()%2)+2)%2 == k }
	case "addrlt":
		a, _ := strconv.Atoi(parts[1])
		return func(r veregister.Register) bool { return int(r.Address()) < a }
	case "static":
		return func(r veregister.Register) bool { return r.Static() }
	case "writable":
		return func(r veregister.Register) bool { return r.Writable() }
	case "none":
		return func(r veregister.Register) bool { return false }
	// predicates with memory: a filter shows every element to the predicate exactly once, numbers first, then texts,
	// enums, field lists, each in order
	case "first":
		k, _ := strconv.Atoi(parts[1])
		seen := 0
		return func(r veregister.Register) bool { seen++; return seen <= k }
	case "dedup":
		seen := map[string]bool{}
		return func(r veregister.Register) bool {
			if seen[r.Name()] {
				return false
			}
			seen[r.Name()] = true
			return true
		}
	case "alt":
		keep := false
		return func(r veregister.Register) bool { keep = !keep; return keep }
	}
	return func(r veregister.Register) bool { return true }
}

// runRegOps: executes the ops on a real RegisterList and, in parallel, on four plain slices (the reference the
// property names); returns the rendering and any divergence from the reference.
// synthItem: "s=<kind>.<sort>.<name>" - a register with an arbitrary name and sort key (address 7)
func synthItem(spec string) poolItem {
	p := strings.SplitN(spec, ".", 3)
	kind, _ := strconv.Atoi(p[0])
	srt, _ := strconv.ParseInt(p[1], 10, 64)
	switch kind {
	case 1:
		r := veregister.VerifNumber(p[2], int(srt), 7)
		return poolItem{kind: 1, n: &r}
	case 2:
		r := veregister.VerifText(p[2], int(srt), 7)
		return poolItem{kind: 2, t: &r}
	case 3:
		r := veregister.VerifEnum(p[2], int(srt), 7)
		return poolItem{kind: 3, e: &r}
	}
	r := veregister.VerifFieldList(p[2], int(srt), 7)
	return poolItem{kind: 4, f: &r}
}

type regSnapshot struct {
	rl  veregister.RegisterList // a by-value copy of the list (as `derived := base` makes one)
	ref [5][]poolItem
	at  int
}

func seqStrings(rl *veregister.RegisterList) [4][]string {
	var parts [4][]string
	for _, r := range rl.NumberRegisters {
		parts[0] = append(parts[0], shortReg(1, r))
	}
	for _, r := range rl.TextRegisters {
		parts[1] = append(parts[1], shortReg(2, r))
	}
	for _, r := range rl.EnumRegisters {
		parts[2] = append(parts[2], shortReg(3, r))
	}
	for _, r := range rl.FieldListRegisters {
		parts[3] = append(parts[3], shortReg(4, r))
	}
	return parts
}

func runRegOps(pool []poolItem, ops []string) (string, []string) {
	rl := veregister.NewRegisterList()
	ref := [5][]poolItem{}
	var viol []string
	var snaps []regSnapshot
	var restRegs []veregister.NumberRegisterStruct // the caller's slice behind "p": its tail is appended by "q"
	var restRef []poolItem
	for opIdx, op := range ops {
		kv := strings.SplitN(op, "=", 2)
		switch kv[0] {
		case "g":
			// an observation in the middle of the history (the combined view must be right every time it is asked for)
			var got []string
			for _, r := range rl.GetRegisters() {
				got = append(got, shortReg(kindOf(r), r))
			}
			var all []poolItem
			for k := 1; k <= 4; k++ {
				all = append(all, ref[k]...)
			}
			var st []poolItem
			for _, it := range all {
				j := len(st)
				for j > 0 && st[j-1].reg().Sort() > it.reg().Sort() {
					j--
				}
				st = append(st, poolItem{})
				copy(st[j+1:], st[j:])
				st[j] = it
			}
			var want []string
			for _, it := range st {
				want = append(want, shortReg(it.kind, it.reg()))
			}
			if strings.Join(got, ",") != strings.Join(want, ",") {
				viol = append(viol, fmt.Sprintf("combined view after operation %d is [%s], the stable ascending sort is [%s]", opIdx, strings.Join(got, ","), strings.Join(want, ",")))
			}
		case "p":
			// the caller owns a slice s of number registers and appends its head s[:c]... now, its tail s[c:]... later ("q");
			// whatever the list does in between, the tail the caller appends is the caller's data
			parts := strings.SplitN(kv[1], "@", 2)
			c, _ := strconv.Atoi(parts[1])
			var sl []veregister.NumberRegisterStruct
			var items []poolItem
			for _, is := range strings.Split(parts[0], ",") {
				i, _ := strconv.Atoi(is)
				sl = append(sl, *pool[i].n)
				items = append(items, pool[i])
			}
			rl.AppendNumberRegisterStruct(sl[:c]...)
			ref[1] = append(ref[1], items[:c]...)
			restRegs, restRef = sl[c:], items[c:]
		case "q":
			rl.AppendNumberRegisterStruct(restRegs...)
			ref[1] = append(ref[1], restRef...)
			restRegs, restRef = nil, nil
		case "k":
			// keep a copy of the list value as it is now; the operations that follow are applied to `rl` only
			// and must leave what the copy holds untouched
			sn := regSnapshot{rl: rl, at: opIdx}
			for k := 1; k <= 4; k++ {
				sn.ref[k] = append([]poolItem(nil), ref[k]...)
			}
			snaps = append(snaps, sn)
		case "s":
			it := synthItem(kv[1])
			switch it.kind {
			case 1:
				rl.AppendNumberRegisterStruct(*it.n)
			case 2:
				rl.AppendTextRegisterStruct(*it.t)
			case 3:
				rl.AppendEnumRegisterStruct(*it.e)
			case 4:
				rl.AppendFieldListRegisterStruct(*it.f)
			}
			ref[it.kind] = append(ref[it.kind], it)
		case "a":
			for _, is := range strings.Split(kv[1], ",") {
				i, _ := strconv.Atoi(is)
				it := pool[i]
				switch it.kind {
				case 1:
					rl.AppendNumberRegisterStruct(*it.n)
				case 2:
					rl.AppendTextRegisterStruct(*it.t)
				case 3:
					rl.AppendEnumRegisterStruct(*it.e)
				case 4:
					rl.AppendFieldListRegisterStruct(*it.f)
				}
				ref[it.kind] = append(ref[it.kind], it)
			}
		case "f":
			p := predOf(kv[1])
			rl.FilterRegister(p)
			pr := predOf(kv[1]) // the reference's own instance of the predicate (it may have memory)
			for k := 1; k <= 4; k++ {
				var keep []poolItem
				for _, it := range ref[k] {
					if pr(it.reg()) {
						keep = append(keep, it)
					}
				}
				ref[k] = keep
			}
		case "n":
			var names []string
			if kv[1] != "" {
				names = strings.Split(kv[1], ",")
			}
			rl.FilterByName(names...)
			for k := 1; k <= 4; k++ {
				var keep []poolItem
				for _, it := range ref[k] {
					drop := false
					for _, n := range names {
						if n == it.reg().Name() {
							drop = true
						}
					}
					if !drop {
						keep = append(keep, it)
					}
				}
				ref[k] = keep
			}
		}
	}
	parts := seqStrings(&rl)
	var sorted []string
	for _, r := range rl.GetRegisters() {
		sorted = append(sorted, shortReg(kindOf(r), r))
	}
	// reference
	total := 0
	var all []poolItem
	for k := 1; k <= 4; k++ {
		var want []string
		for _, it := range ref[k] {
			want = append(want, shortReg(k, it.reg()))
		}
		if strings.Join(want, ",") != strings.Join(parts[k-1], ",") {
			viol = append(viol, fmt.Sprintf("sequence %d holds [%s], four plain sequences would hold [%s]", k, strings.Join(parts[k-1], ","), strings.Join(want, ",")))
		}
		total += len(ref[k])
		all = append(all, ref[k]...)
	}
	if rl.Len() != total {
		viol = append(viol, fmt.Sprintf("Len()=%d, total count %d", rl.Len(), total))
	}
	// stable ascending sort by insertion (independent of sort.SliceStable)
	var st []poolItem
	for _, it := range all {
		j := len(st)
		for j > 0 && st[j-1].reg().Sort() > it.reg().Sort() {
			j--
		}
		st = append(st, poolItem{})
		copy(st[j+1:], st[j:])
		st[j] = it
	}
	var wantSorted []string
	for _, it := range st {
		wantSorted = append(wantSorted, shortReg(it.kind, it.reg()))
	}
	if strings.Join(wantSorted, ",") != strings.Join(sorted, ",") {
		viol = append(viol, fmt.Sprintf("combined view [%s] is not the stable ascending sort [%s]", strings.Join(sorted, ","), strings.Join(wantSorted, ",")))
	}
	out := fmt.Sprintf("%d %s|%s|%s|%s %s", rl.Len(), strings.Join(parts[0], ","), strings.Join(parts[1], ","), strings.Join(parts[2], ","), strings.Join(parts[3], ","), strings.Join(sorted, ","))
	// the kept copies: each still holds what four plain sequences held when it was taken
	for _, sn := range snaps {
		sp := seqStrings(&sn.rl)
		for k := 1; k <= 4; k++ {
			var want []string
			for _, it := range sn.ref[k] {
				want = append(want, shortReg(k, it.reg()))
			}
			if strings.Join(want, ",") != strings.Join(sp[k-1], ",") {
				viol = append(viol, fmt.Sprintf("a copy of the list taken after operation %d had sequence %d = [%s]; after later operations on the list it reads [%s]", sn.at, k, strings.Join(want, ","), strings.Join(sp[k-1], ",")))
			}
		}
		out += fmt.Sprintf(" K%d %s|%s|%s|%s", sn.rl.Len(), strings.Join(sp[0], ","), strings.Join(sp[1], ","), strings.Join(sp[2], ","), strings.Join(sp[3], ","))
	}
	return out, viol
}

// derivedLists: two callers get the list of the same product from the library and extend it differently: what one appends
// never shows up in, or overwrites the tail of, the other's list, and a third caller gets the product's list as it was.
// Decided by the reference sequences alone (no model line: the model's values cannot alias).
func derivedLists(s *Sink, pool []poolItem, rng *Rng) {
	n := 0
	seqOf := func(rl *veregister.RegisterList) string {
		p := seqStrings(rl)
		return strings.Join(p[0], ",") + "|" + strings.Join(p[1], ",") + "|" + strings.Join(p[2], ",") + "|" + strings.Join(p[3], ",")
	}
	appendItem := func(rl *veregister.RegisterList, ref *[5][]poolItem, it poolItem) {
		switch it.kind {
		case 1:
			rl.AppendNumberRegisterStruct(*it.n)
		case 2:
			rl.AppendTextRegisterStruct(*it.t)
		case 3:
			rl.AppendEnumRegisterStruct(*it.e)
		case 4:
			rl.AppendFieldListRegisterStruct(*it.f)
		}
		ref[it.kind] = append(ref[it.kind], it)
	}
	extra := func(kind, i int) poolItem {
		return synthItem(fmt.Sprintf("%d.%d.derived%d", kind, 500+i, i))
	}
	// the library's own per-product lists: two callers get the list of the same product and extend it differently
	// (lists a caller copied by value share their backing arrays by the rules of the language - in the unchanged code as well -
	// and are the caller's business: see DESIGN.md §9, C16-M)
	for _, id := range []uint16{0x203, 0xA381, 0xA056, 0xA053, 0xA231} {
		base, err := veregister.GetRegisterListByProduct(veproduct.Product(id))
		if err != nil {
			continue
		}
		var bref [5][]poolItem
		_ = bref
		want0 := seqOf(&base)
		a, _ := veregister.GetRegisterListByProduct(veproduct.Product(id))
		var aItems, bItems [5][]poolItem
		for kind := 1; kind <= 4; kind++ {
			appendItem(&a, &aItems, extra(kind, 100+kind))
		}
		b, _ := veregister.GetRegisterListByProduct(veproduct.Product(id))
		for kind := 1; kind <= 4; kind++ {
			appendItem(&b, &bItems, extra(kind, 200+kind))
		}
		c, _ := veregister.GetRegisterListByProduct(veproduct.Product(id))
		wantOf := func(items [5][]poolItem) string {
			parts := strings.Split(want0, "|")
			for k := 1; k <= 4; k++ {
				for _, it := range items[k] {
					if parts[k-1] != "" {
						parts[k-1] += ","
					}
					parts[k-1] += shortReg(k, it.reg())
				}
			}
			return strings.Join(parts, "|")
		}
		n += 3
		if got := seqOf(&a); got != wantOf(aItems) {
			s.Violate(fmt.Sprintf("derived lists: two callers extend the list of product 0x%04X", id), got[:min(300, len(got))], fmt.Sprintf("the first caller's list holds [%s] after the second caller extended ITS list; its own history gives [%s]", got[:min(400, len(got))], wantOf(aItems)[:min(400, len(wantOf(aItems)))]))
		}
		if got := seqOf(&b); got != wantOf(bItems) {
			s.Violate(fmt.Sprintf("derived lists: two callers extend the list of product 0x%04X", id), got[:min(300, len(got))], "the second caller's list does not hold the product's list plus what that caller appended")
		}
		if got := seqOf(&c); got != want0 {
			s.Violate(fmt.Sprintf("derived lists: two callers extend the list of product 0x%04X", id), got[:min(300, len(got))], "a third caller does not get the product's list as it was")
		}
	}
	s.Extra["derived_lists_checked"] += n
}

func suiteC16(rng *Rng, thorough bool, s *Sink) {
	pool := buildPool()
	derivedLists(s, pool, rng.Fork())
	// small alphabet: registers sharing sort keys and names across families, filters of each kind
	byName := map[string][]int{}
	for i, it := range pool {
		byName[it.reg().Name()] = append(byName[it.reg().Name()], i)
	}
	pick := func(name string, k int) int {
		l := byName[name]
		return l[k%len(l)]
	}
	firstOfKind := func(kind, nth int) int {
		c := 0
		for i, it := range pool {
			if it.kind == kind {
				if c == nth {
					return i
				}
				c++
			}
		}
		return 0
	}
	alpha := []string{
		fmt.Sprintf("a=%d", pick("ProductId", 0)), fmt.Sprintf("a=%d", pick("ProductId", 1)),
		fmt.Sprintf("a=%d", firstOfKind(2, 0)), fmt.Sprintf("a=%d", firstOfKind(3, 0)), fmt.Sprintf("a=%d", firstOfKind(4, 0)),
		fmt.Sprintf("a=%d,%d", firstOfKind(1, 3), firstOfKind(2, 1)),
		"f=kind:1", "f=sortpar:0", "n=ProductId", "n=" + pool[firstOfKind(2, 0)].reg().Name() + ",Nope",
		"k", fmt.Sprintf("s=1.%d.lo", math.MinInt), fmt.Sprintf("s=2.%d.hi", math.MaxInt), "s=1.-1.m",
		"g", fmt.Sprintf("p=%d,%d,%d@1", firstOfKind(1, 0), firstOfKind(1, 1), firstOfKind(1, 2)), "q",
		"s=1.5.soc", "s=2.6.SOC", "n=SOC", "f=dedup", "f=first:2",
	}
	maxLen := 3
	if thorough {
		maxLen = 4
	}
	var rec func(seq []string)
	rec = func(seq []string) {
		if len(seq) > 0 {
			out, viol := runRegOps(pool, seq)
			op := "RL " + strings.Join(seq, " ")
			s.Line(fmt.Sprintf("exhaustive-len%d", len(seq)), op, out)
			for _, v := range viol {
				s.Violate(op, out[:min(300, len(out))], v)
			}
		}
		if len(seq) < maxLen {
			for _, a := range alpha {
				rec(append(append([]string(nil), seq...), a))
			}
		}
	}
	rec(nil)
	// random long sequences
	n := 300
	if thorough {
		n = 4000
	}
	preds := []string{"kind:1", "kind:2", "kind:3", "kind:4", "sortpar:0", "sortpar:1", "addrlt:60000", "addrlt:300", "static", "writable", "none", "all",
		"dedup", "alt", "first:1", "first:5", "first:40"}
	caseNames := []string{"soc", "SOC", "Soc", "productid", "PRODUCTID", "ProductId", "serialnumber", "SerialNumber"}
	for i := 0; i < n; i++ {
		l := 1 + rng.Intn(40)
		if i%10 == 0 {
			l = 100 + rng.Intn(100)
		}
		var seq []string
		for k := 0; k < l; k++ {
			switch rng.Intn(15) {
			case 12:
				seq = append(seq, "g")
			case 13:
				var idx []string
				n := 2 + rng.Intn(4)
				for j := 0; j < n; j++ {
					idx = append(idx, strconv.Itoa(firstOfKind(1, rng.Intn(20))))
				}
				seq = append(seq, fmt.Sprintf("p=%s@%d", strings.Join(idx, ","), rng.Intn(n+1)))
			case 14:
				seq = append(seq, "q")
			case 10:
				seq = append(seq, "k")
			case 11:
				keys := []int64{math.MinInt64, math.MinInt64 + 1, -1 << 62, -1000, -1, 0, 1, 105, 1 << 62, math.MaxInt64 - 1, math.MaxInt64, int64(rng.U64())}
				nm := fmt.Sprintf("syn%d", rng.Intn(5))
				if rng.Intn(2) == 0 {
					nm = caseNames[rng.Intn(len(caseNames))]
				}
				seq = append(seq, fmt.Sprintf("s=%d.%d.%s", 1+rng.Intn(4), int(keys[rng.Intn(len(keys))]), nm)) // int(): a key the platform can hold
			case 0:
				seq = append(seq, "f="+preds[rng.Intn(len(preds))])
			case 1:
				var names []string
				for j := 0; j < rng.Intn(4); j++ {
					if rng.Intn(3) == 0 {
						names = append(names, caseNames[rng.Intn(len(caseNames))])
					} else {
						names = append(names, pool[rng.Intn(len(pool))].reg().Name())
					}
				}
				seq = append(seq, "n="+strings.Join(names, ","))
			default:
				var idx []string
				for j := 0; j <= rng.Intn(5); j++ {
					if rng.Intn(4) == 0 { // a duplicate-prone pick
						idx = append(idx, strconv.Itoa(pick("ProductId", rng.Intn(3))))
					} else {
						idx = append(idx, strconv.Itoa(rng.Intn(len(pool))))
					}
				}
				seq = append(seq, "a="+strings.Join(idx, ","))
			}
		}
		out, viol := runRegOps(pool, seq)
		op := "RL " + strings.Join(seq, " ")
		s.Line("random", op, out)
		for _, v := range viol {
			s.Violate(op[:min(400, len(op))], out[:min(300, len(out))], v)
		}
	}
}

// ---------- C17 ----------

func fnv64(b []byte) uint64 {
	h := uint64(14695981039346656037)
	for _, c := range b {
		h ^= uint64(c)
		h *= 1099511628211
	}
	return h
}

func stringMapDigest(m map[veproduct.Product]string) string {
	ks := make([]int, 0, len(m))
	for k := range m {
		ks = append(ks, int(k))
	}
	sort.Ints(ks)
	var sb strings.Builder
	for _, k := range ks {
		fmt.Fprintf(&sb, "%d=%s;", k, hexS(m[veproduct.Product(k)]))
	}
	return fmt.Sprintf("%d:%d", len(ks), fnv64([]byte(sb.String())))
}

func intMapStr(m map[int]string) string {
	ks := make([]int, 0, len(m))
	for k := range m {
		ks = append(ks, k)
	}
	sort.Ints(ks)
	var ents []string
	for _, k := range ks {
		ents = append(ents, fmt.Sprintf("%d=%s", k, hexS(m[k])))
	}
	return strings.Join(ents, ",")
}

func fieldsStr(fields map[veconst.Field]bool) string {
	type kv struct {
		idx int
		set bool
	}
	var l []kv
	for f, set := range fields {
		l = append(l, kv{f.Idx(), set})
	}
	sort.Slice(l, func(i, j int) bool { return l[i].idx < l[j].idx })
	var parts []string
	for _, e := range l {
		parts = append(parts, fmt.Sprintf("%d:%s", e.idx, b01(e.set)))
	}
	return strings.Join(parts, ",")
}

// suiteC17: every lookup function x caller mutations x a second and third call. The operation line is the
// plain lookup (the model's answer is the constant table content); the real side first corrupts what an
// earlier call returned.
// twoLiveResults: a caller holds TWO results of the same lookup, taken one after the other with nothing in between, and edits
// one of them: the other one - still in the caller's hands - and every later result hold the original data ("private copies":
// also private from each other)
func twoLiveResults(s *Sink) {
	n := 0
	chk := func(what, held, later, orig string) {
		n++
		if held != orig {
			s.Violate("two live results: "+what, held[:min(200, len(held))], fmt.Sprintf("%s: two results were taken one after the other; after the caller edited the first, the second one (never touched) reads %s, the original is %s", what, held[:min(200, len(held))], orig[:min(200, len(orig))]))
		}
		if later != orig {
			s.Violate("two live results: "+what, later[:min(200, len(later))], fmt.Sprintf("%s: a result taken after the caller edited one of two earlier results reads %s, the original is %s", what, later[:min(200, len(later))], orig[:min(200, len(orig))]))
		}
	}
	for round := 0; round < 3; round++ {
		a, b := veproduct.GetStringMap(), veproduct.GetStringMap()
		orig := stringMapDigest(b)
		switch round {
		case 0:
			for k := range a {
				if k%2 == 0 {
					delete(a, k)
				}
			}
		case 1:
			a[0x204] = ""
			a[0xFFFF] = "foreign"
		case 2:
			for k := range a {
				a[k] = "x"
			}
		}
		chk("veproduct.GetStringMap()", stringMapDigest(b), stringMapDigest(veproduct.GetStringMap()), orig)
	}
	for _, e := range enumFs() {
		a, b := e.f.IntToStringMap(), e.f.IntToStringMap()
		orig := intMapStr(b)
		for k := range a {
			a[k] = "edited"
		}
		a[4711] = "added"
		chk(e.name+".IntToStringMap()", intMapStr(b), intMapStr(e.f.IntToStringMap()), orig)
	}
	for _, fl := range flFs() {
		a, b := fl.f.IntToStringMap(), fl.f.IntToStringMap()
		orig := intMapStr(b)
		for k := range a {
			delete(a, k)
		}
		chk(fl.name+".IntToStringMap()", intMapStr(b), intMapStr(fl.f.IntToStringMap()), orig)
		for _, raw := range []uint{0, 0x101, 0xFFFF} {
			va, _ := fl.f.NewFieldList(raw)
			vb, _ := fl.f.NewFieldList(raw)
			fa, fb := va.Fields(), vb.Fields()
			orig := fieldsStr(fb)
			for f := range fa {
				fa[f] = !fa[f]
			}
			vc, _ := fl.f.NewFieldList(raw)
			chk(fmt.Sprintf("%s(%d).Fields()", fl.name, raw), fieldsStr(fb), fieldsStr(vc.Fields()), orig)
			// the same value object asked twice
			f1, f2 := vb.Fields(), vb.Fields()
			for f := range f1 {
				delete(f1, f)
			}
			chk(fmt.Sprintf("%s(%d).Fields() of one value, twice", fl.name, raw), fieldsStr(f2), fieldsStr(vb.Fields()), orig)
			// Fields() and the typed Decode() of the same word, in both orders, one of them edited
			origT := typedDecodeStr(vb)
			mutateTypedDecode(va)
			chk(fmt.Sprintf("%s(%d): Decode() edited, Fields() read", fl.name, raw), fieldsStr(vb.Fields()), typedDecodeStr(vc), orig)
			_ = origT
			vd, _ := fl.f.NewFieldList(raw)
			_ = vd.Fields()
			mutateTypedDecode(vd) // Decode() after Fields() on the same word, then edited
			ve, _ := fl.f.NewFieldList(raw)
			chk(fmt.Sprintf("%s(%d): Fields() read, then Decode() edited", fl.name, raw), fieldsStr(ve.Fields()), typedDecodeStr(ve), orig)
		}
	}
	// a field-list value read from a device (what a stream handler or ReadRegisterList hands out): the field set behind
	// Value().Fields() is the caller's copy - editing it changes neither the value's rendering nor what Value().Fields() returns next
	for name, reg := range fieldListRegisters() {
		for _, raw := range []uint64{0x0001, 0x0205, 0x0FFF} {
			w := 4
			if name == "InverterWarningReasons" {
				w = 2
			}
			val, err := fieldListValueVia(reg, leBytes(w, raw))
			if err != nil {
				continue
			}
			cp := val // a copy of the value, as a collector keeps one
			origF, origS, origC := fieldsStr(val.Value().Fields()), val.String(), val.CommaString()
			m := val.Value().Fields()
			for f := range m {
				if m[f] {
					m[f] = false
				} else {
					delete(m, f)
				}
			}
			what := fmt.Sprintf("FieldListValue %s raw=0x%X read from a device", name, raw)
			chk(what+": Value().Fields()", fieldsStr(cp.Value().Fields()), fieldsStr(val.Value().Fields()), origF)
			chk(what+": String()", cp.String(), val.String(), origS)
			chk(what+": CommaString()", cp.CommaString(), val.CommaString(), origC)
		}
	}
	for _, id := range []uint16{0x203, 0xA381, 0xA056, 0xA053, 0xA231} {
		a, _ := veregister.GetRegisterListByProduct(veproduct.Product(id))
		b, _ := veregister.GetRegisterListByProduct(veproduct.Product(id))
		orig := renderList(b)
		a.FilterRegister(func(veregister.Register) bool { return false })
		c, _ := veregister.GetRegisterListByProduct(veproduct.Product(id))
		chk(fmt.Sprintf("GetRegisterListByProduct(0x%04X)", id), renderList(b), renderList(c), orig)
	}
	s.Extra["pairs_of_live_results_checked"] += n
}

func suiteC17(rng *Rng, thorough bool, s *Sink) {
	defer twoLiveResults(s)
	mutInt := func(name string, m map[int]string, k int) {
		switch k {
		case 0:
			for x := range m {
				delete(m, x)
			}
		case 1:
			for x := range m {
				m[x] = "corrupted"
			}
		case 2:
			m[12345] = "inserted"
			m[0] = "zero"
		}
	}
	// product string map. The very first result handed out in this process is mutated as well: a lookup that
	// builds its table lazily can leak the table itself exactly once.
	firstMap := veproduct.GetStringMap()
	orig := stringMapDigest(firstMap)
	for x := range firstMap {
		firstMap[x] = ""
	}
	delete(firstMap, 0x203)
	firstMap[0x1234] = "Bogus 123"
	{
		got := stringMapDigest(veproduct.GetStringMap())
		op := "SM mut:first-call:2"
		s.Line("stringmap", op, got)
		if got != orig {
			s.Violate(op, got, "GetStringMap() returns different data after a caller mutated the first result ever handed out")
		}
		if p := veproduct.Product(0x204); !p.Exists() || p.String() != "BMV 702" {
			s.Violate(op, got, "Product methods changed after a caller mutated the first string map handed out")
		}
	}
	for k := 0; k < 4; k++ {
		m := veproduct.GetStringMap()
		switch k {
		case 0:
			for x := range m {
				delete(m, x)
			}
		case 1:
			for x := range m {
				m[x] = "x"
			}
		case 2:
			m[0x1234] = "inserted"
			delete(m, 0x204)
			m[0xA389] = "my shunt"
		case 3:
			m2 := veproduct.GetStringMap()
			delete(m2, 0x203)
			m[0x203] = "other"
		}
		for call := 2; call <= 3; call++ {
			got := stringMapDigest(veproduct.GetStringMap())
			op := fmt.Sprintf("SM mut:%d-call:%d", k, call)
			s.Line("stringmap", op, got)
			if got != orig {
				s.Violate(op, got, "GetStringMap() returns different data after a caller mutated an earlier result")
			}
			if p := veproduct.Product(0x204); !p.Exists() || p.String() != "BMV 702" {
				s.Violate(op, got, "Product methods changed after a caller mutated the string map")
			}
		}
	}
	// enumeration and field-list index-to-name maps
	for _, e := range enumFs() {
		first := e.f.IntToStringMap()
		orig := intMapStr(first)
		mutInt(e.name, first, 1) // the first result handed out, overwritten in place (size preserved)
		for k := 0; k < 3; k++ {
			mutInt(e.name, e.f.IntToStringMap(), k)
			got := intMapStr(e.f.IntToStringMap())
			op := fmt.Sprintf("EM %s mut:%d", e.name, k)
			s.Line("enum-map", op, got)
			if got != orig {
				s.Violate(op, got, e.name+".IntToStringMap() returns different data after a caller mutated an earlier result")
			}
			if en, err := e.f.NewEnum(firstKey(e.f.IntToStringMap())); err != nil || en.String() == "corrupted" || en.String() == "zero" {
				s.Violate(op, got, e.name+": constants changed after a caller mutated the map")
			}
		}
	}
	for _, fl := range flFs() {
		first := fl.f.IntToStringMap()
		orig := intMapStr(first)
		mutInt(fl.name, first, 1)
		for k := 0; k < 3; k++ {
			mutInt(fl.name, fl.f.IntToStringMap(), k)
			got := intMapStr(fl.f.IntToStringMap())
			op := fmt.Sprintf("EM %s mut:%d", fl.name, k)
			s.Line("field-map", op, got)
			if got != orig {
				s.Violate(op, got, fl.name+".IntToStringMap() returns different data after a caller mutated an earlier result")
			}
		}
		// decoded field sets (Fields() and the typed Decode())
		for _, raw := range []uint{0, 1, 0x42, 0x200, 0xFFFF, 0xFFFFFFFF, uint(rng.U64())} {
			for k := 0; k < 3; k++ {
				v, _ := fl.f.NewFieldList(raw)
				m := v.Fields()
				origF := fieldsStr(m)
				switch k {
				case 0:
					for f := range m {
						delete(m, f)
					}
				case 1:
					for f := range m {
						m[f] = !m[f]
					}
				case 2:
					mutateTypedDecode(v)
				}
				v2, _ := fl.f.NewFieldList(raw)
				for call := 2; call <= 3; call++ {
					got := fieldsStr(v2.Fields())
					op := fmt.Sprintf("FF %s %d mut:%d-call:%d", fl.name, raw, k, call)
					s.Line("fields", op, got)
					if got != origF || fieldsStr(v.Fields()) != origF {
						s.Violate(op, got, fmt.Sprintf("%s raw=0x%X: decoded field set changed after a caller mutated an earlier result (was %s)", fl.name, raw, origF))
					}
				}
			}
		}
	}
	// the building blocks: every exported Append function applied to an empty list (zero value and NewRegisterList()); the
	// caller then sorts, overwrites and truncates what it got in place; the next caller gets the original data
	appends := map[string]func(*veregister.RegisterList){
		"AppendBmv": veregister.AppendBmv, "AppendBmvProduct": veregister.AppendBmvProduct, "AppendBmvMonitor": veregister.AppendBmvMonitor, "AppendBmvHistoric": veregister.AppendBmvHistoric,
		"AppendSolar": veregister.AppendSolar, "AppendSolarProduct": veregister.AppendSolarProduct, "AppendSolarGeneric": veregister.AppendSolarGeneric, "AppendSolarSettings": veregister.AppendSolarSettings,
		"AppendSolarChargerData": veregister.AppendSolarChargerData, "AppendSolarPanelData": veregister.AppendSolarPanelData, "AppendSolarLoadData": veregister.AppendSolarLoadData,
		"AppendInverter": veregister.AppendInverter, "AppendInverterProduct": veregister.AppendInverterProduct, "AppendInverterGeneric": veregister.AppendInverterGeneric,
		"AppendInverterHistory": veregister.AppendInverterHistory, "AppendInverterOperation": veregister.AppendInverterOperation, "AppendInverterAcOutControl": veregister.AppendInverterAcOutControl,
		"AppendInverterBatteryControl": veregister.AppendInverterBatteryControl, "AppendInverterDynamicCutoff": veregister.AppendInverterDynamicCutoff,
	}
	var anames []string
	for n := range appends {
		anames = append(anames, n)
	}
	sort.Strings(anames)
	clobber := func(rl *veregister.RegisterList) {
		sort.Slice(rl.NumberRegisters, func(i, j int) bool { return rl.NumberRegisters[i].Address() > rl.NumberRegisters[j].Address() })
		for i := range rl.NumberRegisters {
			rl.NumberRegisters[i] = veregister.NumberRegisterStruct{}
		}
		for i := range rl.TextRegisters {
			rl.TextRegisters[i] = veregister.TextRegisterStruct{}
		}
		for i := range rl.EnumRegisters {
			rl.EnumRegisters[i] = veregister.EnumRegisterStruct{}
		}
		for i := range rl.FieldListRegisters {
			rl.FieldListRegisters[i] = veregister.FieldListRegisterStruct{}
		}
		rl.NumberRegisters = rl.NumberRegisters[:0]
	}
	productsBefore := map[uint16]string{}
	for _, id := range []uint16{0x203, 0xA381, 0xA056, 0xA053, 0xA05F, 0xA231} {
		rl, _ := veregister.GetRegisterListByProduct(veproduct.Product(id))
		productsBefore[id] = renderList(rl)
	}
	for _, n := range anames {
		for variant := 0; variant < 2; variant++ {
			var first veregister.RegisterList
			if variant == 1 {
				first = veregister.NewRegisterList()
			}
			appends[n](&first)
			orig := renderList(first)
			clobber(&first)
			second := veregister.NewRegisterList()
			appends[n](&second)
			got := renderList(second)
			op := fmt.Sprintf("AP %s mut:empty-list-variant-%d", n, variant)
			s.Extra["append_blocks_rechecked"]++
			if got != orig {
				s.Violate(op, "", fmt.Sprintf("%s on an empty list: after the caller edited the registers it received in place, the next %s yields different registers", n, n))
			}
		}
	}
	for id, before := range productsBefore {
		rl, _ := veregister.GetRegisterListByProduct(veproduct.Product(id))
		if renderList(rl) != before {
			s.Violate(fmt.Sprintf("SL %d mut:after-append-blocks-were-edited", id), "", fmt.Sprintf("register list of product 0x%04X changed after callers edited lists built with the Append functions", id))
		}
	}
	// the combined view of a list: GetRegisters() results are the caller's to edit
	for _, id := range []uint16{0xA381, 0xA05F, 0xA231} {
		rl, _ := veregister.GetRegisterListByProduct(veproduct.Product(id))
		view := func() string {
			var ns []string
			for _, r := range rl.GetRegisters() {
				if r == nil {
					ns = append(ns, "<nil>")
					continue
				}
				ns = append(ns, fmt.Sprintf("%s#%d", r.Name(), r.Sort()))
			}
			return strings.Join(ns, ",")
		}
		orig := view()
		for k := 0; k < 3; k++ {
			regs := rl.GetRegisters()
			switch k {
			case 0:
				for i := range regs {
					regs[i] = regs[len(regs)-1]
				}
			case 1:
				sort.Slice(regs, func(i, j int) bool { return regs[i].Name() > regs[j].Name() })
			case 2:
				for i := range regs {
					regs[i] = nil
				}
			}
			got := view()
			op := fmt.Sprintf("GR %d mut:%d", id, k)
			s.Extra["combined_views_rechecked"]++
			if got != orig {
				s.Violate(op, "", fmt.Sprintf("product 0x%04X: GetRegisters() differs after the caller edited an earlier GetRegisters() result in place", id))
			}
		}
	}
	// per-product register lists, each class
	for _, id := range []uint16{0x203, 0xA381, 0xA389, 0xA056, 0xA053, 0xA05F, 0xA231, 0xA2B1, 0x0300} {
		others := map[uint16]uint16{0x203: 0x204, 0xA381: 0xA383, 0xA389: 0xA38A, 0xA056: 0xA057, 0xA053: 0xA054, 0xA05F: 0xA060, 0xA231: 0xA232, 0xA2B1: 0xA2B2, 0x0300: 0xA042}
		first, _ := veregister.GetRegisterListByProduct(veproduct.Product(id))
		orig := renderList(first)
		for i := range first.NumberRegisters { // the first list handed out for this product, overwritten in place
			first.NumberRegisters[i] = first.NumberRegisters[len(first.NumberRegisters)-1]
		}
		first.FilterRegister(func(veregister.Register) bool { return false })
		for k := 0; k < 6; k++ {
			rl, _ := veregister.GetRegisterListByProduct(veproduct.Product(id))
			switch k {
			case 0: // delete idiom in place
				if len(rl.NumberRegisters) > 1 {
					rl.NumberRegisters = append(rl.NumberRegisters[:0], rl.NumberRegisters[1:]...)
				}
			case 1: // sort in place
				sort.Slice(rl.EnumRegisters, func(i, j int) bool { return rl.EnumRegisters[i].Name() > rl.EnumRegisters[j].Name() })
				sort.Slice(rl.NumberRegisters, func(i, j int) bool { return rl.NumberRegisters[i].Address() > rl.NumberRegisters[j].Address() })
			case 2: // overwrite elements
				for i := range rl.NumberRegisters {
					rl.NumberRegisters[i] = rl.NumberRegisters[0]
				}
				for i := range rl.TextRegisters {
					rl.TextRegisters[i] = rl.TextRegisters[len(rl.TextRegisters)-1]
				}
				for i := range rl.FieldListRegisters {
					rl.FieldListRegisters[i] = veregister.FieldListRegisterStruct{}
				}
			case 3: // append and filter through the library's own functions
				rl.AppendNumberRegisterStruct(rl.NumberRegisters...)
				rl.FilterByName("ProductId", "SerialNumber")
			case 4:
				rl.FilterRegister(func(veregister.Register) bool { return false })
			case 5: // append within capacity of the returned slices
				rl.NumberRegisters = append(rl.NumberRegisters[:1], rl.NumberRegisters[2:]...)
				rl.EnumRegisters = append(rl.EnumRegisters[:0], veregister.EnumRegisterStruct{})
			}
			for _, again := range []uint16{id, others[id]} {
				rl2, err := veregister.GetRegisterListByProduct(veproduct.Product(again))
				st := "ok"
				if err != nil {
					st = "err:" + errKind(err)
				}
				got := st + " " + renderList(rl2)
				op := fmt.Sprintf("SL %d mut:%d-on:%d", again, k, id)
				s.Line("reglist", op, got)
				if again == id && renderList(rl2) != orig {
					s.Violate(op, st, fmt.Sprintf("register list of product 0x%04X changed after a caller mutated (%d) an earlier result", id, k))
				}
			}
		}
	}
}

func firstKey(m map[int]string) int {
	ks := make([]int, 0, len(m))
	for k := range m {
		ks = append(ks, k)
	}
	sort.Ints(ks)
	if len(ks) == 0 {
		return 0
	}
	return ks[0]
}

// mutateTypedDecode mutates the map returned by the typed Decode() of a field-list value
// typedDecodeStr: the typed Decode() of a field list, rendered like the Fields() of suiteC15
func typedDecodeStr(v veconst.FieldList) string {
	m := map[int]bool{}
	switch t := v.(type) {
	case veconst.SolarOffReasons:
		for k, b := range t.Decode() {
			m[k.Idx()] = b
		}
	case veconst.InverterOffReasons:
		for k, b := range t.Decode() {
			m[k.Idx()] = b
		}
	case veconst.InverterWarningReasons:
		for k, b := range t.Decode() {
			m[k.Idx()] = b
		}
	default:
		return "unknown-field-list-type"
	}
	ks := make([]int, 0, len(m))
	for k := range m {
		ks = append(ks, k)
	}
	sort.Ints(ks)
	var parts []string
	for _, k := range ks {
		parts = append(parts, fmt.Sprintf("%d:%s", k, b01(m[k])))
	}
	return strings.Join(parts, ",")
}

func mutateTypedDecode(v veconst.FieldList) {
	switch t := v.(type) {
	case veconst.SolarOffReasons:
		m := t.Decode()
		m[veconst.SolarOffReasonPayGo] = true
		delete(m, veconst.SolarOffReasonLowTemp)
	case veconst.InverterOffReasons:
		m := t.Decode()
		for k := range m {
			m[k] = true
		}
	case veconst.InverterWarningReasons:
		m := t.Decode()
		for k := range m {
			delete(m, k)
		}
	}
}
