package main

import (
	"fmt"
	"os"
	"os/exec"
	"sort"
	"strings"
	"sync"
	"sync/atomic"

	"github.com/koestler/go-victron/veconst"
	"github.com/koestler/go-victron/veproduct"
	"github.com/koestler/go-victron/veregister"
)

// Cold-start probes: each probe is a complete sweep of ONE lookup function, run as the very first use of the library in
// a fresh process (`harness coldstart <probe>`); its digest must equal the digest the same sweep gives in this process,
// where the library has long been used. A lookup whose answer depends on which function happened to be called first
// (lazy initialisation that one accessor forgets) shows here and nowhere else.
func coldProbes() map[string]func() string {
	m := map[string]func() string{}
	prod := func(name string, f func(p veproduct.Product) string) {
		m["product."+name] = func() string {
			var sb strings.Builder
			for id := 0; id < 65536; id++ {
				if v := f(veproduct.Product(id)); v != "" {
					fmt.Fprintf(&sb, "%d=%s;", id, v)
				}
			}
			return fmt.Sprintf("%d:%016X", sb.Len(), fnv64([]byte(sb.String())))
		}
	}
	prod("Exists", func(p veproduct.Product) string { return map[bool]string{true: "1", false: ""}[p.Exists()] })
	prod("Model", func(p veproduct.Product) string { return p.Model() })
	prod("Type", func(p veproduct.Product) string {
		if p.Type() == 0 {
			return ""
		}
		return fmt.Sprint(int(p.Type()))
	})
	prod("String", func(p veproduct.Product) string { return p.String() })
	prod("MaxPanelVoltage", func(p veproduct.Product) string {
		if p.MaxPanelVoltage() == -1 {
			return ""
		}
		return fmt.Sprint(p.MaxPanelVoltage())
	})
	prod("MaxPanelCurrent", func(p veproduct.Product) string {
		if p.MaxPanelCurrent() == -1 {
			return ""
		}
		return fmt.Sprint(p.MaxPanelCurrent())
	})
	m["product.GetStringMap"] = func() string { return stringMapDigest(veproduct.GetStringMap()) }
	m["type.all"] = func() string {
		var sb strings.Builder
		for t := 0; t < 256; t++ {
			ty := veproduct.Type(t)
			fmt.Fprintf(&sb, "%d=%s/%v/%v/%v;", t, ty.String(), ty.IsBMV(), ty.IsSolar(), ty.IsInverter())
		}
		return fmt.Sprintf("%016X", fnv64([]byte(sb.String())))
	}
	for _, e := range enumFs() {
		e := e
		m["enum."+e.name+".NewEnum"] = func() string {
			var sb strings.Builder
			for v := -300; v <= 600; v++ {
				en, err := e.f.NewEnum(v)
				fmt.Fprintf(&sb, "%d=%s;", v, enumOut(en, err))
			}
			return fmt.Sprintf("%016X", fnv64([]byte(sb.String())))
		}
		m["enum."+e.name+".IntToStringMap"] = func() string { return intMapStr(e.f.IntToStringMap()) }
		m["enum."+e.name+".constant"] = func() string {
			// constants written down directly: index and name must be what the enumeration's map says, also when nothing of
			// the package was used before (the factory is asked only afterwards)
			var sb strings.Builder
			for b := 0; b < 256; b++ {
				idx, name := e.cast(uint8(b))
				fmt.Fprintf(&sb, "%d=%d/%s;", b, idx, hexS(name))
			}
			ref := e.f.IntToStringMap()
			for b := 0; b < 256; b++ {
				_, name := e.cast(uint8(b))
				if want, ok := ref[b]; ok && name != want {
					fmt.Fprintf(&sb, "MISMATCH-%d;", b)
				}
			}
			return fmt.Sprintf("%016X", fnv64([]byte(sb.String())))
		}
		m["enum."+e.name+".typed"] = func() string {
			var sb strings.Builder
			for b := 0; b < 256; b++ {
				idx, name, err := e.typed(uint8(b))
				fmt.Fprintf(&sb, "%d=%d/%s/%v;", b, idx, name, err != nil)
			}
			return fmt.Sprintf("%016X", fnv64([]byte(sb.String())))
		}
	}
	for _, fl := range flFs() {
		fl := fl
		m["fieldlist."+fl.name+".IntToStringMap"] = func() string { return intMapStr(fl.f.IntToStringMap()) }
		m["fieldlist."+fl.name+".Fields"] = func() string {
			var sb strings.Builder
			for _, raw := range fitUints(0, 1, 0x42, 0x200, 0xF63, 0xFFFF, 0xFFFFFFFF, 1<<40) {
				v, err := fl.f.NewFieldList(raw)
				if err != nil {
					fmt.Fprintf(&sb, "%d=err;", raw)
					continue
				}
				fmt.Fprintf(&sb, "%d=%s;", raw, fieldsStr(v.Fields()))
			}
			return sb.String()
		}
	}
	for _, id := range []uint16{0x203, 0xA381, 0xA389, 0xA056, 0xA053, 0xA05F, 0xA231, 0xA2B1, 0xA102, 0xA340, 0x1234} {
		id := id
		m[fmt.Sprintf("reglist.%04X", id)] = func() string {
			rl, err := veregister.GetRegisterListByProduct(veproduct.Product(id))
			st := "ok"
			if err != nil {
				st = "err:" + errKind(err)
			}
			return fmt.Sprintf("%s %016X", st, fnv64([]byte(renderList(rl))))
		}
	}
	for name, f := range map[string]func(*veregister.RegisterList){"AppendBmv": veregister.AppendBmv, "AppendSolar": veregister.AppendSolar, "AppendSolarLoadData": veregister.AppendSolarLoadData, "AppendInverter": veregister.AppendInverter} {
		f := f
		m["append."+name] = func() string {
			rl := veregister.NewRegisterList()
			f(&rl)
			return fmt.Sprintf("%016X", fnv64([]byte(renderList(rl))))
		}
	}
	// every known product (and some unknown ids) asked in an order that is neither ascending nor grouped by family, then again
	// in another order: what a product gets does not depend on who was asked before
	// the accessors of the product table asked for known products in an order that is not ascending, several rounds, in a fresh
	// process: every answer agrees with type + model and with the exported map, whoever was asked before
	m["product.any-order"] = func() string {
		var ids []int
		for id := 0; id < 65536; id++ {
			if veproduct.Product(id).Exists() {
				ids = append(ids, id)
			}
		}
		sm := veproduct.GetStringMap()
		bad := 0
		var sb strings.Builder
		for round := 0; round < 4; round++ {
			for k := range ids {
				id := ids[(k*7919+round*31)%len(ids)]
				if round == 3 {
					id = ids[len(ids)-1-k]
				}
				p := veproduct.Product(id)
				str := p.String()
				if str != p.Type().String()+" "+p.Model() || str != sm[p] {
					bad++
				}
				if round == 3 {
					fmt.Fprintf(&sb, "%d=%s/%d/%d;", id, str, p.MaxPanelVoltage(), p.MaxPanelCurrent())
				}
			}
		}
		return fmt.Sprintf("inconsistent=%d %016X", bad, fnv64([]byte(sb.String())))
	}
	m["reglist.any-order"] = func() string {
		var ids []int
		for id := 0; id < 65536; id++ {
			if veproduct.Product(id).Exists() || id%4099 == 7 {
				ids = append(ids, id)
			}
		}
		res := map[int]string{}
		ask := func(id int) string {
			rl, err := veregister.GetRegisterListByProduct(veproduct.Product(id))
			st := "ok"
			if err != nil {
				st = "err:" + errKind(err)
			}
			return fmt.Sprintf("%s %016X", st, fnv64([]byte(renderList(rl))))
		}
		bad := 0
		for round := 0; round < 3; round++ {
			for k := range ids {
				id := ids[(k*7919+round*31)%len(ids)] // 7919 is prime and larger than the table: a permutation
				if round == 2 {
					id = ids[len(ids)-1-k]
				}
				got := ask(id)
				if prev, ok := res[id]; ok && prev != got {
					bad++
				}
				res[id] = got
			}
		}
		var sb strings.Builder
		for _, id := range ids {
			fmt.Fprintf(&sb, "%d=%s;", id, res[id])
		}
		return fmt.Sprintf("changed-between-rounds=%d %016X", bad, fnv64([]byte(sb.String())))
	}
	_ = veconst.ErrInvalidEnumIdx
	addBleProbes(m)
	return m
}

// coldstartMain: `harness coldstart <probe>` - nothing of the library has been touched before the probe runs
func coldstartMain(name string) {
	f, ok := coldProbes()[name]
	if !ok {
		fmt.Println("unknown-probe")
		os.Exit(2)
	}
	out := "PANIC"
	func() {
		defer func() { recover() }()
		out = f()
	}()
	fmt.Println(out)
}

// suiteCold: run every probe with the given prefixes cold (fresh process) and warm (here), report differences
func suiteCold(s *Sink, prefixes ...string) {
	exe, _ := os.Executable()
	probes := coldProbes()
	var names []string
	for n := range probes {
		for _, p := range prefixes {
			if strings.HasPrefix(n, p) {
				names = append(names, n)
			}
		}
	}
	sort.Strings(names)
	type res struct{ cold, warm string }
	results := make([]res, len(names))
	var wg sync.WaitGroup
	sem := make(chan struct{}, 8)
	for i, n := range names {
		results[i].warm = probes[n]()
		wg.Add(1)
		go func(i int, n string) {
			defer wg.Done()
			sem <- struct{}{}
			defer func() { <-sem }()
			out, err := exec.Command(exe, "coldstart", n).Output()
			if err != nil {
				results[i].cold = "process-failed: " + err.Error()
				return
			}
			results[i].cold = strings.TrimSpace(string(out))
		}(i, n)
	}
	wg.Wait()
	for i, n := range names {
		op := "CS " + n
		s.Line("cold-start", op, results[i].cold)
		if results[i].cold != results[i].warm {
			s.Violate(op, results[i].cold, fmt.Sprintf("%s gives a different answer as the very first use of the library in a process (%s) than later on (%s)", n, results[i].cold[:min(60, len(results[i].cold))], results[i].warm[:min(60, len(results[i].warm))]))
		}
	}
}

// concurrently: `workers` goroutines each evaluate f(i) for every i in [0,n) `rounds` times (in different orders) and compare
// with the sequential reference; returns the first disagreement per worker
func concurrently(workers, rounds, n int, f func(i int) string) (bad []string) {
	ref := make([]string, n)
	for i := range ref {
		ref[i] = f(i)
	}
	out := make(chan string, workers)
	for g := 0; g < workers; g++ {
		go func(g int) {
			defer func() {
				if r := recover(); r != nil {
					out <- fmt.Sprintf("panic: %v", r)
				}
			}()
			for r := 0; r < rounds; r++ {
				for j := 0; j < n; j++ {
					i := (j*(2*g+1) + r + g) % n
					if got := f(i); got != ref[i] {
						out <- fmt.Sprintf("item %d: concurrently %q, alone %q", i, got[:min(120, len(got))], ref[i][:min(120, len(ref[i]))])
						return
					}
				}
			}
			out <- ""
		}(g)
	}
	for g := 0; g < workers; g++ {
		if b := <-out; b != "" {
			bad = append(bad, b)
		}
	}
	return bad
}

// ---------- cold start AND concurrency: the first uses of the library happen on several goroutines at once ----------

// coldstartConcurrentMain: `harness coldstartc <probe> <workers>` - `workers` goroutines are released together and each runs the
// probe as its first action; prints the digest if all agree, else the disagreement
func coldstartConcurrentMain(name string, workers int) {
	f, ok := coldProbes()[name]
	if !ok {
		fmt.Println("unknown-probe")
		os.Exit(2)
	}
	outs := make([]string, workers)
	var ready, done sync.WaitGroup
	var gate int32
	ready.Add(workers)
	done.Add(workers)
	for g := 0; g < workers; g++ {
		go func(g int) {
			defer done.Done()
			outs[g] = "PANIC"
			defer func() {
				if r := recover(); r != nil {
					outs[g] = fmt.Sprintf("PANIC: %v", r)
				}
			}()
			ready.Done()
			for atomic.LoadInt32(&gate) == 0 { // spin: all start within the same microsecond
			}
			outs[g] = f()
		}(g)
	}
	ready.Wait()
	atomic.StoreInt32(&gate, 1)
	done.Wait()
	for g := 1; g < workers; g++ {
		if outs[g] != outs[0] {
			fmt.Printf("goroutines-disagree: %s | %s\n", outs[0][:min(80, len(outs[0]))], outs[g][:min(80, len(outs[g]))])
			return
		}
	}
	// and once more now that everything is warm: a first use that went wrong may have left the tables damaged for good
	if again := f(); again != outs[0] {
		fmt.Printf("after-warm-up-differs: %s | %s\n", outs[0][:min(80, len(outs[0]))], again[:min(80, len(again))])
		return
	}
	fmt.Println(outs[0])
}

// suiteColdMany: every probe with the given prefixes in `restarts` fresh processes single-threaded (what a lookup answers must
// not depend on the process: map iteration order at init, address-space layout) and in `crestarts` fresh processes with 16
// goroutines making the first use at once; every answer must equal the warm one
func suiteColdMany(s *Sink, restarts, crestarts int, prefixes ...string) {
	exe, _ := os.Executable()
	probes := coldProbes()
	var names []string
	for n := range probes {
		for _, p := range prefixes {
			if strings.HasPrefix(n, p) {
				names = append(names, n)
			}
		}
	}
	sort.Strings(names)
	type job struct {
		name string
		conc bool
	}
	type bad struct {
		job
		out string
	}
	warm := map[string]string{}
	var jobs []job
	for _, n := range names {
		warm[n] = probes[n]()
		for i := 0; i < restarts; i++ {
			jobs = append(jobs, job{n, false})
		}
		for i := 0; i < crestarts; i++ {
			jobs = append(jobs, job{n, true})
		}
	}
	ch := make(chan job)
	res := make(chan bad, len(jobs))
	var wg sync.WaitGroup
	for w := 0; w < 12; w++ {
		wg.Add(1)
		go func() {
			defer wg.Done()
			for j := range ch {
				var out []byte
				var err error
				if j.conc {
					out, err = exec.Command(exe, "coldstartc", j.name, "16").Output()
				} else {
					out, err = exec.Command(exe, "coldstart", j.name).Output()
				}
				o := strings.TrimSpace(string(out))
				if err != nil {
					o = "process-failed: " + err.Error() + " " + o
				}
				if o != warm[j.name] {
					res <- bad{j, o}
				}
			}
		}()
	}
	for _, j := range jobs {
		ch <- j
	}
	close(ch)
	wg.Wait()
	close(res)
	seen := map[string]int{}
	for b := range res {
		key := b.name + map[bool]string{false: "", true: " (16 goroutines at once)"}[b.conc]
		seen[key]++
		if seen[key] == 1 {
			s.Violate("CM "+key, b.out[:min(200, len(b.out))], fmt.Sprintf("%s as the first use of the library in a fresh process gives %s; the same sweep later (and in the other processes) gives %s", key, b.out[:min(100, len(b.out))], warm[b.name][:min(60, len(warm[b.name]))]))
		}
	}
	s.Extra["fresh_process_runs"] += restarts * len(names)
	s.Extra["fresh_process_concurrent_first_use_runs"] += crestarts * len(names)
}

// addBleProbes: every record decoder on a few fixed inputs (first use of bleparser and of the enumerations behind it)
func addBleProbes(m map[string]func() string) {
	for _, d := range bleDecoders() {
		d := d
		m["ble."+d.name] = func() string {
			var sb strings.Builder
			for k := 0; k < 6; k++ {
				inp := make([]byte, d.n+k%3)
				for i := range inp {
					inp[i] = byte(i*37 + k*11)
					if k == 1 {
						inp[i] = 0xFF
					}
				}
				for _, f := range d.fields {
					if f.enum {
						setBits(inp, f.start, f.width, uint64(validEnumByte[k%len(validEnumByte)]))
					}
				}
				sb.WriteString(decodeReal(d, inp, nil))
				sb.WriteByte('|')
			}
			return fmt.Sprintf("%016X", fnv64([]byte(sb.String())))
		}
	}
}
