package main

import (
	"fmt"
	"os"
	"os/exec"
	"sort"
	"strings"
	"sync"

	"github.com/koestler/go-victron/veconst"
	"github.com/koestler/go-victron/veproduct"
	"github.com/koestler/go-victron/veregister"
)

// Cold-start probes: each probe is a complete sweep of ONE lookup function, run as the very first use of the library in
// a fresh process (`harness coldstart <probe>`); its digest must equal the digest the same sweep gives in this process,
// where the library has long been used. A lookup whose answer depends on which function happened to be called first
// (lazy initialisation that one accessor forgets) shows here and nowhere else.
func coldProbes() map[string]func() string {
	m := map[string]func() string{}
	prod := func(name string, f func(p veproduct.Product) string) {
		m["product."+name] = func() string {
			var sb strings.Builder
			for id := 0; id < 65536; id++ {
				if v := f(veproduct.Product(id)); v != "" {
					fmt.Fprintf(&sb, "%d=%s;", id, v)
				}
			}
			return fmt.Sprintf("%d:%016X", sb.Len(), fnv64([]byte(sb.String())))
		}
	}
	prod("Exists", func(p veproduct.Product) string { return map[bool]string{true: "1", false: ""}[p.Exists()] })
	prod("Model", func(p veproduct.Product) string { return p.Model() })
	prod("Type", func(p veproduct.Product) string {
		if p.Type() == 0 {
			return ""
		}
		return fmt.Sprint(int(p.Type()))
	})
	prod("String", func(p veproduct.Product) string { return p.String() })
	prod("MaxPanelVoltage", func(p veproduct.Product) string {
		if p.MaxPanelVoltage() == -1 {
			return ""
		}
		return fmt.Sprint(p.MaxPanelVoltage())
	})
	prod("MaxPanelCurrent", func(p veproduct.Product) string {
		if p.MaxPanelCurrent() == -1 {
			return ""
		}
		return fmt.Sprint(p.MaxPanelCurrent())
	})
	m["product.GetStringMap"] = func() string { return stringMapDigest(veproduct.GetStringMap()) }
	m["type.all"] = func() string {
		var sb strings.Builder
		for t := 0; t < 256; t++ {
			ty := veproduct.Type(t)
			fmt.Fprintf(&sb, "%d=%s/%v/%v/%v;", t, ty.String(), ty.IsBMV(), ty.IsSolar(), ty.IsInverter())
		}
		return fmt.Sprintf("%016X", fnv64([]byte(sb.String())))
	}
	for _, e := range enumFs() {
		e := e
		m["enum."+e.name+".NewEnum"] = func() string {
			var sb strings.Builder
			for v := -300; v <= 600; v++ {
				en, err := e.f.NewEnum(v)
				fmt.Fprintf(&sb, "%d=%s;", v, enumOut(en, err))
			}
			return fmt.Sprintf("%016X", fnv64([]byte(sb.String())))
		}
		m["enum."+e.name+".IntToStringMap"] = func() string { return intMapStr(e.f.IntToStringMap()) }
		m["enum."+e.name+".typed"] = func() string {
			var sb strings.Builder
			for b := 0; b < 256; b++ {
				idx, name, err := e.typed(uint8(b))
				fmt.Fprintf(&sb, "%d=%d/%s/%v;", b, idx, name, err != nil)
			}
			return fmt.Sprintf("%016X", fnv64([]byte(sb.String())))
		}
	}
	for _, fl := range flFs() {
		fl := fl
		m["fieldlist."+fl.name+".IntToStringMap"] = func() string { return intMapStr(fl.f.IntToStringMap()) }
		m["fieldlist."+fl.name+".Fields"] = func() string {
			var sb strings.Builder
			for _, raw := range []uint{0, 1, 0x42, 0x200, 0xF63, 0xFFFF, 0xFFFFFFFF, 1 << 40} {
				v, err := fl.f.NewFieldList(raw)
				if err != nil {
					fmt.Fprintf(&sb, "%d=err;", raw)
					continue
				}
				fmt.Fprintf(&sb, "%d=%s;", raw, fieldsStr(v.Fields()))
			}
			return sb.String()
		}
	}
	for _, id := range []uint16{0x203, 0xA381, 0xA389, 0xA056, 0xA053, 0xA05F, 0xA231, 0xA2B1, 0xA102, 0xA340, 0x1234} {
		id := id
		m[fmt.Sprintf("reglist.%04X", id)] = func() string {
			rl, err := veregister.GetRegisterListByProduct(veproduct.Product(id))
			st := "ok"
			if err != nil {
				st = "err:" + errKind(err)
			}
			return fmt.Sprintf("%s %016X", st, fnv64([]byte(renderList(rl))))
		}
	}
	for name, f := range map[string]func(*veregister.RegisterList){"AppendBmv": veregister.AppendBmv, "AppendSolar": veregister.AppendSolar, "AppendSolarLoadData": veregister.AppendSolarLoadData, "AppendInverter": veregister.AppendInverter} {
		f := f
		m["append."+name] = func() string {
			rl := veregister.NewRegisterList()
			f(&rl)
			return fmt.Sprintf("%016X", fnv64([]byte(renderList(rl))))
		}
	}
	_ = veconst.ErrInvalidEnumIdx
	return m
}

// coldstartMain: `harness coldstart <probe>` - nothing of the library has been touched before the probe runs
func coldstartMain(name string) {
	f, ok := coldProbes()[name]
	if !ok {
		fmt.Println("unknown-probe")
		os.Exit(2)
	}
	out := "PANIC"
	func() {
		defer func() { recover() }()
		out = f()
	}()
	fmt.Println(out)
}

// suiteCold: run every probe with the given prefixes cold (fresh process) and warm (here), report differences
func suiteCold(s *Sink, prefixes ...string) {
	exe, _ := os.Executable()
	probes := coldProbes()
	var names []string
	for n := range probes {
		for _, p := range prefixes {
			if strings.HasPrefix(n, p) {
				names = append(names, n)
			}
		}
	}
	sort.Strings(names)
	type res struct{ cold, warm string }
	results := make([]res, len(names))
	var wg sync.WaitGroup
	sem := make(chan struct{}, 8)
	for i, n := range names {
		results[i].warm = probes[n]()
		wg.Add(1)
		go func(i int, n string) {
			defer wg.Done()
			sem <- struct{}{}
			defer func() { <-sem }()
			out, err := exec.Command(exe, "coldstart", n).Output()
			if err != nil {
				results[i].cold = "process-failed: " + err.Error()
				return
			}
			results[i].cold = strings.TrimSpace(string(out))
		}(i, n)
	}
	wg.Wait()
	for i, n := range names {
		op := "CS " + n
		s.Line("cold-start", op, results[i].cold)
		if results[i].cold != results[i].warm {
			s.Violate(op, results[i].cold, fmt.Sprintf("%s gives a different answer as the very first use of the library in a process (%s) than later on (%s)", n, results[i].cold[:min(60, len(results[i].cold))], results[i].warm[:min(60, len(results[i].warm))]))
		}
	}
}

// concurrently: `workers` goroutines each evaluate f(i) for every i in [0,n) `rounds` times (in different orders) and compare
// with the sequential reference; returns the first disagreement per worker
func concurrently(workers, rounds, n int, f func(i int) string) (bad []string) {
	ref := make([]string, n)
	for i := range ref {
		ref[i] = f(i)
	}
	out := make(chan string, workers)
	for g := 0; g < workers; g++ {
		go func(g int) {
			defer func() {
				if r := recover(); r != nil {
					out <- fmt.Sprintf("panic: %v", r)
				}
			}()
			for r := 0; r < rounds; r++ {
				for j := 0; j < n; j++ {
					i := (j*(2*g+1) + r + g) % n
					if got := f(i); got != ref[i] {
						out <- fmt.Sprintf("item %d: concurrently %q, alone %q", i, got[:min(120, len(got))], ref[i][:min(120, len(ref[i]))])
						return
					}
				}
			}
			out <- ""
		}(g)
	}
	for g := 0; g < workers; g++ {
		if b := <-out; b != "" {
			bad = append(bad, b)
		}
	}
	return bad
}
