package main

import (
	"context"

	"github.com/koestler/go-victron/vedirect"
	"github.com/koestler/go-victron/vedirectapi"
	"github.com/koestler/go-victron/veregister"
)

func runOtherSuite(suite string, rng *Rng, thorough bool, s *Sink) bool {
	switch suite {
	case "c12":
		suiteC12(s)
	case "c13":
		suiteC13(s)
	case "c14":
		suiteC14(rng, thorough, s)
	case "c15":
		suiteC15(rng, thorough, s)
	case "c16":
		suiteC16(rng, thorough, s)
	case "c17":
		suiteC17(rng, thorough, s)
	case "c12cold":
		suiteCold(s, "reglist.", "append.")
	case "c13cold":
		suiteCold(s, "product.", "type.")
	case "c14cold":
		suiteCold(s, "enum.")
	case "c15cold":
		suiteCold(s, "fieldlist.")
	default:
		return runApiSuite(suite, rng, thorough, s)
	}
	return true
}

// connectApi: a RegisterApi on a reactive device of the given product
func connectApi(dev *DevPort) (*vedirectapi.RegisterApi, error) {
	return vedirectapi.NewRegisterApi(dev, vedirect.Config{})
}

// fieldListValueVia reads one field-list register through the public API and returns the FieldListValue
// the stream handler receives.
func fieldListValueVia(reg veregister.FieldListRegisterStruct, payload []byte) (val vedirectapi.FieldListValue, err error) {
	dev := NewDevPort(0xA231)
	dev.Regs[reg.Address()] = DevAnswer{0, payload}
	api, err := connectApi(dev)
	if err != nil {
		return val, err
	}
	rl := veregister.RegisterList{FieldListRegisters: []veregister.FieldListRegisterStruct{reg}}
	err = api.StreamRegisterList(context.Background(), rl, vedirectapi.ValueHandler{FieldList: func(v vedirectapi.FieldListValue) { val = v }})
	return
}
