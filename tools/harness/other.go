package main

import (
	"context"

	"github.com/koestler/go-victron/vedirect"
	"github.com/koestler/go-victron/vedirectapi"
	"github.com/koestler/go-victron/veregister"
)

func runOtherSuite(suite string, rng *Rng, thorough bool, s *Sink) bool {
	switch suite {
	case "c12":
		suiteC12(s)
	case "c13":
		suiteC13(s)
	case "c14":
		suiteC14(rng, thorough, s)
	case "c15":
		suiteC15(rng, thorough, s)
	case "c16":
		suiteC16(rng, thorough, s)
	case "c17":
		suiteC17(rng, thorough, s)
	case "c12cold":
		suiteCold(s, "reglist.", "append.")
		suiteColdMany(s, pick(thorough, 20, 4), pick(thorough, 40, 10), "reglist.", "append.")
	case "c13cold":
		suiteCold(s, "product.", "type.")
		suiteColdMany(s, pick(thorough, 1000, 200), pick(thorough, 150, 40), "product.", "type.")
	case "c14cold":
		suiteCold(s, "enum.")
		suiteColdMany(s, pick(thorough, 10, 2), pick(thorough, 40, 10), "enum.")
	case "c15cold":
		suiteCold(s, "fieldlist.")
		suiteColdMany(s, pick(thorough, 40, 10), pick(thorough, 300, 80), "fieldlist.")
	case "c08cold":
		suiteCold(s, "ble.")
		suiteColdMany(s, pick(thorough, 10, 2), pick(thorough, 100, 25), "ble.")
	default:
		return runApiSuite(suite, rng, thorough, s)
	}
	return true
}

func pick(thorough bool, a, b int) int {
	if thorough {
		return a
	}
	return b
}

// connectApi: a RegisterApi on a reactive device of the given product
func connectApi(dev *DevPort) (*vedirectapi.RegisterApi, error) {
	return vedirectapi.NewRegisterApi(dev, vedirect.Config{})
}

// fieldListValueVia reads one field-list register through the public API and returns the FieldListValue
// the stream handler receives.
func fieldListValueVia(reg veregister.FieldListRegisterStruct, payload []byte) (val vedirectapi.FieldListValue, err error) {
	dev := NewDevPort(0xA231)
	dev.Regs[reg.Address()] = DevAnswer{0, payload}
	api, err := connectApi(dev)
	if err != nil {
		return val, err
	}
	rl := veregister.RegisterList{FieldListRegisters: []veregister.FieldListRegisterStruct{reg}}
	err = api.StreamRegisterList(context.Background(), rl, vedirectapi.ValueHandler{FieldList: func(v vedirectapi.FieldListValue) { val = v }})
	return
}
