package main

func runOtherSuite(suite string, rng *Rng, thorough bool, s *Sink) bool {
	return false
}
