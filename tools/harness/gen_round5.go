package main

import (
	"fmt"
	"io"

	"github.com/koestler/go-victron/vedirect"
)

// ---------- complete frames a healthy line can deliver in front of the awaited answer ----------

// staleUnits: well-formed, check-byte-valid frames that a Get for addr must not use: responses for registers that share
// the low byte, the high byte or nothing with addr (with and without an error flag), and valid responses of every other type
// (Done, Unknown, Error ":4AAAAFD", Ping, Set, the unassigned ones).
func staleUnits(addr uint16, rng *Rng) (units [][]byte, tags []string) {
	add := func(t string, f []byte) { units = append(units, f); tags = append(tags, t) }
	for _, x := range []uint16{0x0001, 0x0002, 0x0100, 0x8000, 0x0101, 0xFFFF} {
		o := addr ^ x
		share := "none"
		if byte(o) == byte(addr) {
			share = "lo"
		} else if byte(o>>8) == byte(addr>>8) {
			share = "hi"
		}
		for _, fl := range []byte{0, 1, 2, 4} {
			add(fmt.Sprintf("foreign-share-%s-flag%d", share, fl), simGet(o, fl, rng.Bytes(1+rng.Intn(4))))
		}
	}
	add("type-done", simFrame(1, []byte{0x53, 0xA0}))
	add("type-unknown", simFrame(3, []byte{0x07, 0x00}))
	add("type-error", simFrame(4, []byte{0xAA, 0xAA}))
	add("type-ping", simFrame(5, []byte{0x16, 0x41}))
	add("type-set", simFrame(8, []byte{byte(addr), byte(addr >> 8), 0, 1, 2}))
	for _, n := range []byte{0, 2, 6, 9, 0xB, 0xC, 0xD, 0xE, 0xF} {
		add(fmt.Sprintf("type-%X", n), simFrame(n, []byte{byte(addr), byte(addr >> 8), 0, 7}))
	}
	return
}

// genStale: the awaited answer (a value, or a device error) behind one, two or three such frames - delivered one per attempt, or
// all at once in front of the answer (several late answers queued up). Expectations come from the reference consumption.
func genStale(prefix string, rng *Rng, errorFlags bool, emit func(*Scenario)) {
	for _, addr := range []uint16{0xEDF0, 0x0100, uint16(rng.U64())} {
		units, tags := staleUnits(addr, rng)
		val := rng.Bytes([]int{1, 2, 4}[rng.Intn(3)])
		for i, u := range units {
			flags := []byte{0}
			if errorFlags {
				flags = []byte{1, 2, 4}
			}
			for _, fl := range flags {
				ans := simGet(addr, fl, val)
				kind := getKinds[(i+int(fl))%4]
				u2 := units[rng.Intn(len(units))]
				u3 := units[rng.Intn(len(units))]
				scripts := [][][][]byte{
					{one(u), one(ans)},            // one per attempt
					{{u, ans}},                    // queued in front of the answer
					{{u, u2, ans}},                // two late answers
					{{u}, {u2, u3, ans}},          // mixed
					{nil, {u, u2}, nil, one(ans)}, // with silences in between
				}
				for si, rep := range scripts {
					sc := getScenario(fmt.Sprintf("%s-%s-s%d", prefix, tags[i], si), kind, addr, rep)
					_, n := refGet(addr, rep)
					sc.ExactWrites = []int{n}
					emit(sc)
				}
			}
		}
	}
}

// genRepetition: the same call many times on one object - a counter, a cache or a back-off table behind the call shows at
// the ninth, the 65th or the hundredth repetition, not at the second
func genRepetition(rng *Rng, emit func(*Scenario)) {
	for _, kind := range getKinds {
		a := uint16(rng.U64())
		// 20 unanswered reads in a row
		sc := &Scenario{Tag: "repetition-unanswered", MaxWritesPerCall: 8}
		for i := 0; i < 20; i++ {
			sc.Calls = append(sc.Calls, Call{Kind: kind, Addr: a, Want: "err:other"})
			sc.ExactWrites = append(sc.ExactWrites, 8)
		}
		emit(sc)
		// 40 answered reads in a row, then unanswered ones, then answered again
		sc = &Scenario{Tag: "repetition-mixed", MaxWritesPerCall: 8}
		for i := 0; i < 70; i++ {
			if i < 40 || i >= 52 {
				v := []byte{byte(i), 0}
				sc.Replies = append(sc.Replies, one(simGet(a, 0, v)))
				sc.Calls = append(sc.Calls, Call{Kind: kind, Addr: a, Want: typedWant(kind, "ok:"+HEX(v))})
				sc.ExactWrites = append(sc.ExactWrites, 1)
			} else {
				for k := 0; k < 8; k++ {
					sc.Replies = append(sc.Replies, nil)
				}
				sc.Calls = append(sc.Calls, Call{Kind: kind, Addr: a, Want: "err:other"})
				sc.ExactWrites = append(sc.ExactWrites, 8)
			}
		}
		emit(sc)
	}
	// ping and device id: 30 times each, answered and not
	sc := &Scenario{Tag: "repetition-ping-devid", MaxWritesPerCall: 1}
	for i := 0; i < 30; i++ {
		if i%3 != 2 {
			sc.Replies = append(sc.Replies, one(simFrame(5, []byte{0x16, 0x41})), one(simFrame(1, []byte{byte(i), 0xA0})))
			sc.Calls = append(sc.Calls, Call{Kind: "ping", Want: "ok:"}, Call{Kind: "devid", Want: fmt.Sprintf("ok:%d", 0xA000+i)})
		} else {
			sc.Replies = append(sc.Replies, nil, nil)
			sc.Calls = append(sc.Calls, Call{Kind: "ping", Want: "err:other"}, Call{Kind: "devid", Want: "err:other"})
		}
	}
	emit(sc)
}

// genManyAddresses: more distinct registers on one object than any table of today holds (200), each read once, then all of
// them again in another order: every read is answered by what the device holds for *that* register now
func genManyAddresses(rng *Rng, emit func(*Scenario)) {
	for _, kind := range []string{"uint", "raw"} {
		base := uint16(rng.U64())
		var addrs []uint16
		for i := 0; i < 200; i++ {
			addrs = append(addrs, base+uint16(i)*7)
		}
		sc := &Scenario{Tag: "many-addresses", MaxWritesPerCall: 1}
		order := append(append([]uint16(nil), addrs...), addrs...)
		for i := len(addrs); i < len(order); i++ { // shuffle the second pass
			j := len(addrs) + rng.Intn(i-len(addrs)+1)
			order[i], order[j] = order[j], order[i]
		}
		for i, a := range order {
			v := []byte{byte(a), byte(a >> 8), byte(i)}
			sc.Replies = append(sc.Replies, one(simGet(a, 0, v)))
			sc.Calls = append(sc.Calls, Call{Kind: kind, Addr: a, Want: typedWant(kind, "ok:"+HEX(v))})
			sc.ExactWrites = append(sc.ExactWrites, 1)
		}
		emit(sc)
	}
}

// genSlowSilence: a silent device whose every read takes the serial default timeout (200 ms); the answer comes at attempt k
// <= 8 all the same (wall-clock budgets do not replace the eight attempts)
func genSlowSilence(rng *Rng, thorough bool, emit func(*Scenario)) {
	ks := []int{8}
	if thorough {
		ks = []int{6, 7, 8}
	}
	for _, k := range ks {
		a := uint16(rng.U64())
		v := []byte{0x2A, 0x00}
		sc := &Scenario{Tag: "slow-silence", RDelay: map[int]int{}, MaxWritesPerCall: 8, ExactWrites: []int{k}}
		for i := 0; i < k-1; i++ {
			sc.Replies = append(sc.Replies, nil)
			sc.RDelay[i] = 200
		}
		sc.Replies = append(sc.Replies, one(simGet(a, 0, v)))
		sc.Calls = []Call{{Kind: "uint", Addr: a, Want: "ok:42"}}
		emit(sc)
	}
}

// genLongIdle: seconds, not milliseconds, between two calls on one object (a device that fell back to the text protocol, a
// poller with a long period): still one frame per attempt, and the answer of *this* call
func genLongIdle(rng *Rng, emit func(*Scenario)) {
	a := uint16(rng.U64())
	sc := &Scenario{Tag: "long-idle", MaxWritesPerCall: 1, ExactWrites: []int{1, 1, 1, 1},
		Replies: [][][]byte{one(simFrame(5, []byte{0x16, 0x41})), one(simGet(a, 0, []byte{1, 0})), one(simFrame(1, []byte{0x53, 0xA0})), one(simGet(a, 0, []byte{2, 0}))},
		Calls:   []Call{{Kind: "ping", Want: "ok:"}, {Kind: "uint", Addr: a, Want: "ok:1", SleepMs: 3300}, {Kind: "devid", Want: "ok:41043"}, {Kind: "uint", Addr: a, Want: "ok:2", SleepMs: 1200}}}
	emit(sc)
}

// ---------- one object, every address, twice (oracle only) ----------

type lastWritePort struct {
	last [][]byte
}

func (p *lastWritePort) Write(b []byte) (int, error) {
	p.last = append(p.last, append([]byte(nil), b...))
	return len(b), nil
}
func (p *lastWritePort) Read(b []byte) (int, error) { return 0, io.EOF }
func (p *lastWritePort) Flush() error               { return nil }
func (p *lastWritePort) Close() error               { return nil }

// oneObjectSweep: all 65536 Get addresses through ONE driver object, then a second pass over a part of them: the frame
// written for address a carries a, whatever was asked before
func oneObjectSweep(rng *Rng, s *Sink) {
	p := &lastWritePort{}
	vd, err := vedirect.NewVedirect(p, vedirect.Config{})
	if err != nil {
		return
	}
	n := 0
	ask := func(a uint16, pass int) {
		p.last = p.last[:0]
		func() {
			defer func() {
				if r := recover(); r != nil {
					s.Violate(fmt.Sprintf("one-object sweep pass %d Get %04X", pass, a), "PANIC", "a Get on an object that has already asked many registers panics")
				}
			}()
			vd.VeCommand(vedirect.VeCommandGet, a)
		}()
		n++
		if len(p.last) != 1 {
			s.Violate(fmt.Sprintf("one-object sweep pass %d Get %04X", pass, a), fmt.Sprintf("%d writes", len(p.last)), "one attempt must hand exactly one frame to the port")
			return
		}
		if msg := wellFormedTx(p.last[0]); msg != "" {
			s.Violate(fmt.Sprintf("one-object sweep pass %d Get %04X", pass, a), HEX(p.last[0]), msg)
		}
		if msg := txPayloadOracle(7, a, p.last[0]); msg != "" {
			s.Violate(fmt.Sprintf("one-object sweep pass %d Get %04X", pass, a), HEX(p.last[0]), msg+" (the object had asked other registers before)")
		}
	}
	for a := 0; a < 65536; a++ {
		ask(uint16(a), 1)
	}
	for a := 0; a < 65536; a += 1 + rng.Intn(16) {
		ask(uint16(a), 2)
	}
	for i := 0; i < 2000; i++ {
		ask(uint16(rng.U64()), 3)
	}
	s.Extra["one_object_sweep_gets"] += n
}

// ---------- values handed out earlier, looked at again after *other objects* worked ----------

var crossKept [][]byte
var crossCopy []string

func crossKeep(vs [][]byte) {
	for _, v := range vs {
		if len(v) == 0 {
			continue
		}
		crossKept = append(crossKept, v)
		crossCopy = append(crossCopy, string(v))
	}
	if len(crossKept) > 256 {
		crossKept, crossCopy = crossKept[len(crossKept)-256:], crossCopy[len(crossCopy)-256:]
	}
}

func crossCheck() (msgs []string) {
	for i := range crossKept {
		if string(crossKept[i]) != crossCopy[i] {
			msgs = append(msgs, fmt.Sprintf("a value %X returned by another driver object earlier was altered to %X by this object's calls", crossCopy[i], crossKept[i]))
			crossCopy[i] = string(crossKept[i])
		}
	}
	return
}

// genRawHistory: raw values of several registers read one after the other on one object and kept by the caller: each stays
// what it was when it was returned (RunScenario re-compares every kept slice at the end, and again after later scenarios)
func genRawHistory(rng *Rng, emit func(*Scenario)) {
	for i := 0; i < 12; i++ {
		sc := &Scenario{Tag: "c01-raw-history", MaxWritesPerCall: 1}
		base := uint16(rng.U64())
		for k := 0; k < 3+rng.Intn(4); k++ {
			a := base + uint16(k)*2
			v := rng.Bytes([]int{1, 2, 2, 4, 9}[rng.Intn(5)])
			kind := "raw"
			c := Call{Kind: kind, Addr: a, Want: "ok:" + HEX(v)}
			if rng.Intn(4) == 0 {
				c = Call{Kind: "cmd", Cmd: 7, Addr: a}
			}
			sc.Calls = append(sc.Calls, c)
			sc.Replies = append(sc.Replies, one(simGet(a, 0, v)))
		}
		emit(sc)
	}
}

// genTrailing: the device sends an asynchronous frame right BEHIND its answer, in the same chunk (a BMV does that every
// second): the answer - a value or a refusal - is the answer, one command frame; the async frame is the next call's noise
func genTrailing(prefix string, rng *Rng, emit func(*Scenario)) {
	for _, addr := range []uint16{0xEDF0, 0x0100, uint16(rng.U64())} {
		async := simFrame(0xA, []byte{byte(addr), byte(addr >> 8), 0, 0x2A, 0x00})
		for _, fl := range []byte{0, 1, 2, 4} {
			val := rng.Bytes(2)
			ans := simGet(addr, fl, val)
			for ki, kind := range getKinds {
				one1 := append(append([]byte(nil), ans...), async...)
				two := append(append(append([]byte(nil), ans...), async...), async...)
				for si, rep := range [][][][]byte{{{one1}, {one1}}, {{ans, async}, {ans}}, {{two}, {two}, {two}}, {{async, one1}}} {
					sc := getScenario(fmt.Sprintf("%s-async-behind-answer-flag%d-s%d", prefix, fl, si), kind, addr, rep)
					sc.ExactWrites = []int{1}
					sc.MaxWritesPerCall = 1
					// a second call right away: it skips what the first one left behind
					ref2, _ := refGet(addr, rep[1:])
					_ = ref2
					if len(rep) > 1 && ki%2 == 0 {
						sc.Calls = append(sc.Calls, Call{Kind: kind, Addr: addr, Want: sc.Calls[0].Want})
						sc.ExactWrites = append(sc.ExactWrites, 1)
					}
					emit(sc)
				}
			}
		}
	}
}

// genAppears: a register the device refused (unknown id, not supported) holds a value later - after a firmware update on an
// open port, a paired sensor, a device that was still booting - and the other way round: each read is answered by what the
// device says NOW, on the same driver object
func genAppears(rng *Rng, emit func(*Scenario)) {
	kinds := map[byte]string{1: "err:unknown-id", 2: "err:not-supported", 4: "err:parameter-error"}
	for _, addr := range []uint16{0xEDF0, 0x0100, 0x2030, uint16(rng.U64())} {
		for _, fl := range []byte{1, 2, 4} {
			for _, kind := range getKinds {
				v1, v2 := rng.Bytes(2), rng.Bytes(2)
				sc := &Scenario{Tag: "register-appears-later", MaxWritesPerCall: 1, ExactWrites: []int{1, 1, 1, 1, 1, 1},
					Replies: [][][]byte{one(simGet(addr, fl, nil)), one(simGet(addr, fl, nil)), one(simGet(addr, 0, v1)), one(simGet(addr, fl, nil)), one(simGet(addr, 0, v2)), one(simGet(addr, 0, v2))},
					Calls: []Call{{Kind: kind, Addr: addr, Want: kinds[fl]}, {Kind: kind, Addr: addr, Want: kinds[fl]}, {Kind: kind, Addr: addr, Want: typedWant(kind, "ok:"+HEX(v1))},
						{Kind: kind, Addr: addr, Want: kinds[fl]}, {Kind: kind, Addr: addr, Want: typedWant(kind, "ok:"+HEX(v2))}, {Kind: kind, Addr: addr, Want: typedWant(kind, "ok:"+HEX(v2))}}}
				emit(sc)
			}
		}
	}
}

// genSteadyTraffic: a line on which every exchange takes 30 ms (19200 baud) and calls follow each other without a pause: no
// gap ever reaches 100 ms although the exchanges add up to much more, so nothing pending is ever dropped - a late answer in
// front of the awaited one costs one more attempt and no more
func genSteadyTraffic(rng *Rng, emit func(*Scenario)) {
	addr := uint16(rng.U64())
	sc := &Scenario{Tag: "steady-traffic-30ms-per-exchange", RDelay: map[int]int{}, MaxWritesPerCall: 8}
	read := 0
	for i := 0; i < 14; i++ {
		a := addr + uint16(i)
		v := []byte{byte(i), 0x10}
		foreign := simGet(a^0x0100, 0, []byte{9})
		sc.Replies = append(sc.Replies, [][]byte{foreign, simGet(a, 0, v)}, nil)
		sc.RDelay[read] = 30 // the first read of the call waits for the device
		read += 2            // attempt 1 reads the late answer, attempt 2 the awaited one (both in the buffer after one Read each)
		sc.Calls = append(sc.Calls, Call{Kind: "uint", Addr: a, Want: typedWant("uint", "ok:"+HEX(v))})
		sc.ExactWrites = append(sc.ExactWrites, 2)
	}
	emit(sc)
}
