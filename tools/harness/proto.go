package main

import (
	"encoding/hex"
	"errors"
	"fmt"
	"strconv"
	"strings"
	"time"

	"github.com/koestler/go-victron/vedirect"
)

// ---------- scenario ----------

type Call struct {
	Kind    string // ping devid raw uint int str cmd
	Cmd     byte
	Addr    uint16
	Sleep   bool   // sleep 110 ms before the call (must make its first attempt idle)
	SleepMs int    // sleep that long before the call
	Want    string // generator's expectation, stated from the property text ("" = none): exact result string
}

type Scenario struct {
	Cfg         int // bit0 debug logger, bit1 io logger
	Init        [][]byte
	Replies     [][][]byte
	WF, RF, FF  []int
	WS          []int       // write indices at which the port takes only part of the bytes (and reports that, without an error)
	RDelay      map[int]int // read index -> milliseconds the Read takes
	EOFData     int         // number of queue-draining Reads that report io.EOF together with their data
	ExactWrites []int       // if set: call i must write exactly that many frames
	Calls       []Call
	Tag         string
	// oracle switches
	MaxWritesPerCall int  // 0 = don't check; else every call may write at most that many frames
	NoAccept         bool // C01: no call may return a value (every delivered frame is corrupt/foreign)
}

type capLogger struct{ lines []string }

func (l *capLogger) Println(v ...any) {
	l.lines = append(l.lines, strings.TrimSuffix(fmt.Sprintln(v...), "\n"))
}

func HEX(b []byte) string { return strings.ToUpper(hex.EncodeToString(b)) }

func errKind(err error) string {
	switch {
	case err == nil:
		return "ok"
	case errors.Is(err, vedirect.ErrUnknownId):
		return "unknown-id"
	case errors.Is(err, vedirect.ErrorNotSupported):
		return "not-supported"
	case errors.Is(err, vedirect.ErrorParameterError):
		return "parameter-error"
	}
	return classifyApiErr(err)
}

func chunksStr(cs [][]byte) string {
	if len(cs) == 0 {
		return "-"
	}
	s := make([]string, len(cs))
	for i, c := range cs {
		s[i] = HEX(c)
	}
	return strings.Join(s, ",")
}

func repliesStr(rs [][][]byte) string {
	if len(rs) == 0 {
		return "-"
	}
	s := make([]string, len(rs))
	for i, r := range rs {
		if len(r) == 0 {
			s[i] = "."
		} else {
			s[i] = chunksStr(r)
		}
	}
	return strings.Join(s, ";")
}

func intsStr(l []int) string {
	if len(l) == 0 {
		return "-"
	}
	s := make([]string, len(l))
	for i, v := range l {
		s[i] = strconv.Itoa(v)
	}
	return strings.Join(s, ",")
}

type RunResult struct {
	Op              string
	Out             string
	Results         []string
	Port            *Port
	Lines           [][2][]byte
	PerCallWrites   []int
	Violations      []string // oracle findings (independent of the Lean model)
	Panicked        bool
	kept            [][]byte
	keptCopy        []string
	RetainedChecked int
	Stalled         int
}

func (r *RunResult) keep(v []byte) {
	r.kept = append(r.kept, v)
	r.keptCopy = append(r.keptCopy, string(v))
}

func parseIoLine(s string) (tx, rx []byte, ok bool) {
	q1, err := strconv.QuotedPrefix(s)
	if err != nil {
		return nil, nil, false
	}
	u1, err := strconv.Unquote(q1)
	if err != nil {
		return nil, nil, false
	}
	rest := s[len(q1):]
	if !strings.HasPrefix(rest, ": ") {
		return nil, nil, false
	}
	rest = rest[2:]
	q2, err := strconv.QuotedPrefix(rest)
	if err != nil {
		return nil, nil, false
	}
	u2, err := strconv.Unquote(q2)
	if err != nil {
		return nil, nil, false
	}
	if !strings.HasPrefix(rest[len(q2):], ", // ") {
		return nil, nil, false
	}
	return []byte(u1), []byte(u2), true
}

func doCall(vd *vedirect.Vedirect, c Call, res *RunResult) (out string) {
	defer func() {
		if r := recover(); r != nil {
			if _, ok := r.(budgetExceeded); ok {
				out = "HANG"
			} else {
				out = "PANIC"
			}
		}
	}()
	switch c.Kind {
	case "ping":
		err := vd.Ping()
		if err != nil {
			return "err:" + errKind(err)
		}
		return "ok:"
	case "devid":
		v, err := vd.GetDeviceId()
		if err != nil {
			return "err:" + errKind(err) + nonZero(v != 0, v)
		}
		return "ok:" + strconv.Itoa(int(v))
	case "raw":
		v, err := vd.VeCommandGet(c.Addr)
		if err != nil {
			return "err:" + errKind(err) + nonZero(len(v) != 0, HEX(v))
		}
		res.keep(v)
		return "ok:" + HEX(v)
	case "uint":
		v, err := vd.GetUint(c.Addr)
		if err != nil {
			return "err:" + errKind(err) + nonZero(v != 0, v)
		}
		return "ok:" + strconv.FormatUint(v, 10)
	case "int":
		v, err := vd.GetInt(c.Addr)
		if err != nil {
			return "err:" + errKind(err) + nonZero(v != 0, v)
		}
		return "ok:" + strconv.FormatInt(v, 10)
	case "str":
		v, err := vd.GetString(c.Addr)
		if err != nil {
			return "err:" + errKind(err) + nonZero(v != "", HEX([]byte(v)))
		}
		return "ok:" + HEX([]byte(v))
	case "cmd":
		v, err := vd.VeCommand(vedirect.VeCommand(c.Cmd), c.Addr)
		if err != nil {
			// the low-level command hands back what it parsed so far together with e.g. a check-byte error;
			// no property speaks about that value (C05 is about the accessors), so it is not observed
			return "err:" + errKind(err)
		}
		res.keep(v)
		return "ok:" + HEX(v)
	}
	return "bad-call"
}

// nonZero marks an error result that came with a value other than the type's zero value (the model's error results
// carry no value, so the mark shows up as a disagreement; C05 demands the zero value outright).
func nonZero(nz bool, v any) string {
	if !nz {
		return ""
	}
	return fmt.Sprintf("+nonzero-value=%v", v)
}

func callName(c Call) string {
	switch c.Kind {
	case "ping", "devid":
		return c.Kind
	case "cmd":
		return fmt.Sprintf("cmd:%02X:%04X", c.Cmd, c.Addr)
	}
	return fmt.Sprintf("%s:%04X", c.Kind, c.Addr)
}

// idleBits: one bit per Write call in events[from:], '1' if a Flush preceded it since the previous Write.
func idleBits(ev []byte) string {
	var sb strings.Builder
	flushed := false
	for _, e := range ev {
		switch e {
		case 'F':
			flushed = true
		case 'W':
			if flushed {
				sb.WriteByte('1')
			} else {
				sb.WriteByte('0')
			}
			flushed = false
		}
	}
	if sb.Len() == 0 {
		return "0"
	}
	return sb.String()
}

func RunScenario(sc *Scenario) *RunResult {
	port := NewPort(sc.Init, sc.Replies, sc.WF, sc.RF, sc.FF)
	port.WS = idxSet(sc.WS)
	port.Fault = faultErrs[(len(sc.Calls)+len(sc.WF)+2*len(sc.RF)+len(sc.Tag))%len(faultErrs)] // the kind of error a failing operation reports takes turns
	port.RDelay = sc.RDelay
	port.EOFData = sc.EOFData
	var cfg vedirect.Config
	dbg := &capLogger{}
	iol := &capLogger{}
	// the logger implementation takes turns too: pointer type, value-receiver struct, function adapter, named string type
	lk := len(sc.Calls) + len(sc.Replies) + len(sc.Tag)
	if sc.Cfg&1 != 0 {
		cfg.DebugLogger = loggerOfKind(lk, dbg)
	}
	if sc.Cfg&2 != 0 {
		cfg.IoLogger = loggerOfKind(lk+1, iol)
	}
	var vd *vedirect.Vedirect
	var err error
	newPanicked := false
	func() {
		defer func() {
			if r := recover(); r != nil {
				newPanicked = true
			}
		}()
		vd, err = vedirect.NewVedirect(port, cfg)
	}()
	res := &RunResult{Port: port}
	if newPanicked {
		res.Op = fmt.Sprintf("P %d new-panicked", sc.Cfg)
		res.Out = "PANIC"
		res.Panicked = true
		res.Violations = append(res.Violations, fmt.Sprintf("NewVedirect panics with logger configuration %d (debug logger %T, io logger %T)", sc.Cfg, cfg.DebugLogger, cfg.IoLogger))
		return res
	}
	if err != nil {
		res.Op = "P new-failed"
		res.Out = "err"
		return res
	}
	var callStrs []string
	for i, c := range sc.Calls {
		if c.Sleep {
			time.Sleep(110 * time.Millisecond)
		}
		if c.SleepMs > 0 {
			time.Sleep(time.Duration(c.SleepMs) * time.Millisecond)
		}
		evFrom := len(port.Events)
		wFrom := port.NW
		eFrom := port.NE
		t0 := time.Now()
		out := doCall(vd, c, res)
		elapsed := time.Since(t0)
		// C06: a Read that delivers nothing (end of data, an error) ends the attempt it occurs in, so a call performs at
		// most eight of them (theorem failing_reads_bounded); how the data reads are sized is bufio's business
		if out != "HANG" && port.NE-eFrom > 8 {
			res.Violations = append(res.Violations, fmt.Sprintf("call %d (%s) performed %d reads that delivered nothing: more than one per attempt after the port reported no more data", i, callName(c), port.NE-eFrom))
		}
		bits := idleBits(port.Events[evFrom:])
		if out == "PANIC" {
			res.Panicked = true
			res.Violations = append(res.Violations, fmt.Sprintf("call %d (%s) panicked", i, callName(c)))
		}
		if out == "HANG" {
			res.Violations = append(res.Violations, fmt.Sprintf("call %d (%s) does not terminate: more than %d port operations on a finite byte stream", i, callName(c), opBudget))
		}
		if (c.Sleep || c.SleepMs >= 110 || i == 0) && port.NW > wFrom && bits[0] != '1' {
			res.Violations = append(res.Violations, fmt.Sprintf("call %d (%s): first attempt after >=100ms idle (or construction) did not flush the receiver", i, callName(c)))
		}
		res.Results = append(res.Results, out)
		res.PerCallWrites = append(res.PerCallWrites, port.NW-wFrom)
		callStrs = append(callStrs, callName(c)+"@"+bits)
		// a retry that found the line idle for 100 ms although nothing in the scenario takes that long, in a call that really lasted
		// that long: either the machine stalled the process (transient) or the code under test lets time pass between its
		// attempts (repeatable). The expectations are applied all the same; Sink.Scenario repeats a scenario whose only
		// findings come with this mark and reports them if they persist.
		slowest := 0
		for _, d := range sc.RDelay {
			slowest = max(slowest, d)
		}
		if len(bits) > 1 && strings.Contains(bits[1:], "1") && slowest < 100 && elapsed >= 95*time.Millisecond {
			res.Stalled++
		}
		const stalled = false
		if c.Want != "" && out != c.Want && !stalled {
			res.Violations = append(res.Violations, fmt.Sprintf("call %d (%s): property demands %s, observed %s", i, callName(c), c.Want, out))
		}
		if i < len(sc.ExactWrites) && sc.ExactWrites[i] >= 0 && port.NW-wFrom != sc.ExactWrites[i] && !stalled {
			res.Violations = append(res.Violations, fmt.Sprintf("call %d (%s) wrote %d frames; the answer arrives with attempt %d", i, callName(c), port.NW-wFrom, sc.ExactWrites[i]))
		}
		if sc.MaxWritesPerCall > 0 && port.NW-wFrom > sc.MaxWritesPerCall {
			res.Violations = append(res.Violations, fmt.Sprintf("call %d (%s) wrote %d frames (> %d)", i, callName(c), port.NW-wFrom, sc.MaxWritesPerCall))
		}
		if sc.NoAccept && strings.HasPrefix(out, "ok:") && c.Kind != "ping" {
			res.Violations = append(res.Violations, fmt.Sprintf("call %d (%s) returned %s although no valid matching frame was delivered", i, callName(c), out))
		}
	}
	for i := range res.kept {
		if string(res.kept[i]) != res.keptCopy[i] {
			res.Violations = append(res.Violations, fmt.Sprintf("a returned value %X was altered by a later call to %X", res.keptCopy[i], res.kept[i]))
		}
	}
	res.RetainedChecked = len(res.kept)
	res.Violations = append(res.Violations, crossCheck()...)
	crossKeep(res.kept)
	// independent oracles on the traffic
	res.Violations = append(res.Violations, oracleReceive(sc, res)...)
	res.Violations = append(res.Violations, oracleTransmit(sc, res)...)

	var ls []string
	for _, l := range iol.lines {
		tx, rx, ok := parseIoLine(l)
		if !ok {
			res.Violations = append(res.Violations, "io log line does not parse: "+l)
			continue
		}
		res.Lines = append(res.Lines, [2][]byte{tx, rx})
		ls = append(ls, HEX(tx)+":"+HEX(rx))
	}
	// C18: with the I/O logger and typed calls only, the tx parts of the lines are exactly the bytes written
	if sc.Cfg&2 != 0 {
		typedOnly := true
		for _, c := range sc.Calls {
			if c.Kind == "raw" || c.Kind == "cmd" {
				typedOnly = false
			}
		}
		if typedOnly {
			var tx, wr []byte
			for _, l := range res.Lines {
				tx = append(tx, l[0]...)
			}
			for _, w := range port.Written {
				wr = append(wr, w...)
			}
			if string(tx) != string(wr) {
				res.Violations = append(res.Violations, fmt.Sprintf("io log tx %q differs from the bytes written %q", tx, wr))
			}
			if len(res.Lines) != len(sc.Calls) {
				res.Violations = append(res.Violations, fmt.Sprintf("%d io log lines for %d typed calls", len(res.Lines), len(sc.Calls)))
			}
		}
	}
	ws := make([]string, len(port.Written))
	for i, w := range port.Written {
		ws[i] = HEX(w)
	}
	res.Op = fmt.Sprintf("P %d %s %s %s %s %s %s", sc.Cfg, chunksStr(sc.Init), repliesStr(sc.Replies),
		intsStr(sc.WF), intsStr(sc.RF), intsStr(sc.FF), strings.Join(callStrs, ";"))
	if len(sc.WS) > 0 {
		// the model has no notion of a partial write: the driver hands the frame to the port once, whatever n is
		res.Op += " ws:" + intsStr(sc.WS)
	}
	res.Out = fmt.Sprintf("%s W=%s R=%d F=%d L=%s", strings.Join(res.Results, ";"), strings.Join(ws, ","), port.NE, port.NF, strings.Join(ls, ","))
	return res
}

// ---------- independent device simulator / frame grammar (none of this is in the repo) ----------

const hexU = "0123456789ABCDEF"

func simFrame(nibble byte, payload []byte) []byte {
	ck := byte(0x55) - nibble
	for _, b := range payload {
		ck -= b
	}
	out := []byte{':', hexU[nibble&0xF]}
	for _, b := range payload {
		out = append(out, hexU[b>>4], hexU[b&0xF])
	}
	out = append(out, hexU[ck>>4], hexU[ck&0xF], '\n')
	return out
}

func simGet(addr uint16, flag byte, value []byte) []byte {
	p := append([]byte{byte(addr), byte(addr >> 8), flag}, value...)
	return simFrame(7, p)
}

func hexVal(c byte) int {
	switch {
	case c >= '0' && c <= '9':
		return int(c - '0')
	case c >= 'A' && c <= 'F':
		return int(c-'A') + 10
	case c >= 'a' && c <= 'f':
		return int(c-'a') + 10
	}
	return -1
}

// grammarFrames: every maximal segment ":"…"\n" (no '\n' inside) of a byte stream that is a valid HEX frame:
// returns (nibble, payload-with-check-byte-removed) for each. Frames may start at any ':' (a later ':' inside a
// segment starts a candidate too): the driver itself only uses the first ':' but for the soundness of the
// oracle ("ok implies SOME valid frame was delivered") every candidate is admitted.
type gFrame struct {
	nibble  int
	payload []byte
}

func grammarFrames(stream []byte) []gFrame {
	var out []gFrame
	for i := 0; i < len(stream); i++ {
		if stream[i] != ':' {
			continue
		}
		j := i + 1
		for j < len(stream) && stream[j] != '\n' {
			j++
		}
		if j >= len(stream) {
			break
		}
		body := stream[i+1 : j]
		if len(body) < 3 || len(body)%2 != 1 {
			continue
		}
		n := hexVal(body[0])
		if n < 0 {
			continue
		}
		ok := true
		var bin []byte
		for k := 1; k+1 < len(body); k += 2 {
			a, b := hexVal(body[k]), hexVal(body[k+1])
			if a < 0 || b < 0 {
				ok = false
				break
			}
			bin = append(bin, byte(a<<4|b))
		}
		if !ok || len(bin) < 1 {
			continue
		}
		sum := byte(n)
		for _, b := range bin {
			sum += b
		}
		if sum != 0x55 {
			continue
		}
		out = append(out, gFrame{n, bin[:len(bin)-1]})
	}
	return out
}

func delivered(sc *Scenario, res *RunResult) []byte {
	var s []byte
	for _, c := range sc.Init {
		s = append(s, c...)
	}
	for k := 0; k < res.Port.NW && k < len(sc.Replies); k++ {
		for _, c := range sc.Replies[k] {
			s = append(s, c...)
		}
	}
	return s
}

func leU(b []byte) uint64 {
	var v uint64
	for i, x := range b {
		if i >= 8 {
			break
		}
		v |= uint64(x) << (8 * uint(i))
	}
	return v
}

func trimNulGo(b []byte) []byte {
	for len(b) > 0 && b[len(b)-1] == 0 {
		b = b[:len(b)-1]
	}
	return b
}

// oracleReceive states C01 directly: a value is returned only if a valid matching frame was delivered,
// and it is the decoding of such a frame.
func oracleReceive(sc *Scenario, res *RunResult) []string {
	var v []string
	var frames []gFrame
	got := false
	for i, c := range sc.Calls {
		out := res.Results[i]
		if !strings.HasPrefix(out, "ok:") {
			continue
		}
		if !got {
			frames = grammarFrames(delivered(sc, res))
			got = true
		}
		val := out[3:]
		match := false
		switch c.Kind {
		case "raw", "uint", "int", "str":
			for _, f := range frames {
				if f.nibble != 7 || len(f.payload) < 3 {
					continue
				}
				if f.payload[0] != byte(c.Addr) || f.payload[1] != byte(c.Addr>>8) || f.payload[2] != 0 {
					continue
				}
				p := f.payload[3:]
				var want string
				switch c.Kind {
				case "raw":
					want = HEX(p)
				case "uint":
					want = strconv.FormatUint(leU(p), 10)
				case "int":
					switch len(p) {
					case 1:
						want = strconv.FormatInt(int64(int8(p[0])), 10)
					case 2:
						want = strconv.FormatInt(int64(int16(leU(p))), 10)
					case 4:
						want = strconv.FormatInt(int64(int32(leU(p))), 10)
					case 8:
						want = strconv.FormatInt(int64(leU(p)), 10)
					default:
						want = "!"
					}
				case "str":
					want = HEX(trimNulGo(p))
				}
				if want == val {
					match = true
					break
				}
			}
		case "devid":
			for _, f := range frames {
				if f.nibble == 1 && len(f.payload) >= 2 && strconv.Itoa(int(f.payload[0])|int(f.payload[1])<<8) == val {
					match = true
					break
				}
			}
		default:
			match = true
		}
		if !match {
			v = append(v, fmt.Sprintf("call %d (%s) returned %s but the device never delivered a valid frame with that type/address/flag 0/payload", i, callName(c), out))
		}
	}
	return v
}

// oracleTransmit states C03 directly on every byte string written.
func oracleTransmit(sc *Scenario, res *RunResult) []string {
	var v []string
	for i, w := range res.Port.Written {
		if msg := wellFormedTx(w); msg != "" {
			v = append(v, fmt.Sprintf("write %d %q: %s", i, w, msg))
		}
	}
	return v
}

func wellFormedTx(w []byte) string {
	if len(w) < 5 || w[0] != ':' || w[len(w)-1] != '\n' {
		return "not ':' … '\\n'"
	}
	body := w[1 : len(w)-1]
	for _, c := range body {
		if !((c >= '0' && c <= '9') || (c >= 'A' && c <= 'F')) {
			return "non upper-case-hex character (or more than one frame per write)"
		}
	}
	if len(body)%2 != 1 {
		return "odd number of hex digits after the command nibble"
	}
	sum := byte(hexVal(body[0]))
	for k := 1; k+1 < len(body); k += 2 {
		sum += byte(hexVal(body[k])<<4 | hexVal(body[k+1]))
	}
	if sum != 0x55 {
		return "command, payload and check byte do not sum to 0x55"
	}
	return ""
}
