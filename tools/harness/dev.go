package main

import (
	"errors"
	"io"
)

// DevPort: a reactive VE.Direct device behind the IOPort interface (independent frame parser/encoder).
// Regs maps an address to the device's answer; a missing address, or Silent, means no answer at all.
type DevAnswer struct {
	Flag    byte
	Payload []byte
}

type DevPort struct {
	Regs        map[uint16]DevAnswer
	RawRegs     map[uint16][]byte   // registers answered with these raw bytes instead of a well-formed Get response
	Seq         map[uint16][][]byte // registers whose successive Gets are answered with these raw bytes, one entry per Get; afterwards Regs/RawRegs apply
	PingPrefix  []byte              // bytes sent in front of the (otherwise normal) answer to a ping
	IdPrefix    []byte              // bytes sent in front of the (otherwise normal) answer to the device-id query
	Id          uint16
	NoPing      bool              // silent at ping
	NoId        bool              // silent at the device-id query
	BadPing     []byte            // if set, answer ping with these bytes
	BadId       []byte            // if set, answer the id query with these bytes
	SilentAfter int               // if >= 0: stop answering Get commands after this many answered Gets
	DieMidFrame bool              // with SilentAfter: the first unanswered Get still gets the first bytes of its answer
	OnGet       func(addr uint16) // hook called for every Get frame received (e.g. to cancel a context)
	AsyncEvery  int               // if > 0: every AsyncEvery-th answered Get is preceded by an asynchronous ":A..." frame
	LatencyMs   int               // the pty simulator waits that long before it sends an answer
	FlushErr    error             // if set, Flush() discards the input as usual but reports this error
	Pending     []byte            // bytes already received (unread) when the driver is created
	queue       []byte
	Frames      [][]byte // every frame written by the driver
	Gets        []uint16 // address of every Get frame received, in order
	answered    int
	reads       int
	Closed      bool
}

func NewDevPort(id uint16) *DevPort {
	return &DevPort{Regs: map[uint16]DevAnswer{}, Seq: map[uint16][][]byte{}, Id: id, SilentAfter: -1}
}

var errPortClosed = errors.New("port is closed")

func (d *DevPort) Write(b []byte) (int, error) {
	if d.Closed {
		return 0, errPortClosed
	}
	d.Frames = append(d.Frames, append([]byte(nil), b...))
	fs := grammarFrames(b)
	if len(fs) != 1 {
		return len(b), nil
	}
	f := fs[0]
	switch f.nibble {
	case 1:
		if d.BadPing != nil {
			d.queue = append(d.queue, d.BadPing...)
		} else if !d.NoPing {
			d.queue = append(d.queue, d.PingPrefix...)
			d.queue = append(d.queue, simFrame(5, []byte{0x16, 0x41})...)
		}
	case 4:
		if d.BadId != nil {
			d.queue = append(d.queue, d.BadId...)
		} else if !d.NoId {
			d.queue = append(d.queue, d.IdPrefix...)
			d.queue = append(d.queue, simFrame(1, []byte{byte(d.Id), byte(d.Id >> 8)})...)
		}
	case 7:
		if len(f.payload) >= 2 {
			addr := uint16(f.payload[0]) | uint16(f.payload[1])<<8
			d.Gets = append(d.Gets, addr)
			if d.OnGet != nil {
				d.OnGet(addr)
			}
			if sq := d.Seq[addr]; len(sq) > 0 {
				d.queue = append(d.queue, sq[0]...)
				d.Seq[addr] = sq[1:]
			} else if a, ok := d.Regs[addr]; ok && (d.SilentAfter < 0 || d.answered < d.SilentAfter) {
				d.answered++
				if d.AsyncEvery > 0 && d.answered%d.AsyncEvery == 0 {
					d.queue = append(d.queue, simFrame(0xA, []byte{0x8D, 0xED, 0x00, byte(d.answered), 0x05})...)
				}
				if raw, isRaw := d.RawRegs[addr]; isRaw {
					d.queue = append(d.queue, raw...)
				} else {
					d.queue = append(d.queue, simGet(addr, a.Flag, a.Payload)...)
				}
			} else if ok && d.DieMidFrame && d.answered == d.SilentAfter {
				d.answered++ // the device dies in the middle of this frame
				f := simGet(addr, a.Flag, a.Payload)
				d.queue = append(d.queue, f[:len(f)/2]...)
			}
		}
	}
	return len(b), nil
}

func (d *DevPort) Read(b []byte) (int, error) {
	if d.Closed {
		return 0, errPortClosed
	}
	d.reads++
	if d.reads > 50*opBudget {
		panic(budgetExceeded{}) // a call that keeps reading from a silent device is looping
	}
	if d.Pending != nil {
		d.queue = append(append([]byte(nil), d.Pending...), d.queue...)
		d.Pending = nil
	}
	if len(d.queue) == 0 {
		return 0, io.EOF
	}
	n := copy(b, d.queue)
	d.queue = d.queue[n:]
	return n, nil
}

func (d *DevPort) Flush() error { d.queue = nil; d.Pending = nil; return d.FlushErr }
func (d *DevPort) Close() error { d.Closed = true; return nil }
