package main

import (
	"bufio"
	"encoding/json"
	"errors"
	"fmt"
	"os"
	"runtime"
	"runtime/debug"
	"sort"
	"strconv"
	"strings"

	"github.com/koestler/go-victron/bleparser"
	"github.com/koestler/go-victron/veconst"
	"github.com/koestler/go-victron/vedirect"
	"github.com/koestler/go-victron/vedirectapi"
	"github.com/koestler/go-victron/veregister"
)

func classifyApiErr(err error) string {
	switch {
	case errors.Is(err, veconst.ErrInvalidEnumIdx):
		return "invalid-enum"
	case errors.Is(err, vedirectapi.ErrCtxDone):
		return "ctx-done"
	case errors.Is(err, bleparser.ErrInputTooShort):
		return "too-short"
	case errors.Is(err, veregister.ErrUnsupportedType):
		return "unsupported-type"
	}
	return "other"
}

// Sink collects "op \t real output" lines, oracle violations and the input distribution.
type Sink struct {
	w          *bufio.Writer
	N          int
	Tags       map[string]int
	Violations []Violation
	Extra      map[string]int
}

type Violation struct {
	Op   string `json:"op"`
	Out  string `json:"observed"`
	What string `json:"what"`
}

func (s *Sink) Line(tag, op, out string) {
	fmt.Fprintf(s.w, "%s\t%s\n", op, out)
	s.N++
	s.Tags[tag]++
}

func (s *Sink) Violate(op, out, what string) {
	if len(s.Violations) < 200 {
		s.Violations = append(s.Violations, Violation{op, out, what})
	}
	s.Extra["violations_total"]++
}

func (s *Sink) Scenario(sc *Scenario) *RunResult {
	res := RunScenario(sc)
	// findings in a run during which a retry saw the line idle for no reason the scenario gives: a stalled machine does not
	// stall three times at the same place, code that sleeps between its attempts does
	for again := 0; again < 2 && res.Stalled > 0 && len(res.Violations) > 0; again++ {
		s.Extra["scenarios_repeated_after_a_possible_stall"]++
		res = RunScenario(sc)
	}
	s.Line(sc.Tag, res.Op, res.Out)
	for _, v := range res.Violations {
		s.Violate(res.Op, res.Out, v)
	}
	s.Extra["retained_slices_rechecked"] += res.RetainedChecked
	return res
}

func runProtoSuite(suite string, rng *Rng, thorough bool, s *Sink) {
	emit := func(sc *Scenario) { s.Scenario(sc) }
	switch suite {
	case "c01":
		genC01(rng, thorough, emit)
	case "c02":
		genC02(rng, thorough, emit)
	case "c03":
		// exhaustive: all 7 x 65536 (command, address) pairs through VeCommand
		for _, c := range allCmds {
			for a := 0; a < 65536; a++ {
				p := NewPort(nil, nil, nil, nil, nil)
				vd, _ := vedirect.NewVedirect(p, vedirect.Config{})
				vd.VeCommand(vedirect.VeCommand(c), uint16(a))
				out := "none"
				if len(p.Written) == 1 {
					out = HEX(p.Written[0])
					if msg := wellFormedTx(p.Written[0]); msg != "" {
						s.Violate(fmt.Sprintf("T %X %04X", c, a), out, msg)
					}
					if msg := txPayloadOracle(c, uint16(a), p.Written[0]); msg != "" {
						s.Violate(fmt.Sprintf("T %X %04X", c, a), out, msg)
					}
				} else {
					s.Violate(fmt.Sprintf("T %X %04X", c, a), out, fmt.Sprintf("%d writes for one attempt", len(p.Written)))
				}
				s.Line(fmt.Sprintf("T-%X", c), fmt.Sprintf("T %X %04X", c, a), out)
			}
		}
		genC03(rng, thorough, emit)
		twoInstances(rng, s)
		oneObjectSweep(rng, s)
		genManyAddresses(rng, emit)
		genLongIdle(rng, emit)
	case "c03x":
		genC03x(rng, thorough, emit)
	case "c04":
		genC04(rng, thorough, emit)
	case "c05":
		genC05(rng, thorough, emit)
		errSurvey(s, rng)
	case "c06":
		genC06(rng, thorough, emit)
	case "c18":
		// every scenario class of C01–C06 under all four logger configurations
		var pool []*Scenario
		collect := func(sc *Scenario) { pool = append(pool, sc) }
		sub := rng.Fork()
		genC01(sub, false, collect)
		genC04(sub, false, collect)
		genC05(sub, false, collect)
		genC06(sub, false, collect)
		genC02History(sub, collect)
		// a slow device: the rejected first answer takes 150 ms, so the retry comes after an idle pause (and flushes);
		// the one line of the call still holds everything written and consumed during the call
		for k := 0; k < 3; k++ {
			a := uint16(sub.U64())
			bad := simGet(a, 0, []byte{1, 2})
			bad[len(bad)-2] = hexU[(hexVal(bad[len(bad)-2])+1)%16]
			pool = append(pool, &Scenario{Tag: "idle-history-slow-device", RDelay: map[int]int{0: 150}, Replies: [][][]byte{one(bad), one(simGet(a, 0, []byte{1, 2}))},
				Calls: []Call{{Kind: []string{"uint", "int", "str"}[k], Addr: a}}, MaxWritesPerCall: 8})
		}
		keep := 4
		if thorough {
			keep = 1
		}
		for i, sc := range pool {
			if i%keep != 0 && !strings.HasPrefix(sc.Tag, "idle-history") && !strings.HasPrefix(sc.Tag, "fault") {
				continue
			}
			if strings.HasSuffix(sc.Tag, "-sleep") && i%3 != 0 {
				continue
			}
			var sig string
			for cfg := 0; cfg < 4; cfg++ {
				c := *sc
				c.Cfg = cfg
				c.Tag = fmt.Sprintf("cfg%d-%s", cfg, strings.SplitN(sc.Tag, "-", 2)[0])
				res := s.Scenario(&c)
				n, vs := oracleReplay(&c, res)
				s.Extra["single_exchange_lines_replayed"] += n
				for _, v := range vs {
					s.Violate(res.Op, res.Out, v)
				}
				// the idle pattern is an input measured from the run; compare traffic only when it coincides
				opSig := res.Op[4:]
				if cfg == 0 {
					sig = opSig + "|" + trafficSig(res.Out)
				} else if opSig+"|"+trafficSig(res.Out) != sig && strings.SplitN(sig, "|", 2)[0] == opSig {
					s.Violate(res.Op, res.Out, "results / bytes written / reads performed differ from the run without loggers: "+sig)
				}
			}
		}
		// two loggers on one file, and somebody else appending in between (all lines far below the loggers' buffer size,
		// so each logger writes when it is closed)
		for i := 0; i < 12; i++ {
			mk := func(tag string, n int) []string {
				var l []string
				for k := 0; k < n; k++ {
					l = append(l, fmt.Sprintf("%q: %q, // %s %d", rng.Bytes(rng.Intn(8)), rng.Bytes(rng.Intn(8)), tag, k))
				}
				return l
			}
			prev := rng.Bytes(rng.Intn(40))
			var other []byte
			if i%3 == 0 {
				other = []byte("somebody else was here\n")
			}
			got, want, err := twoFileLoggers(prev, mk("a", 1+rng.Intn(4)), mk("b", rng.Intn(4)), mk("a'", rng.Intn(3)), other)
			s.Extra["two_logger_files"]++
			if err != nil || got != want {
				s.Violate(fmt.Sprintf("FL %s - mut:two-loggers-on-one-file", HEX(prev)), got, fmt.Sprintf("two file loggers on one path (err=%v): the file holds %s, appending in order gives %s", err, got, want))
			}
		}
		loggerAcrossConnections(s, rng)
		parallelIoLogs(s, rng)
		// the file logger on real files
		n := 40
		if thorough {
			n = 400
		}
		for i := 0; i < n; i++ {
			prev := rng.Bytes(rng.Intn(50))
			if i%5 == 0 {
				prev = nil
			}
			nl := rng.Intn(30)
			if i == 1 {
				nl = 10000
			}
			var lines, hexl []string
			for k := 0; k < nl; k++ {
				l := fmt.Sprintf("%q: %q, // line %d", rng.Bytes(rng.Intn(12)), rng.Bytes(rng.Intn(12)), k)
				lines = append(lines, l)
				hexl = append(hexl, HEX([]byte(l)))
			}
			out, err := runFileLogger(prev, lines)
			if err != nil {
				out = "err"
			}
			ph, lh := HEX(prev), strings.Join(hexl, ",")
			if ph == "" {
				ph = "-"
			}
			if lh == "" {
				lh = "-"
			}
			op := fmt.Sprintf("FL %s %s", ph, lh)
			want := HEX(prev)
			for _, l := range lines {
				want += HEX([]byte(l)) + "0A"
			}
			if out != want {
				s.Violate(op, out, "file content after Close is not previous content + lines in order")
			}
			s.Line("filelogger", op, out)
		}
	}
}

// twoInstances: two drivers (two devices), each used by its own goroutine only, on one processor, over ports whose Write
// yields before it looks at its argument (a blocking serial write): every Write still gets the frame of its own driver
func twoInstances(rng *Rng, s *Sink) {
	old := runtime.GOMAXPROCS(1)
	defer runtime.GOMAXPROCS(old)
	type inst struct {
		port *Port
		addr uint16
	}
	a := inst{NewPort(nil, nil, nil, nil, nil), uint16(rng.U64())}
	b := inst{NewPort(nil, nil, nil, nil, nil), uint16(rng.U64())}
	a.port.Yield, b.port.Yield = true, true
	done := make(chan bool, 2)
	run := func(x inst, cmd byte) {
		defer func() { recover(); done <- true }()
		vd, _ := vedirect.NewVedirect(x.port, vedirect.Config{})
		for i := 0; i < 40; i++ {
			vd.VeCommand(vedirect.VeCommand(cmd), x.addr)
			vd.Ping()
		}
	}
	go run(a, 7)
	go run(b, 8)
	<-done
	<-done
	for _, x := range []struct {
		inst
		cmd byte
	}{{a, 7}, {b, 8}} {
		for i, w := range x.port.Written {
			want := string(simFrame(x.cmd, []byte{byte(x.addr), byte(x.addr >> 8), 0}))
			if i%2 == 1 {
				want = ":154\n"
			}
			if string(w) != want {
				s.Violate(fmt.Sprintf("T %X %04X mut:two-drivers-on-two-goroutines", x.cmd, x.addr), HEX(w), fmt.Sprintf("write #%d of this driver handed %q to its port; its own frame is %q (another driver was sending at the same time)", i, w, want))
				break
			}
		}
	}
	s.Extra["two_instance_writes"] += len(a.port.Written) + len(b.port.Written)
}

func genC02History(rng *Rng, emit func(*Scenario)) {
	for i := 0; i < 60; i++ {
		nc := 2 + rng.Intn(8)
		sc := &Scenario{Tag: "history"}
		for k := 0; k < nc; k++ {
			a := uint16(rng.U64())
			p := rng.Bytes([]int{1, 2, 4, 8}[rng.Intn(4)])
			sc.Calls = append(sc.Calls, Call{Kind: []string{"uint", "int", "str", "ping", "devid"}[rng.Intn(5)], Addr: a})
			switch sc.Calls[k].Kind {
			case "ping":
				sc.Replies = append(sc.Replies, one(simFrame(5, []byte{0x16, 0x41})))
			case "devid":
				sc.Replies = append(sc.Replies, one(simFrame(1, []byte{0x53, 0xA0})))
			default:
				sc.Replies = append(sc.Replies, one(simGet(a, 0, p)))
			}
		}
		emit(sc)
	}
}

func txPayloadOracle(cmd byte, addr uint16, w []byte) string {
	body := string(w[1 : len(w)-1])
	var want string
	if cmd == 7 || cmd == 8 {
		want = fmt.Sprintf("%X%02X%02X00", cmd, byte(addr), byte(addr>>8))
	} else {
		want = fmt.Sprintf("%X", cmd)
	}
	if len(body) != len(want)+2 || !strings.HasPrefix(body, want) {
		return "payload is not " + want + " + check byte"
	}
	return ""
}

func main() {
	if len(os.Args) == 3 && os.Args[1] == "coldstart" {
		coldstartMain(os.Args[2])
		return
	}
	if len(os.Args) == 4 && os.Args[1] == "coldstartc" {
		n, _ := strconv.Atoi(os.Args[3])
		coldstartConcurrentMain(os.Args[2], n)
		return
	}
	if len(os.Args) < 5 {
		fmt.Fprintln(os.Stderr, "usage: harness <suite> <quick|thorough> <seed> <outfile> [summary.json]")
		os.Exit(2)
	}
	suite, tier := os.Args[1], os.Args[2]
	seed, _ := strconv.ParseUint(os.Args[3], 10, 64)
	f, err := os.Create(os.Args[4])
	if err != nil {
		panic(err)
	}
	s := &Sink{w: bufio.NewWriterSize(f, 1<<20), Tags: map[string]int{}, Extra: map[string]int{}, Violations: []Violation{}}
	rng := NewRng(seed)
	thorough := tier == "thorough"
	func() {
		// every call into the library is guarded where it is made; should one slip through (a helper of the harness that
		// calls the library directly), the panic is still reported as a finding of this suite rather than as a crashed harness
		defer func() {
			if r := recover(); r != nil {
				st := string(debug.Stack())
				if i := strings.Index(st, "panic("); i >= 0 {
					st = st[i:]
				}
				s.Violate("suite "+suite, "PANIC", fmt.Sprintf("the library panicked in a call made by suite %s: %v; stack: %s", suite, r, st[:min(len(st), 1500)]))
			}
		}()
		switch {
		case suite == "c01", suite == "c02", suite == "c03", suite == "c04", suite == "c05", suite == "c06", suite == "c18", suite == "c03x":
			runProtoSuite(suite, rng, thorough, s)
		default:
			if !runOtherSuite(suite, rng, thorough, s) {
				fmt.Fprintln(os.Stderr, "unknown suite", suite)
				os.Exit(2)
			}
		}
	}()
	s.w.Flush()
	f.Close()
	tags := make([]string, 0, len(s.Tags))
	for t := range s.Tags {
		tags = append(tags, t)
	}
	sort.Strings(tags)
	sum := map[string]any{"suite": suite, "tier": tier, "seed": seed, "lines": s.N, "distribution": s.Tags, "violations": s.Violations, "extra": s.Extra}
	b, _ := json.MarshalIndent(sum, "", " ")
	if len(os.Args) > 5 {
		os.WriteFile(os.Args[5], b, 0644)
	} else {
		fmt.Println(string(b))
	}
}
