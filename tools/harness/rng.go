package main

// splitmix64: every random choice of the harness derives from one state seeded by VERIF_SEED.
type Rng struct{ s uint64 }

func NewRng(seed uint64) *Rng { return &Rng{s: seed*0x9E3779B97F4A7C15 + 0x1234567} }

func (r *Rng) U64() uint64 {
	r.s += 0x9E3779B97F4A7C15
	z := r.s
	z = (z ^ (z >> 30)) * 0xBF58476D1CE4E5B9
	z = (z ^ (z >> 27)) * 0x94D049BB133111EB
	return z ^ (z >> 31)
}
func (r *Rng) Intn(n int) int {
	if n <= 0 {
		return 0
	}
	return int(r.U64() % uint64(n))
}
func (r *Rng) Bool() bool        { return r.U64()&1 == 1 }
func (r *Rng) Byte() byte        { return byte(r.U64()) }
func (r *Rng) Chance(n int) bool { return r.Intn(n) == 0 }
func (r *Rng) Bytes(n int) []byte {
	b := make([]byte, n)
	for i := range b {
		b[i] = r.Byte()
	}
	return b
}
func (r *Rng) Fork() *Rng { return &Rng{s: r.U64()} }
