package main

import (
	"bytes"
	"context"
	"errors"
	"fmt"
	"math"
	"os"
	"runtime"
	"sort"
	"strconv"
	"strings"
	"sync"
	"time"

	"github.com/koestler/go-victron/veconst"
	"github.com/koestler/go-victron/vedirect"
	"github.com/koestler/go-victron/vedirectapi"
	"github.com/koestler/go-victron/veproduct"
	"github.com/koestler/go-victron/veregister"
)

func runApiSuite(suite string, rng *Rng, thorough bool, s *Sink) bool {
	switch suite {
	case "c09":
		suiteC09(rng, thorough, s)
	case "c05api":
		suiteC05api(rng, thorough, s)
	case "c06api":
		suiteC06api(rng, thorough, s)
	case "c10":
		suiteC10(rng, thorough, s)
	case "c11":
		suiteC11(rng, thorough, s)
	default:
		return runBleSuite(suite, rng, thorough, s)
	}
	return true
}

func apiErr(err error, name string) string {
	k := errKind(err)
	if strings.Contains(err.Error(), name) {
		return "err:" + k + "@" + name
	}
	return "err:" + k + "@?"
}

func fbits(f float64) string { return fmt.Sprintf("%016X", math.Float64bits(f)) }

type outcome struct {
	tok string // transport outcome token handed to the model
	ans *DevAnswer
}

func okOutcome(p []byte) outcome { return outcome{"ok:" + HEX(p), &DevAnswer{0, p}} }

func fieldsOut(fl veconst.FieldList) string { return fieldsStr(fl.Fields()) }

// readOne: one register read through a fresh RegisterApi on a reactive device
func readOne(it poolItem, o outcome) (out string, val any) {
	dev := NewDevPort(0xA231)
	if o.ans != nil {
		dev.Regs[it.reg().Address()] = *o.ans
	}
	return readOneDev(it, o, dev)
}

func readOneDev(it poolItem, o outcome, dev *DevPort) (out string, val any) {
	api, err := connectApi(dev)
	if err != nil {
		return "connect-failed", nil
	}
	return readVia(api, it, o)
}

func readVia(api *vedirectapi.RegisterApi, it poolItem, o outcome) (out string, val any) {
	reg := it.reg()
	defer func() {
		if r := recover(); r != nil {
			out = "PANIC"
			if _, ok := r.(budgetExceeded); ok {
				out = "HANG"
			}
		}
	}()
	switch it.kind {
	case 1:
		v, err := api.ReadNumberRegister(*it.n)
		if err != nil {
			if v != 0 {
				return apiErr(err, reg.Name()) + "!nonzero", nil
			}
			return apiErr(err, reg.Name()), nil
		}
		return "ok:" + fbits(v), v
	case 2:
		v, err := api.ReadTextRegister(*it.t)
		if err != nil {
			return apiErr(err, reg.Name()), nil
		}
		return "ok:" + HEX([]byte(v)), v
	case 3:
		v, err := api.ReadEnumRegister(*it.e)
		if err != nil {
			return apiErr(err, reg.Name()), nil
		}
		return fmt.Sprintf("ok:%d:%s", v.Idx(), hexS(v.String())), v
	default:
		v, err := api.ReadFieldListRegister(*it.f)
		if err != nil {
			return apiErr(err, reg.Name()), nil
		}
		comma := ""
		if fv, e2 := fieldListValueVia(*it.f, o.ans.Payload); e2 == nil {
			comma = fv.CommaString()
		}
		return "ok:" + fieldsOut(v) + "|" + hexS(comma), v
	}
}

// lineTrouble: one register read whose answer does not come alone - two late answers for other registers (or an intact
// frame of another type) are queued in front of it, or the first try is lost to text-protocol output. The reader must report
// exactly what it reports for the plain answer (value, or the device's refusal, still matchable and named).
type trouble struct {
	name string
	set  func(d *DevPort, addr uint16, ans DevAnswer, rng *Rng)
}

var troubles = []trouble{
	{"two-late-answers-in-front", func(d *DevPort, addr uint16, ans DevAnswer, rng *Rng) {
		us, _ := staleUnits(addr, rng)
		raw := append([]byte(nil), us[rng.Intn(24)]...)
		raw = append(raw, us[rng.Intn(24)]...)
		d.RawRegs[addr] = append(raw, simGet(addr, ans.Flag, ans.Payload)...)
	}},
	{"intact-frame-of-another-type-in-front", func(d *DevPort, addr uint16, ans DevAnswer, rng *Rng) {
		us, _ := staleUnits(addr, rng)
		raw := append([]byte(nil), us[24+rng.Intn(len(us)-24)]...)
		d.RawRegs[addr] = append(raw, simGet(addr, ans.Flag, ans.Payload)...)
	}},
	{"first-try-lost-to-text-output", func(d *DevPort, addr uint16, ans DevAnswer, rng *Rng) {
		d.Seq[addr] = [][]byte{[]byte("\r\nPID\t0xA053\r\nV\t12800\r\nChecksum\t:")}
	}},
	{"first-tries-unanswered", func(d *DevPort, addr uint16, ans DevAnswer, rng *Rng) {
		d.Seq[addr] = [][]byte{nil, nil, []byte(":7")}[:1+rng.Intn(3)]
	}},
}

func readTroubled(it poolItem, o outcome, t trouble, rng *Rng) (string, *DevPort) {
	dev := NewDevPort(0xA231)
	dev.RawRegs = map[uint16][]byte{}
	addr := it.reg().Address()
	dev.Regs[addr] = *o.ans
	t.set(dev, addr, *o.ans, rng)
	out, _ := readOneDev(it, o, dev)
	return out, dev
}

func lineTrouble(s *Sink, rng *Rng, it poolItem, idx int, outs []outcome) {
	for _, o := range outs {
		if o.ans == nil {
			continue
		}
		for _, t := range troubles {
			out, _ := readTroubled(it, o, t, rng)
			op := fmt.Sprintf("%s %d %s mut:%s", opOfKind[it.kind], idx, o.tok, t.name)
			s.Line(fmt.Sprintf("kind%d-line-trouble", it.kind), op, out)
			if v := oracleC09(it, it.reg(), o, out); v != "" {
				s.Violate(op, out, v+" ("+t.name+")")
			}
		}
	}
}

var opOfKind = map[int]string{1: "RN", 2: "RT", 3: "RE", 4: "RF"}

// suiteC06api: C06 at the level of the register API - every reader of every register definition against a device that is
// silent, answers with garbage, answers once with a value of an odd width and then falls silent, or refuses: the call
// returns (no panic) after at most eight command frames. Decided by the oracle alone (no model line).
func suiteC06api(rng *Rng, thorough bool, s *Sink) {
	pool := buildPool()
	type variant struct {
		name   string
		ans    *DevAnswer
		raw    []byte
		silent int
	}
	variants := []variant{
		{"silent", nil, nil, -1},
		{"garbage", &DevAnswer{}, []byte("\r\nV\t12800\r\nChecksum\t\x07:7"), -1},
		{"bad-check", &DevAnswer{}, []byte(":7F0ED009600DC\n"), -1},
		{"width3-then-silent", &DevAnswer{0, []byte{1, 2, 3}}, nil, 1},
		{"width0", &DevAnswer{0, nil}, nil, -1},
		{"width9", &DevAnswer{0, rng.Bytes(9)}, nil, -1},
		{"width64", &DevAnswer{0, rng.Bytes(64)}, nil, -1},
		{"width3", &DevAnswer{0, []byte{0xFF, 0xFF, 0xFF}}, nil, -1},
		{"flag2", &DevAnswer{2, nil}, nil, -1},
		{"flag8", &DevAnswer{8, []byte{1}}, nil, -1},
		{"foreign", &DevAnswer{}, simGet(0x1234, 0, []byte{1, 2}), -1},
		{"one-ok-then-silent", &DevAnswer{0, []byte{1, 0}}, nil, 1},
		{"byte-FF", &DevAnswer{0, []byte{0xFF}}, nil, -1},
		{"byte-FE", &DevAnswer{0, []byte{0xFE}}, nil, -1},
		{"byte-0A", &DevAnswer{0, []byte{0x0A}}, nil, -1},
		{"byte-80", &DevAnswer{0, []byte{0x80}}, nil, -1},
		{"word-FFFF", &DevAnswer{0, []byte{0xFF, 0xFF}}, nil, -1},
	}
	for idx, it := range pool {
		if !thorough && idx%3 != 0 && it.kind == 1 && !it.n.Signed() {
			continue
		}
		for _, v := range variants {
			dev := NewDevPort(0xA231)
			if v.ans != nil {
				dev.Regs[it.reg().Address()] = *v.ans
			}
			if v.raw != nil {
				dev.RawRegs = map[uint16][]byte{it.reg().Address(): v.raw}
			}
			// connect first (ping + id), then count the frames of the register access alone
			var out string
			before := 0
			func() {
				dev.SilentAfter = -1
				o := outcome{ans: &DevAnswer{}}
				if v.ans != nil {
					o.ans = v.ans
				}
				// readOneDev connects itself: 2 frames for the handshake
				before = 2
				dev.SilentAfter = v.silent
				out, _ = readOneDev(it, o, dev)
			}()
			frames := len(dev.Frames) - before
			op := fmt.Sprintf("A6 %s %d %s", opOfKind[it.kind], idx, v.name)
			res := fmt.Sprintf("%s frames=%d", strings.SplitN(out, "@", 2)[0], frames)
			s.Line(fmt.Sprintf("kind%d-%s", it.kind, v.name), op, res)
			if out == "PANIC" {
				s.Violate(op, res, fmt.Sprintf("reading register %s (%s device) panics", it.reg().Name(), v.name))
			}
			if out == "HANG" {
				s.Violate(op, res, fmt.Sprintf("reading register %s (%s device) does not terminate", it.reg().Name(), v.name))
			}
			if frames > 8 {
				s.Violate(op, res, fmt.Sprintf("reading register %s (%s device) wrote %d command frames: more than eight per register access", it.reg().Name(), v.name, frames))
			}
		}
	}
}

func suiteC09(rng *Rng, thorough bool, s *Sink) {
	pool := buildPool()
	errOutcomes := []outcome{
		{"err:other", nil},
		{"err:unknown-id", &DevAnswer{1, nil}}, {"err:not-supported", &DevAnswer{2, []byte{1}}}, {"err:parameter-error", &DevAnswer{4, []byte{1, 2}}},
		{"err:other", &DevAnswer{8, nil}},
	}
	seenDef := map[string]bool{}
	for idx, it := range pool {
		reg := it.reg()
		def := ""
		switch it.kind {
		case 1:
			def = fmt.Sprintf("n/%v/%d/%v", it.n.Signed(), it.n.Factor(), it.n.Offset())
		case 2:
			def = "t"
		case 3:
			def = "e/" + factoryName(it.e.Factory())
		case 4:
			def = "f/" + factoryName(it.f.Factory())
		}
		firstOfDef := !seenDef[def]
		seenDef[def] = true
		var outs []outcome
		for _, e := range errOutcomes {
			outs = append(outs, e)
		}
		switch it.kind {
		case 1, 3, 4:
			for v := 0; v < 256; v++ { // exhaustive 1-byte
				if it.kind != 1 && !firstOfDef && v%16 != 0 {
					continue
				}
				outs = append(outs, okOutcome([]byte{byte(v)}))
			}
			step := 257
			if firstOfDef {
				step = 13
			}
			if thorough && firstOfDef {
				step = 1
			}
			for v := 0; v < 65536; v += step { // 2-byte
				outs = append(outs, okOutcome(leBytes(2, uint64(v))))
			}
			for _, v := range []uint64{0x7FFF, 0x8000, 0xFFFF, 0x0100, 0x0101, 0x00FF} {
				outs = append(outs, okOutcome(leBytes(2, v)))
			}
			for _, v := range []uint64{0, 1, 0x7FFFFFFF, 0x80000000, 0xFFFFFFFF, 0x00010000, 0x00000100, rng.U64()} {
				outs = append(outs, okOutcome(leBytes(4, v)))
			}
			for _, v := range []uint64{0, 0x7FFFFFFFFFFFFFFF, 0x8000000000000000, 0xFFFFFFFFFFFFFFFF, 1 << 53, 1<<53 + 1, 1 << 32, 0x0100000000000000 + 1, rng.U64()} {
				outs = append(outs, okOutcome(leBytes(8, v)))
			}
			for _, w := range []int{0, 3, 5, 6, 7, 9, 12} {
				outs = append(outs, okOutcome(rng.Bytes(w)))
			}
		case 2:
			texts := [][]byte{nil, []byte("HQ2133ABCDE"), []byte("  SmartSolar 100|30  \x00\x00\x00"), []byte("\x00\x00"), []byte(" \t\r\n\v\f x \t"), []byte("a\x00b\x00\x00"),
				[]byte(" NBSP "), []byte("\u0085        　mid　"), []byte("​zero-width is not a space​"),
				{0xC2}, {0x85, 'x', 0xA0}, {0xE2, 0x80}, {' ', 0xE2, 0x80, ' '}, {0xC2, 0xA0, 0xC2}, {0xE3, 0x80, 0x80, 0x80}, []byte("\xff \xfe"), []byte("  \x00  \x00"), []byte(" \x00")}
			n := 60
			if firstOfDef || thorough {
				n = 600
			}
			alpha := [][]byte{{' '}, {'\t'}, {'\n'}, {0}, {'a'}, {0xC2, 0xA0}, {0xC2, 0x85}, {0xE2, 0x80, 0x83}, {0xE3, 0x80, 0x80}, {0xC2}, {0xA0}, {0xE2, 0x80}, {0xFF}, {'Z'}, {0xE1, 0x9A, 0x80}, {0xE2, 0x81, 0x9F}}
			for i := 0; i < n; i++ {
				var b []byte
				for k := 0; k < rng.Intn(9); k++ {
					b = append(b, alpha[rng.Intn(len(alpha))]...)
				}
				texts = append(texts, b)
			}
			for _, t := range texts {
				outs = append(outs, okOutcome(t))
			}
		}
		for _, o := range outs {
			op := fmt.Sprintf("%s %d %s", opOfKind[it.kind], idx, o.tok)
			out, _ := readOne(it, o)
			s.Line(fmt.Sprintf("kind%d-%s", it.kind, strings.SplitN(o.tok, ":", 2)[0]), op, out)
			if v := oracleC09(it, reg, o, out); v != "" {
				s.Violate(op, out, v)
			}
		}
		// the answer does not come alone
		{
			sample := []outcome{errOutcomes[1], errOutcomes[2], errOutcomes[3]}
			if len(outs) > 8 {
				sample = append(sample, outs[5+rng.Intn(len(outs)-5)], outs[5+rng.Intn(len(outs)-5)])
			}
			lineTrouble(s, rng, it, idx, sample)
		}
		// the same register read again through the same RegisterApi after the device's content changed (and after it
		// refused): the reader reports what the device holds now
		for k := 0; k < 4 && len(outs) > 6; k++ {
			dev := NewDevPort(0xA231)
			first := outs[5+rng.Intn(len(outs)-5)]
			if k == 1 {
				first = outs[1+rng.Intn(3)] // a refusal first
			}
			if first.ans != nil {
				dev.Regs[reg.Address()] = *first.ans
			}
			api, err := connectApi(dev)
			if err != nil {
				continue
			}
			_, _ = readVia(api, it, first)
			second := outs[5+rng.Intn(len(outs)-5)]
			delete(dev.Regs, reg.Address())
			if second.ans != nil {
				dev.Regs[reg.Address()] = *second.ans
			}
			out, _ := readVia(api, it, second)
			op := fmt.Sprintf("%s %d %s mut:second-read-on-this-api-after-%s", opOfKind[it.kind], idx, second.tok, strings.SplitN(first.tok, ":", 2)[0])
			s.Line(fmt.Sprintf("kind%d-reread", it.kind), op, out)
			if v := oracleC09(it, reg, second, out); v != "" {
				s.Violate(op, out, v)
			}
		}
	}
	s.Extra["distinct_register_definitions"] = len(seenDef)
	// the list readers: poll a whole product twice through one RegisterApi, the device's content changing in between;
	// every delivered value is what the device holds at the time of that poll (number, text, enum, field list alike)
	keyOf := func(it poolItem) string {
		k := fmt.Sprintf("%d/%s/%d", it.kind, it.reg().Name(), it.reg().Address())
		switch it.kind {
		case 1:
			k += fmt.Sprintf("/%v/%d/%v", it.n.Signed(), it.n.Factor(), it.n.Offset())
		case 3:
			k += "/" + factoryName(it.e.Factory())
		case 4:
			k += "/" + factoryName(it.f.Factory())
		}
		return k
	}
	idxOf := map[string]int{}
	for i, it := range pool {
		if _, ok := idxOf[keyOf(it)]; !ok {
			idxOf[keyOf(it)] = i
		}
	}
	for _, id := range []uint16{0x203, 0xA381, 0xA056, 0xA053, 0xA231} {
		rl, _ := veregister.GetRegisterListByProduct(veproduct.Product(id))
		dev := NewDevPort(id)
		api, err := connectApi(dev)
		if err != nil {
			continue
		}
		var items []poolItem
		for i := range rl.NumberRegisters {
			items = append(items, poolItem{kind: 1, n: &rl.NumberRegisters[i]})
		}
		for i := range rl.TextRegisters {
			items = append(items, poolItem{kind: 2, t: &rl.TextRegisters[i]})
		}
		for i := range rl.EnumRegisters {
			items = append(items, poolItem{kind: 3, e: &rl.EnumRegisters[i]})
		}
		for i := range rl.FieldListRegisters {
			items = append(items, poolItem{kind: 4, f: &rl.FieldListRegisters[i]})
		}
		for poll := 1; poll <= 3; poll++ {
			content := map[string]outcome{}
			for _, it := range items {
				o := okOutcome(answerFor(it.kind, it.reg(), it.e, rng))
				content[it.reg().Name()] = o
				dev.Regs[it.reg().Address()] = *o.ans
			}
			got := map[string]string{}
			var rv vedirectapi.RegisterValues
			if poll == 2 {
				rv, err = api.ReadRegisterList(context.Background(), rl)
			} else {
				rv, err = api.ReadAllRegisters(context.Background())
			}
			if err != nil {
				s.Violate(fmt.Sprintf("poll %d of product 0x%04X", poll, id), err.Error(), "a healthy device must be readable")
				continue
			}
			for _, v := range rv.GetList() {
				got[v.Name()] = "ok:" + valStr(v)
			}
			for _, it := range items {
				name := it.reg().Name()
				o := content[name]
				idx, known := idxOf[keyOf(it)]
				if !known {
					continue
				}
				op := fmt.Sprintf("%s %d %s mut:poll-%d-of-product-%d-through-the-list-reader", opOfKind[it.kind], idx, o.tok, poll, id)
				out := got[name]
				s.Line(fmt.Sprintf("kind%d-list-poll", it.kind), op, out)
				if v := oracleC09(it, it.reg(), o, out); v != "" {
					s.Violate(op, out, v)
				}
			}
		}
	}
}

// oracleC09: the property stated directly, independent of the Lean model
func oracleC09(it poolItem, reg veregister.Register, o outcome, out string) string {
	name := reg.Name()
	if o.ans == nil || o.ans.Flag != 0 {
		want := o.tok + "@" + name
		if out != want {
			return fmt.Sprintf("register %s: transport outcome %s must surface as %s (wrapped with the register name, matchable), got %s", name, o.tok, want, out)
		}
		return ""
	}
	p := o.ans.Payload
	switch it.kind {
	case 1:
		var raw float64
		if it.n.Signed() {
			switch len(p) {
			case 1:
				raw = float64(int8(p[0]))
			case 2:
				raw = float64(int16(leU(p)))
			case 4:
				raw = float64(int32(leU(p)))
			case 8:
				raw = float64(int64(leU(p)))
			default:
				if !strings.HasPrefix(out, "err:other@"+name) {
					return fmt.Sprintf("signed register %s with a %d-byte answer must be an error, got %s", name, len(p), out)
				}
				return ""
			}
		} else {
			raw = float64(leU(p))
		}
		want := "ok:" + fbits(raw/float64(it.n.Factor())+it.n.Offset())
		if out != want {
			return fmt.Sprintf("number register %s (signed=%v factor=%d offset=%v) raw bytes %X: want raw/factor+offset = %s, got %s", name, it.n.Signed(), it.n.Factor(), it.n.Offset(), p, want, out)
		}
	case 2:
		want := "ok:" + HEX([]byte(strings.TrimSpace(string(bytes.TrimRight(p, "\x00")))))
		if out != want {
			return fmt.Sprintf("text register %s bytes %X: want %s, got %s", name, p, want, out)
		}
	case 3:
		m := it.e.Factory().IntToStringMap()
		raw := leU(p)
		// the raw value itself must be a key (a raw value too wide for the platform's int is no key of any table)
		if nm, ok := m[int(raw)]; ok && raw <= math.MaxInt32 {
			want := fmt.Sprintf("ok:%d:%s", raw, hexS(nm))
			if out != want {
				return fmt.Sprintf("enum register %s raw %d: want %s, got %s", name, raw, want, out)
			}
		} else if out != "err:invalid-enum@"+name {
			return fmt.Sprintf("enum register %s raw %d (undefined code): want an error matching ErrInvalidEnumIdx wrapped with the name, got %s", name, raw, out)
		}
	case 4:
		m := it.f.Factory().IntToStringMap()
		raw := leU(p)
		ks := make([]int, 0, len(m))
		for k := range m {
			ks = append(ks, k)
		}
		sort.Ints(ks)
		var parts, names []string
		for _, k := range ks {
			set := raw&(1<<uint(k)) != 0
			parts = append(parts, fmt.Sprintf("%d:%s", k, b01(set)))
			if set {
				names = append(names, m[k])
			}
		}
		if !strings.HasPrefix(out, "ok:"+strings.Join(parts, ",")+"|") {
			return fmt.Sprintf("field-list register %s raw 0x%X: want bit set %s, got %s", name, raw, strings.Join(parts, ","), out)
		}
	}
	return ""
}

// ---------- C10 ----------

type streamRun struct {
	events []string
	res    string
	maps   string
}

func valStr(v any) string {
	switch x := v.(type) {
	case vedirectapi.NumberRegisterValue:
		return fmt.Sprintf("%s", fbits(x.Value()))
	case vedirectapi.TextRegisterValue:
		return HEX([]byte(x.Value()))
	case vedirectapi.EnumRegisterValue:
		return fmt.Sprintf("%d:%s", x.Value().Idx(), hexS(x.Value().String()))
	case vedirectapi.FieldListValue:
		return fieldsOut(x.Value()) + "|" + hexS(x.CommaString())
	}
	return "?"
}

// answerFor: a valid answer for a register (so that decoding succeeds)
func answerFor(kind int, r veregister.Register, e *veregister.EnumRegisterStruct, rng *Rng) []byte {
	switch kind {
	case 1:
		return rng.Bytes([]int{1, 2, 4}[rng.Intn(3)])
	case 2:
		return []byte(fmt.Sprintf("T%04X ", r.Address()))
	case 3:
		m := e.Factory().IntToStringMap()
		ks := make([]int, 0, len(m))
		for k := range m {
			ks = append(ks, k)
		}
		sort.Ints(ks)
		return []byte{byte(ks[rng.Intn(len(ks))])}
	}
	return rng.Bytes(2)
}

// deadlinePort: a port that also offers what net.Conn and *os.File offer - SetReadDeadline - as a TCP or RFC 2217 serial bridge
// does. Nothing in the property depends on it; a library that uses it must leave the port as it found it.
type deadlinePort struct {
	*DevPort
	deadline time.Time
	sets     int
}

func (p *deadlinePort) SetReadDeadline(t time.Time) error { p.deadline = t; p.sets++; return nil }
func (p *deadlinePort) SetDeadline(t time.Time) error     { p.deadline = t; p.sets++; return nil }
func (p *deadlinePort) Read(b []byte) (int, error) {
	if !p.deadline.IsZero() && time.Now().After(p.deadline) {
		return 0, os.ErrDeadlineExceeded
	}
	return p.DevPort.Read(b)
}

// runsAfterDeadlineRun: on one RegisterApi, a run bound by a real deadline completes in time; the deadline then passes; later
// runs - without a deadline, with a cancel-only context, with a new deadline - are complete runs again
func runsAfterDeadlineRun(s *Sink, rng *Rng) {
	for _, id := range []uint16{0xA056, 0x203} {
		rl, _ := veregister.GetRegisterListByProduct(veproduct.Product(id))
		dev := NewDevPort(id)
		for i := range rl.NumberRegisters {
			dev.Regs[rl.NumberRegisters[i].Address()] = DevAnswer{0, answerFor(1, rl.NumberRegisters[i], nil, rng)}
		}
		for i := range rl.TextRegisters {
			dev.Regs[rl.TextRegisters[i].Address()] = DevAnswer{0, answerFor(2, rl.TextRegisters[i], nil, rng)}
		}
		for i := range rl.EnumRegisters {
			dev.Regs[rl.EnumRegisters[i].Address()] = DevAnswer{0, answerFor(3, rl.EnumRegisters[i], &rl.EnumRegisters[i], rng)}
		}
		for i := range rl.FieldListRegisters {
			dev.Regs[rl.FieldListRegisters[i].Address()] = DevAnswer{0, answerFor(4, rl.FieldListRegisters[i], nil, rng)}
		}
		port := &deadlinePort{DevPort: dev}
		api, err := vedirectapi.NewRegisterApi(port, vedirect.Config{})
		if err != nil {
			continue
		}
		run := func(ctx context.Context) (n int, err error) {
			defer func() {
				if r := recover(); r != nil {
					err = fmt.Errorf("PANIC: %v", r)
				}
			}()
			count := func() { n++ }
			err = api.StreamRegisterList(ctx, rl, vedirectapi.ValueHandler{Number: func(vedirectapi.NumberRegisterValue) { count() }, Text: func(vedirectapi.TextRegisterValue) { count() },
				Enum: func(vedirectapi.EnumRegisterValue) { count() }, FieldList: func(vedirectapi.FieldListValue) { count() }})
			return
		}
		ctx1, c1 := context.WithTimeout(context.Background(), 150*time.Millisecond)
		n1, e1 := run(ctx1)
		c1()
		op := fmt.Sprintf("ST runs on one api after a deadline-bound run, product 0x%04X, port offers SetReadDeadline", id)
		if e1 != nil || n1 != rl.Len() {
			continue // the machine was too slow for the first run: nothing to conclude
		}
		time.Sleep(200 * time.Millisecond) // the first run's deadline passes
		ctx3, c3 := context.WithCancel(context.Background())
		ctx4, c4 := context.WithTimeout(context.Background(), 5*time.Second)
		for ri, ctx := range []context.Context{context.Background(), ctx3, ctx4} {
			n, e := run(ctx)
			if e != nil || n != rl.Len() {
				s.Violate(op, fmt.Sprintf("run %d: %d of %d delivered, err=%v", ri+2, n, rl.Len(), e), fmt.Sprintf("a healthy device, run no. %d on this RegisterApi (context %d of: none / cancel-only / fresh 5 s deadline) after an earlier run whose 150 ms deadline has passed meanwhile: %d of %d registers delivered, err=%v", ri+2, ri, n, rl.Len(), e))
				break
			}
		}
		c3()
		c4()
		s.Extra["runs_after_a_deadline_bound_run"] += 4
	}
}

func suiteC10(rng *Rng, thorough bool, s *Sink) {
	defer runsAfterDeadlineRun(s, rng.Fork())
	pool := buildPool()
	classIds := []uint16{0x203, 0xA381, 0xA056, 0xA053, 0xA231}
	type plan struct {
		spec string
		rl   veregister.RegisterList
	}
	var plans []plan
	for _, id := range classIds {
		rl, _ := veregister.GetRegisterListByProduct(veproduct.Product(id))
		plans = append(plans, plan{fmt.Sprintf("P%d", id), rl})
	}
	// arbitrary sub-lists (with duplicate names / addresses)
	nsub := 12
	if thorough {
		nsub = 150
	}
	for i := 0; i < nsub; i++ {
		rl := veregister.NewRegisterList()
		var idx [5][]string
		for k := 0; k < 1+rng.Intn(8); k++ {
			j := rng.Intn(len(pool))
			if k > 0 && rng.Intn(4) == 0 { // duplicate
				j, _ = strconv.Atoi(strings.Split(strings.Join(append(append(append(idx[1], idx[2]...), idx[3]...), idx[4]...), ","), ",")[0])
			}
			it := pool[j]
			switch it.kind {
			case 1:
				rl.AppendNumberRegisterStruct(*it.n)
			case 2:
				rl.AppendTextRegisterStruct(*it.t)
			case 3:
				rl.AppendEnumRegisterStruct(*it.e)
			case 4:
				rl.AppendFieldListRegisterStruct(*it.f)
			}
			idx[it.kind] = append(idx[it.kind], strconv.Itoa(j))
		}
		j := func(l []string) string {
			if len(l) == 0 {
				return "-"
			}
			return strings.Join(l, ",")
		}
		plans = append(plans, plan{j(idx[1]) + ";" + j(idx[2]) + ";" + j(idx[3]) + ";" + j(idx[4]), rl})
	}
	for pi, pl := range plans {
		total := pl.rl.Len()
		// device content
		regs := map[uint16]DevAnswer{}
		var mp []string
		add := func(kind int, r veregister.Register, e *veregister.EnumRegisterStruct) {
			if _, ok := regs[r.Address()]; ok {
				return
			}
			p := answerFor(kind, r, e, rng)
			regs[r.Address()] = DevAnswer{0, p}
		}
		for i := range pl.rl.NumberRegisters {
			add(1, pl.rl.NumberRegisters[i], nil)
		}
		for i := range pl.rl.TextRegisters {
			add(2, pl.rl.TextRegisters[i], nil)
		}
		for i := range pl.rl.EnumRegisters {
			add(3, pl.rl.EnumRegisters[i], &pl.rl.EnumRegisters[i])
		}
		for i := range pl.rl.FieldListRegisters {
			add(4, pl.rl.FieldListRegisters[i], nil)
		}
		_ = mp
		all := pl.rl.GetRegisters() // only for picking failing addresses
		type scen struct {
			hs      string
			cancel  int // -1 none; k: cancelled once k reads have started
			how     string
			fail    int // index into planned order (-1 none)
			failTok string
			flag    byte // failTok err:other realised by a reserved response flag instead of silence
			warm    bool // the measured run is the second one on this RegisterApi: a complete healthy run precedes it
			expire  bool // the context ends by its deadline (Err() = DeadlineExceeded) instead of by cancel()
		}
		var scens []scen
		scens = append(scens, scen{hs: "1111", cancel: -1, fail: -1})
		scens = append(scens, scen{hs: "1111", cancel: -1, fail: -1, warm: true}) // a second complete run after the device's content changed
		for h := 0; h < 16; h++ {                                                 // every subset of nil handlers
			scens = append(scens, scen{hs: fmt.Sprintf("%04b", h), cancel: -1, fail: -1})
		}
		posStep := 1
		if !thorough && total > 12 && pi > 1 {
			posStep = 3
		}
		for k := 0; k <= total; k += posStep { // a cancellation at every position
			scens = append(scens, scen{hs: "1111", cancel: k, how: []string{"callback", "write", "before"}[k%2], fail: -1, warm: k%5 == 4, expire: k%3 == 1})
			if k == 0 || k == total/2 {
				scens = append(scens, scen{hs: "1111", cancel: k, how: "callback", fail: -1, expire: true})
			}
			if k == 0 {
				scens[len(scens)-1].how = "before"
			}
		}
		for k := 0; k < total; k += posStep { // a device failure at every register position
			scens = append(scens, scen{hs: "1111", cancel: -1, fail: k, failTok: []string{"err:other", "err:unknown-id", "err:not-supported", "err:parameter-error"}[rng.Intn(4)]})
			// the same on a RegisterApi that has already completed a healthy run, and with a refusal by a reserved flag
			scens = append(scens, scen{hs: "1111", cancel: -1, fail: k, failTok: []string{"err:other", "err:unknown-id", "err:not-supported"}[rng.Intn(3)], warm: true})
			scens = append(scens, scen{hs: "1111", cancel: -1, fail: k, failTok: "err:other", flag: []byte{0x08, 0x10, 0x20, 0x40, 0x80, 0xF8}[rng.Intn(6)]})
			if k%4 == 0 {
				scens = append(scens, scen{hs: []string{"1010", "0111", "1101"}[rng.Intn(3)], cancel: rng.Intn(total + 1), how: "callback", fail: k, failTok: "err:other"})
			}
			// the context ends while the failing register is being read (a poll with a timeout against a device that refuses or
			// has died): the run still ends with that register's error
			scens = append(scens, scen{hs: "1111", cancel: k + 1, how: "write", fail: k, failTok: []string{"err:unknown-id", "err:not-supported", "err:parameter-error", "err:other"}[k%4], expire: k%2 == 1})
		}
		_ = all
		for _, sc := range scens {
			runStream(s, pl.spec, pl.rl, regs, sc.hs, sc.cancel, sc.how, sc.fail, sc.failTok, sc.flag, sc.warm, sc.expire)
		}
		// the same runs on a line where late answers for other registers (with and without a refusal flag) and intact frames
		// of other types sit in front of some of the answers: every register is still delivered, once, in order
		for ti := 0; ti < 3; ti++ {
			ti := ti
			streamHookName = fmt.Sprintf("a-late-answer-in-front-of-two-of-the-answers-%d", ti)
			streamDevHook = func(d *DevPort) {
				// a device answers every command once: the late frame is in front of the first answer only, and the answers to
				// the retries it causes stay behind as late answers for the registers read next (never more than two)
				var as []int
				for a, ans := range d.Regs {
					if ans.Flag == 0 {
						as = append(as, int(a))
					}
				}
				sort.Ints(as)
				if len(as) == 0 {
					return
				}
				for _, a := range []int{as[ti%len(as)], as[(len(as)/2+ti)%len(as)]} {
					addr := uint16(a)
					us, _ := staleUnits(addr, rng)
					u := us[[]int{1, 10, 26}[ti]] // a refusal for a neighbour register, another one, the frame-error response
					d.Seq[addr] = [][]byte{append(append([]byte(nil), u...), simGet(addr, 0, d.Regs[addr].Payload)...)}
				}
			}
			runStream(s, pl.spec, pl.rl, regs, "1111", -1, "", -1, "", 0, false, false)
			streamDevHook = nil
		}
	}
}

func plannedOf(rl veregister.RegisterList, hs string) (addrs []uint16, names []string) {
	if hs[0] == '1' {
		for _, r := range rl.NumberRegisters {
			addrs, names = append(addrs, r.Address()), append(names, r.Name())
		}
	}
	if hs[1] == '1' {
		for _, r := range rl.TextRegisters {
			addrs, names = append(addrs, r.Address()), append(names, r.Name())
		}
	}
	if hs[2] == '1' {
		for _, r := range rl.EnumRegisters {
			addrs, names = append(addrs, r.Address()), append(names, r.Name())
		}
	}
	if hs[3] == '1' {
		for _, r := range rl.FieldListRegisters {
			addrs, names = append(addrs, r.Address()), append(names, r.Name())
		}
	}
	return
}

// manualCtx: a context that ends when told to, the way a deadline ends it (Err() = context.DeadlineExceeded)
type manualCtx struct {
	done chan struct{}
	mu   sync.Mutex
	err  error
}

func (c *manualCtx) Deadline() (time.Time, bool) { return time.Time{}, true }
func (c *manualCtx) Done() <-chan struct{}       { return c.done }
func (c *manualCtx) Value(any) any               { return nil }
func (c *manualCtx) Err() error {
	c.mu.Lock()
	defer c.mu.Unlock()
	return c.err
}
func (c *manualCtx) expire() {
	c.mu.Lock()
	defer c.mu.Unlock()
	if c.err == nil {
		c.err = context.DeadlineExceeded
		close(c.done)
	}
}

// streamDevHook: if set, applied to the simulated device of the next runStream calls (line trouble in front of some answers)
var streamDevHook func(d *DevPort)
var streamHookName string

func runStream(s *Sink, spec string, rl veregister.RegisterList, regs map[uint16]DevAnswer, hs string, cancel int, how string, fail int, failTok string, flag byte, warm bool, expire bool) {
	pAddrs, pNames := plannedOf(rl, hs)
	dev := NewDevPort(0xA231)
	var mp []string
	failAddr := -1
	if fail >= 0 && fail < len(pAddrs) {
		failAddr = int(pAddrs[fail])
	}
	addrsSorted := make([]int, 0, len(regs))
	for a := range regs {
		addrsSorted = append(addrsSorted, int(a))
	}
	sort.Ints(addrsSorted)
	for _, a := range addrsSorted {
		ans := regs[uint16(a)]
		if a == failAddr {
			switch failTok {
			case "err:other":
				if flag == 0 {
					continue // silent
				}
				ans = DevAnswer{flag, ans.Payload} // refused with a reserved flag (and the value behind it)
			case "err:unknown-id":
				ans = DevAnswer{1, nil}
			case "err:not-supported":
				ans = DevAnswer{2, nil}
			case "err:parameter-error":
				ans = DevAnswer{4, nil}
			}
			dev.Regs[uint16(a)] = ans
			mp = append(mp, fmt.Sprintf("%d=%s", a, failTok))
			continue
		}
		dev.Regs[uint16(a)] = ans
		mp = append(mp, fmt.Sprintf("%d=ok:%s", a, HEX(ans.Payload)))
	}
	if streamDevHook != nil {
		dev.RawRegs = map[uint16][]byte{}
		streamDevHook(dev)
	}
	api, err := connectApi(dev)
	if err != nil {
		return
	}
	if warm {
		// a complete, healthy run on the same RegisterApi first; nothing of it may carry over
		failing := dev.Regs
		dev.Regs = map[uint16]DevAnswer{}
		for a, ans := range regs {
			// what the device holds during the first run differs from what it holds during the measured one
			pl := append([]byte(nil), ans.Payload...)
			if len(pl) > 0 {
				pl[0] ^= 0x01
			}
			dev.Regs[a] = DevAnswer{ans.Flag, pl}
		}
		_, _ = api.ReadRegisterList(context.Background(), rl)
		_ = api.StreamRegisterList(context.Background(), rl, vedirectapi.ValueHandler{Number: func(vedirectapi.NumberRegisterValue) {}, Text: func(vedirectapi.TextRegisterValue) {},
			Enum: func(vedirectapi.EnumRegisterValue) {}, FieldList: func(vedirectapi.FieldListValue) {}})
		dev.Regs = failing
	}
	ctx, cancelFn := context.WithCancel(context.Background())
	defer cancelFn()
	if expire {
		mc := &manualCtx{done: make(chan struct{})}
		ctx, cancelFn = mc, mc.expire
	}
	var events []string
	collected := map[string]string{}
	cbCount := 0
	readsStarted := 0
	lastGet := -1
	runLen := 0
	dev.Gets = nil
	dev.OnGet = func(addr uint16) {
		// a new read starts with a Get for a new address, or after a callback
		if int(addr) != lastGet || runLen == 0 {
			readsStarted++
			events = append(events, fmt.Sprintf("R%d", addr))
			if how == "write" && cancel >= 1 && readsStarted == cancel {
				cancelFn()
			}
		}
		lastGet = int(addr)
		runLen++
	}
	cb := func(name, val string) {
		events = append(events, "C"+name+"="+val)
		collected[name] = val
		cbCount++
		runLen = 0
		if how == "callback" && cancel >= 1 && cbCount == cancel {
			cancelFn()
		}
	}
	if how == "before" && cancel == 0 {
		cancelFn()
	}
	if cancel == 0 && how != "before" {
		cancelFn()
	}
	h := vedirectapi.ValueHandler{}
	if hs[0] == '1' {
		h.Number = func(v vedirectapi.NumberRegisterValue) { cb(v.Name(), valStr(v)) }
	}
	if hs[1] == '1' {
		h.Text = func(v vedirectapi.TextRegisterValue) { cb(v.Name(), valStr(v)) }
	}
	if hs[2] == '1' {
		h.Enum = func(v vedirectapi.EnumRegisterValue) { cb(v.Name(), valStr(v)) }
	}
	if hs[3] == '1' {
		h.FieldList = func(v vedirectapi.FieldListValue) { cb(v.Name(), valStr(v)) }
	}
	var serr error
	panicked := false
	func() {
		defer func() {
			if r := recover(); r != nil {
				panicked = true
			}
		}()
		serr = api.StreamRegisterList(ctx, rl, h)
	}()
	res := "ok"
	if panicked {
		res = "PANIC"
	} else if serr != nil {
		if errors.Is(serr, vedirectapi.ErrCtxDone) {
			res = "err:ctx-done@"
		} else {
			nm := "?"
			for _, n := range pNames {
				if strings.Contains(serr.Error(), "'"+n+"'") {
					nm = n
				}
			}
			res = "err:" + errKind(serr) + "@" + nm
		}
	}
	names := make([]string, 0, len(collected))
	for n := range collected {
		names = append(names, n)
	}
	sort.Strings(names)
	var ms []string
	for _, n := range names {
		ms = append(ms, n+"="+collected[n])
	}
	c := "-"
	if cancel >= 0 {
		c = strconv.Itoa(cancel)
	}
	m := strings.Join(mp, ",")
	if m == "" {
		m = "-"
	}
	op := fmt.Sprintf("ST %s %s %s %s", hs, c, spec, m)
	if warm {
		op += " mut:second-run-on-this-api"
	}
	if flag != 0 {
		op += fmt.Sprintf(" mut:refused-with-flag-%02X", flag)
	}
	if expire {
		op += " mut:context-ends-by-deadline"
	}
	if streamDevHook != nil {
		op += " mut:" + streamHookName
	}
	out := strings.Join(events, ";") + " -> " + res + " M=" + strings.Join(ms, ";")
	tag := "stream"
	if cancel >= 0 {
		tag = "cancel-" + how
	}
	if fail >= 0 {
		tag = "fail-" + strings.TrimPrefix(failTok, "err:")
	}
	if hs != "1111" {
		tag += "-nil-handlers"
	}
	s.Line(tag, op, out)
	// ---- the property, directly ----
	viol := func(w string) { s.Violate(op[:min(len(op), 300)], out[:min(len(out), 300)], w) }
	// expected prefix length
	n := len(pAddrs)
	stop := n
	wantRes := "ok"
	if fail >= 0 && fail < n {
		for i, a := range pAddrs { // the device fails by address: the first planned register with that address
			if int(a) == failAddr {
				fail = i
				break
			}
		}
		stop = fail
		wantRes = failTok + "@" + pNames[fail]
	}
	if cancel >= 0 && cancel <= stop && cancel < n {
		stop = cancel
		wantRes = "err:ctx-done@"
	}
	// callbacks: exactly planned[0:stop], in order, once each
	var cbs []string
	var reads []string
	for _, e := range events {
		if e[0] == 'C' {
			cbs = append(cbs, strings.SplitN(e[1:], "=", 2)[0])
		} else {
			reads = append(reads, e[1:])
		}
	}
	if strings.Join(cbs, ",") != strings.Join(pNames[:stop], ",") {
		viol(fmt.Sprintf("handlers invoked for %v, want exactly the first %d planned registers %v (list order, once each)", cbs, stop, pNames[:stop]))
	}
	wantReads := stop
	if wantRes != "ok" && wantRes != "err:ctx-done@" {
		wantReads = stop + 1 // the failing register is read, nothing after it
	}
	if len(reads) != wantReads {
		viol(fmt.Sprintf("%d register reads on the wire, want %d (no register is read after the run ended / for a nil handler)", len(reads), wantReads))
	}
	if res != wantRes {
		viol(fmt.Sprintf("result %s, want %s", res, wantRes))
	}
	// the map-returning variant on an identical device (only when the cancellation does not need a callback hook)
	if hs == "1111" && (cancel < 0 || how != "callback") {
		dev2 := NewDevPort(0xA231)
		for a, v := range dev.Regs {
			dev2.Regs[a] = v
		}
		api2, err := connectApi(dev2)
		if err == nil {
			ctx2, c2 := context.WithCancel(context.Background())
			started := 0
			last, rl2len := -1, 0
			dev2.OnGet = func(addr uint16) {
				if int(addr) != last || rl2len == 0 {
					started++
					if cancel >= 1 && started == cancel {
						c2()
					}
				}
				last = int(addr)
				rl2len++
			}
			if cancel == 0 {
				c2()
			}
			rv, err2 := api2.ReadRegisterList(ctx2, rl)
			c2()
			got := map[string]string{}
			for k, v := range rv.NumberValues {
				got[k] = valStr(v)
			}
			for k, v := range rv.TextValues {
				got[k] = valStr(v)
			}
			for k, v := range rv.EnumValues {
				got[k] = valStr(v)
			}
			for k, v := range rv.FieldListValues {
				got[k] = valStr(v)
			}
			// a register read at most once more than the stream variant when the cancel falls "during a write":
			// compare only when both runs ended for the same reason
			same := (err2 == nil) == (serr == nil)
			if same && how != "write" {
				if len(got) != len(collected) {
					viol(fmt.Sprintf("ReadRegisterList returned %d values, the stream delivered %d", len(got), len(collected)))
				}
				for k, v := range collected {
					if got[k] != v {
						viol(fmt.Sprintf("ReadRegisterList[%s] = %s, delivered value %s", k, got[k], v))
					}
				}
			}
		}
	}
}

// ---------- C11 ----------

func suiteC11(rng *Rng, thorough bool, s *Sink) {
	conn := func(dev *DevPort) (string, *vedirectapi.RegisterApi, error) {
		var api *vedirectapi.RegisterApi
		var err error
		panicked := false
		func() {
			defer func() {
				if r := recover(); r != nil {
					panicked = true
				}
			}()
			api, err = vedirectapi.NewRegisterApi(dev, vedirect.Config{})
		}()
		if panicked {
			return "PANIC", nil, nil
		}
		if err != nil {
			if api != nil {
				return "err-with-object", api, err
			}
			return "err:" + errKind(err), nil, err
		}
		if api == nil {
			return "nil-without-error", nil, nil
		}
		return fmt.Sprintf("ok:%d:%d", uint16(api.Product), fnv64([]byte(renderList(api.Registers)))), api, nil
	}
	for id := 0; id < 65536; id++ {
		dev := NewDevPort(uint16(id))
		out, api, err := conn(dev)
		op := fmt.Sprintf("CN ok ok:%d", id)
		tag := "unknown-id"
		p := veproduct.Product(id)
		if p.Exists() {
			tag = "known-id"
		}
		s.Line(tag, op, out)
		// the property, directly
		supported := productClass(p) != ""
		if err != nil && api != nil {
			s.Violate(op, out, fmt.Sprintf("device id 0x%04X: connect returned an error together with an object (\"an error and no object\")", id))
		}
		if supported != (err == nil && api != nil) {
			s.Violate(op, out, fmt.Sprintf("device id 0x%04X (%q): known product of a supported type = %v, but connect gave %s", id, p.String(), supported, out))
		}
		if api != nil && err == nil {
			want := classList(productClass(p)) // the list defined for the product's class (C12's oracle), not the library's selection
			if uint16(api.Product) != uint16(id) || renderList(api.Registers) != renderList(want) {
				s.Violate(op, out, fmt.Sprintf("device id 0x%04X: object's product 0x%04X / register list differ from the id / the list defined for that product", id, uint16(api.Product)))
			}
		}
		if len(dev.Frames) < 2 || string(dev.Frames[0]) != ":154\n" || string(dev.Frames[1]) != ":451\n" {
			s.Violate(op, out, fmt.Sprintf("connect did not ping and then ask the device id, in that order: frames %q", dev.Frames))
		}
	}
	// failure shapes
	type shape struct {
		name  string
		set   func(d *DevPort)
		ping  string
		devid func(id uint16) string
	}
	okId := func(id uint16) string { return fmt.Sprintf("ok:%d", id) }
	errId := func(id uint16) string { return "err" }
	shapes := []shape{
		{"silent-ping", func(d *DevPort) { d.NoPing = true }, "err", okId},
		{"silent-id", func(d *DevPort) { d.NoId = true }, "ok", errId},
		{"garbage-ping", func(d *DevPort) { d.BadPing = []byte("\r\nV\t12800\r\n") }, "err", okId},
		{"partial-ping", func(d *DevPort) { d.BadPing = []byte(":5164") }, "err", okId},
		{"async-only-ping", func(d *DevPort) { d.BadPing = simFrame(0xA, []byte{1, 2, 3, 4}) }, "err", okId},
		{"bad-check-id", func(d *DevPort) { d.BadId = []byte(":153A062\n") }, "ok", errId},
		{"odd-id", func(d *DevPort) { d.BadId = []byte(":153A06\n") }, "ok", errId},
		{"short-id", func(d *DevPort) { d.BadId = []byte(":154\n") }, "ok", errId},
		{"one-byte-id", func(d *DevPort) { d.BadId = simFrame(1, []byte{0x53}) }, "ok", errId},
		{"wrong-type-id", func(d *DevPort) { d.BadId = simFrame(7, []byte{0x53, 0xA0}) }, "ok", errId},
		{"nonhex-id", func(d *DevPort) { d.BadId = []byte(":153G060\n") }, "ok", errId},
		{"truncated-id", func(d *DevPort) { d.BadId = []byte(":153A0") }, "ok", errId},
	}
	// a healthy device behind an unusual but legal port: Flush() reports an error (a pty, a TCP bridge); bytes received before
	// the connect are still unread (a late answer to somebody else's ping, a Done frame with another id, text-protocol output)
	for _, id := range []uint16{0xA053, 0x203, 0xA231, 0xA340, 0x1234, 0xA04B} {
		stale := [][]byte{nil, simFrame(5, []byte{0x16, 0x41}), append(simFrame(5, []byte{0x16, 0x41}), simFrame(1, []byte{0x4B, 0xA0})...), []byte("\r\nV\t12800\r\nI\t-1500"), simFrame(1, []byte{0x03, 0x02})}
		for si, st := range stale {
			for _, ferr := range []error{nil, errors.New("flush is not supported by this port")} {
				if st == nil && ferr == nil {
					continue
				}
				dev := NewDevPort(id)
				dev.Pending = st
				dev.FlushErr = ferr
				out, api, err := conn(dev)
				op := fmt.Sprintf("CN ok ok:%d mut:port-stale%d-flusherr%v", id, si, ferr != nil)
				s.Line("port-stale-or-flush-error", op, out)
				supported := productClass(veproduct.Product(id)) != ""
				if supported != (err == nil && api != nil) || (api != nil && uint16(api.Product) != id) {
					s.Violate(op, out, fmt.Sprintf("device id 0x%04X answers ping and id query; %d stale bytes were pending before the connect, Flush() error=%v: connect gave %s", id, len(st), ferr, out))
				}
				if len(dev.Frames) < 2 || string(dev.Frames[0]) != ":154\n" || string(dev.Frames[1]) != ":451\n" {
					s.Violate(op, out, fmt.Sprintf("connect did not ping and then ask the device id: frames %q", dev.Frames))
				}
			}
		}
	}
	// a chatty device: a burst of asynchronous frames (an MPPT in HEX mode sends them every second) sits in front of the pong
	// and in front of the answer to the id query - it still "answers both"
	for _, id := range []uint16{0xA056, 0x203, 0xA231, 0xA340, 0x1234} {
		for _, n := range []int{1, 2, 7, 8, 9, 12, 40, 200} {
			for where := 0; where < 3; where++ {
				var burst []byte
				for i := 0; i < n; i++ {
					burst = append(burst, simFrame(0xA, []byte{0xBC, 0xED, 0x00, byte(i), byte(n)})...)
				}
				dev := NewDevPort(id)
				if where != 1 {
					dev.PingPrefix = burst
				}
				if where != 0 {
					dev.IdPrefix = burst
				}
				out, api, err := conn(dev)
				op := fmt.Sprintf("CN ok ok:%d mut:burst-of-%d-async-frames-in-front-of-answer-%d", id, n, where)
				s.Line("async-burst", op, out)
				supported := productClass(veproduct.Product(id)) != ""
				if supported != (err == nil && api != nil) || (api != nil && uint16(api.Product) != id) {
					s.Violate(op, out, fmt.Sprintf("device id 0x%04X answers ping and id query behind %d asynchronous frames: connect gave %s", id, n, out))
				}
			}
		}
	}
	// the caller keeps the port and tries again (a device that was still booting, a garbled first answer): every connect is
	// decided by what the device does during *that* connect
	for _, id := range []uint16{0xA056, 0x203, 0xA231, 0xA340, 0x1234} {
		for fi, first := range []func(d *DevPort){
			func(d *DevPort) { d.NoPing = true }, func(d *DevPort) { d.NoId = true }, func(d *DevPort) { d.BadId = []byte(":153A062\n") },
			func(d *DevPort) { d.Id = 0x1234 }, func(d *DevPort) { d.Id = 0xA340 }, func(d *DevPort) { d.BadPing = []byte(":5164") },
		} {
			dev := NewDevPort(id)
			first(dev)
			out1, api1, err1 := conn(dev)
			if api1 != nil || err1 == nil {
				continue // (decided above)
			}
			for k := 2; k <= 4; k++ {
				// the garbage collector runs between the attempts (finalizers of whatever the failed connect left behind get their
				// chance): the port is the caller's and stays open
				runtime.GC()
				time.Sleep(5 * time.Millisecond)
				runtime.GC()
				time.Sleep(5 * time.Millisecond)
				if dev.Closed {
					s.Violate(fmt.Sprintf("CN ok ok:%d mut:connect-%d-on-this-port-after-failure-%d", id, k, fi), "port closed", fmt.Sprintf("after a failed connect (%s) the caller's port was closed behind its back (before connect no. %d)", out1, k))
					dev.Closed = false
				}
				// the device is healthy now
				dev.NoPing, dev.NoId, dev.BadId, dev.BadPing, dev.Id = false, false, nil, nil, id
				dev.Frames = nil
				out, api, err := conn(dev)
				op := fmt.Sprintf("CN ok ok:%d mut:connect-%d-on-this-port-after-failure-%d", id, k, fi)
				s.Line("reconnect-after-failure", op, out)
				supported := productClass(veproduct.Product(id)) != ""
				if supported != (err == nil && api != nil) || (api != nil && uint16(api.Product) != id) {
					s.Violate(op, out, fmt.Sprintf("device id 0x%04X answers ping and id query at connect no. %d on a port whose first connect had failed (%s): connect gave %s", id, k, out1, out))
				}
				if len(dev.Frames) < 2 || string(dev.Frames[0]) != ":154\n" || string(dev.Frames[1]) != ":451\n" {
					s.Violate(op, out, fmt.Sprintf("connect no. %d did not ping and then ask the device id: frames %q", k, dev.Frames))
				}
				if k == 3 && api != nil {
					api.Close() // and once more after a Close of the previous object (the caller reopens its port)
					dev.Closed = false
				}
			}
		}
	}
	for _, sh := range shapes {
		for _, id := range []uint16{0xA053, 0x203, 0xA231, 0xA340, 0x1234} {
			dev := NewDevPort(id)
			sh.set(dev)
			out, api, err := conn(dev)
			op := fmt.Sprintf("CN %s %s", sh.ping, sh.devid(id))
			s.Line("shape-"+sh.name, op, out)
			if api != nil || err == nil {
				s.Violate(op, out, fmt.Sprintf("device %s (id 0x%04X): connect must fail without an object, got %s", sh.name, id, out))
			}
			if sh.ping == "err" && len(dev.Frames) > 1 {
				s.Violate(op, out, "the device id was queried although the ping was not answered")
			}
		}
	}
}

// errSurvey: refusals collected over several calls on one driver / one RegisterApi and looked at afterwards (a survey of
// the registers a device supports, errors sent to a logger goroutine, errors.Join of a batch): each error still matches the
// sentinel of *its* flag - and only that one - after the later calls
func errSurvey(s *Sink, rng *Rng) {
	kindOf := map[byte]string{1: "unknown-id", 2: "not-supported", 4: "parameter-error"}
	for round := 0; round < 6; round++ {
		dev := NewDevPort(0xA231)
		var addrs []uint16
		var flags []byte
		for i := 0; i < 9; i++ {
			a := uint16(0xED00 + 2*i + 16*round)
			f := []byte{1, 2, 4}[(i+round)%3]
			dev.Regs[a] = DevAnswer{f, nil}
			addrs, flags = append(addrs, a), append(flags, f)
		}
		api, err := connectApi(dev)
		if err != nil {
			return
		}
		var errs []error
		for i, a := range addrs {
			var e error
			switch (i + round) % 5 {
			case 0:
				_, e = api.Vd.VeCommandGet(a)
			case 1:
				_, e = api.Vd.GetUint(a)
			case 2:
				_, e = api.Vd.GetInt(a)
			case 3:
				_, e = api.Vd.GetString(a)
			default:
				_, e = api.ReadNumberRegister(veregister.VerifNumber(fmt.Sprintf("Survey%d", i), 0, a))
			}
			errs = append(errs, e)
		}
		for i, e := range errs {
			op := fmt.Sprintf("error survey round %d: call %d (register 0x%04X refused with flag %d), looked at after %d later calls", round, i, addrs[i], flags[i], len(errs)-1-i)
			if e == nil {
				s.Violate(op, "nil", "a refused read returned no error")
				continue
			}
			if k := errKind(e); k != kindOf[flags[i]] {
				s.Violate(op, "err:"+k, fmt.Sprintf("the error returned for flag %d must (still) match %s; after the later calls it classifies as %s: %v", flags[i], kindOf[flags[i]], k, e))
			}
		}
		s.Extra["errors_reexamined_after_later_calls"] += len(errs)
	}
}

// suiteC05api: C05's API clause — every register of every family x device error flags (with / without
// trailing payload) through the real register API; errors classified with errors.Is, name checked.
func suiteC05api(rng *Rng, thorough bool, s *Sink) {
	pool := buildPool()
	for idx, it := range pool {
		reg := it.reg()
		for _, o := range []outcome{
			{"err:unknown-id", &DevAnswer{1, nil}}, {"err:not-supported", &DevAnswer{2, nil}}, {"err:parameter-error", &DevAnswer{4, nil}},
			{"err:unknown-id", &DevAnswer{1, []byte{0}}}, {"err:not-supported", &DevAnswer{2, rng.Bytes(2)}}, {"err:parameter-error", &DevAnswer{4, rng.Bytes(4)}},
			{"err:other", nil},
		} {
			op := fmt.Sprintf("%s %d %s", opOfKind[it.kind], idx, o.tok)
			out, _ := readOne(it, o)
			s.Line(fmt.Sprintf("kind%d-%s", it.kind, o.tok), op, out)
			if v := oracleC09(it, reg, o, out); v != "" {
				s.Violate(op, out, v)
			}
		}
		lineTrouble(s, rng, it, idx, []outcome{{"err:unknown-id", &DevAnswer{1, nil}}, {"err:not-supported", &DevAnswer{2, rng.Bytes(2)}}, {"err:parameter-error", &DevAnswer{4, nil}}})
	}
	errSurvey(s, rng)
	// the list readers: a refusal at every position of a product's list, the context ending (cancel / deadline) while the
	// refused register is being read - the run ends with the device's error, named and matchable
	for _, id := range []uint16{0xA053, 0x203, 0xA231} {
		rl, _ := veregister.GetRegisterListByProduct(veproduct.Product(id))
		regs := map[uint16]DevAnswer{}
		for i := range rl.NumberRegisters {
			regs[rl.NumberRegisters[i].Address()] = DevAnswer{0, answerFor(1, rl.NumberRegisters[i], nil, rng)}
		}
		for i := range rl.TextRegisters {
			regs[rl.TextRegisters[i].Address()] = DevAnswer{0, answerFor(2, rl.TextRegisters[i], nil, rng)}
		}
		for i := range rl.EnumRegisters {
			regs[rl.EnumRegisters[i].Address()] = DevAnswer{0, answerFor(3, rl.EnumRegisters[i], &rl.EnumRegisters[i], rng)}
		}
		for i := range rl.FieldListRegisters {
			regs[rl.FieldListRegisters[i].Address()] = DevAnswer{0, answerFor(4, rl.FieldListRegisters[i], nil, rng)}
		}
		for k := 0; k < rl.Len(); k++ {
			tok := []string{"err:unknown-id", "err:not-supported", "err:parameter-error"}[k%3]
			runStream(s, fmt.Sprintf("P%d", id), rl, regs, "1111", -1, "", k, tok, 0, k%4 == 3, false)
			runStream(s, fmt.Sprintf("P%d", id), rl, regs, "1111", k+1, "write", k, tok, 0, false, k%2 == 1)
		}
	}
}
