package main

func runApiSuite(suite string, rng *Rng, thorough bool, s *Sink) bool {
	return false
}
