package main

import (
	"fmt"
	"io"
	"log"
	"log/slog"
	"math"
	"reflect"
	"strings"

	"github.com/koestler/go-victron/bleparser"
)

type bleField struct {
	name         string
	start, width int
	enum         bool
}

type bleDecoder struct {
	name   string // Decode<name>
	n      int    // documented record length in bytes
	fields []bleField
	call   func(inp []byte) (any, error)
}

func wrapDec[T any](f func([]byte) (T, error)) func([]byte) (any, error) {
	return func(b []byte) (any, error) { v, err := f(b); return v, err }
}

// field positions: used ONLY to generate inputs (which bits to sweep); the oracle is the Lean layout spec
func bleDecoders() []bleDecoder {
	f := func(n string, s, w int) bleField { return bleField{n, s, w, false} }
	e := func(n string, s, w int) bleField { return bleField{n, s, w, true} }
	return []bleDecoder{
		{"AcChargerRecord", 13, []bleField{e("DeviceState", 0, 8), e("ChargerError", 8, 8), f("V1", 16, 13), f("I1", 29, 11), f("V2", 40, 13), f("I2", 53, 11), f("V3", 64, 13), f("I3", 77, 11), f("T", 88, 7), f("Iac", 95, 9)}, wrapDec(bleparser.DecodeAcChargerRecord)},
		{"BatteryMonitorRecord", 15, []bleField{f("Ttg", 0, 16), f("V", 16, 16), f("Alarm", 32, 16), f("Aux", 48, 16), f("AuxMode", 64, 2), f("I", 66, 22), f("Ah", 88, 20), f("Soc", 108, 10)}, wrapDec(bleparser.DecodeBatteryMonitorRecord)},
		{"DcDcConverterRecord", 10, []bleField{e("DeviceState", 0, 8), e("ChargerError", 8, 8), f("Vin", 16, 16), f("Vout", 32, 16), f("Off", 48, 32)}, wrapDec(bleparser.DecodeDcDcConverterRecord)},
		{"DcEnergyMeterRecord", 11, []bleField{f("Mode", 0, 16), f("V", 16, 16), f("Alarm", 32, 16), f("Aux", 48, 16), f("AuxMode", 64, 2), f("I", 66, 22)}, wrapDec(bleparser.DecodeDcEnergyMeterRecord)},
		{"GxDeviceRecord", 11, []bleField{f("V", 0, 16), f("Pv", 16, 20), f("Soc", 36, 7), f("Pbat", 43, 21), f("Pdc", 64, 21)}, wrapDec(bleparser.DecodeGxDeviceRecord)},
		{"InverterRecord", 11, []bleField{e("DeviceState", 0, 8), f("Alarm", 8, 16), f("V", 24, 16), f("S", 40, 16), f("Vac", 56, 15), f("Iac", 71, 11)}, wrapDec(bleparser.DecodeInverterRecord)},
		{"InverterRsRecord", 12, []bleField{e("DeviceState", 0, 8), e("ChargerError", 8, 8), f("V", 16, 16), f("I", 32, 16), f("Pv", 48, 16), f("Yield", 64, 16), f("Pac", 80, 16)}, wrapDec(bleparser.DecodeInverterRsRecord)},
		{"LynxSmartBms", 16, []bleField{f("Error", 0, 8), f("Ttg", 8, 16), f("V", 24, 16), f("I", 40, 16), f("Io", 56, 16), f("Warn", 72, 18), f("Soc", 90, 10), f("Ah", 100, 20), f("T", 120, 7)}, wrapDec(bleparser.DecodeLynxSmartBms)},
		{"MultiRsRecord", 14, []bleField{e("DeviceState", 0, 8), e("ChargerError", 8, 8), f("I", 16, 16), f("V", 32, 14), f("AcIn", 46, 2), f("Pin", 48, 16), f("Pout", 64, 16), f("Pv", 80, 16), f("Yield", 96, 16)}, wrapDec(bleparser.DecodeMultiRsRecord)},
		{"SmartBatteryProtectRecord", 15, []bleField{f("State", 0, 8), f("Out", 8, 8), f("Err", 16, 8), f("Alarm", 24, 16), f("Warn", 40, 16), f("Vin", 56, 16), f("Vout", 72, 16), f("Off", 88, 32)}, wrapDec(bleparser.DecodeSmartBatteryProtectRecord)},
		{"SmartLithiumRecord", 16, []bleField{f("Flags", 0, 32), f("Err", 32, 16), f("C1", 48, 7), f("C2", 55, 7), f("C3", 62, 7), f("C4", 69, 7), f("C5", 76, 7), f("C6", 83, 7), f("C7", 90, 7), f("C8", 97, 7), f("V", 104, 12), f("Bal", 116, 4), f("T", 120, 7)}, wrapDec(bleparser.DecodeSmartLithiumRecord)},
		{"SolarChargeRecord", 12, []bleField{e("DeviceState", 0, 8), e("ChargerError", 8, 8), f("V", 16, 16), f("I", 32, 16), f("Yield", 48, 16), f("Pv", 64, 16), f("Iload", 80, 9)}, wrapDec(bleparser.DecodeSolarChargeRecord)},
		{"VeBusRecord", 13, []bleField{f("State", 0, 8), f("Err", 8, 8), f("I", 16, 16), f("V", 32, 14), f("AcIn", 46, 2), f("Pin", 48, 19), f("Pout", 67, 19), f("Alarm", 86, 2), f("T", 88, 7), f("Soc", 95, 7)}, wrapDec(bleparser.DecodeVeBusRecord)},
	}
}

func renderRecord(v any) string {
	rv := reflect.ValueOf(v)
	rt := rv.Type()
	var parts []string
	for i := 0; i < rv.NumField(); i++ {
		f := rv.Field(i)
		var s string
		switch f.Kind() {
		case reflect.Float64:
			x := f.Float()
			if math.IsNaN(x) {
				s = "NaN"
			} else {
				s = fbits(x)
			}
		case reflect.Int, reflect.Int8, reflect.Int16, reflect.Int32, reflect.Int64:
			s = fmt.Sprintf("%d", f.Int())
		case reflect.Uint, reflect.Uint8, reflect.Uint16, reflect.Uint32, reflect.Uint64:
			s = fmt.Sprintf("%d", f.Uint())
		default:
			s = "?"
		}
		parts = append(parts, rt.Field(i).Name+"="+s)
	}
	return strings.Join(parts, ";")
}

// decodeReal: the real decoder on a slice of exactly the given length and capacity
func decodeReal(d bleDecoder, inp, spare []byte) (out string) {
	buf := make([]byte, len(inp)+len(spare))
	copy(buf, inp)
	copy(buf[len(inp):], spare)
	arg := buf[:len(inp):len(buf)]
	defer func() {
		if r := recover(); r != nil {
			out = "PANIC"
		}
	}()
	v, err := d.call(arg)
	// the decoder only reads: neither the input nor the bytes between len and cap (the rest of the caller's buffer, e.g. the next
	// record of a packed block) may have been written
	for i := range buf {
		want := byte(0)
		if i < len(inp) {
			want = inp[i]
		} else {
			want = spare[i-len(inp)]
		}
		if buf[i] != want {
			return fmt.Sprintf("WROTE-TO-CALLERS-BUFFER at index %d (len %d, cap %d): %02X -> %02X", i, len(inp), len(buf), want, buf[i])
		}
	}
	if err != nil {
		return "err:" + errKind(err)
	}
	return "ok:" + renderRecord(v)
}

func hexOrDash(b []byte) string {
	if len(b) == 0 {
		return "-"
	}
	return HEX(b)
}

func setBits(buf []byte, start, width int, v uint64) {
	for i := 0; i < width; i++ {
		bit := (v >> uint(i)) & 1
		p := start + i
		if p/8 >= len(buf) {
			return
		}
		if bit == 1 {
			buf[p/8] |= 1 << uint(p%8)
		} else {
			buf[p/8] &^= 1 << uint(p%8)
		}
	}
}

// valid enum codes (from the real factories) so that baselines are not rejected
var validEnumByte = []byte{0, 2, 3, 4, 5}

func contexts(d bleDecoder, rng *Rng, extra int) [][]byte {
	n := d.n + extra
	zero := make([]byte, n)
	ones := make([]byte, n)
	for i := range ones {
		ones[i] = 0xFF
	}
	rnd := rng.Bytes(n)
	out := [][]byte{zero, ones, rnd}
	for _, c := range out {
		for _, f := range d.fields {
			if f.enum {
				setBits(c, f.start, f.width, uint64(validEnumByte[rng.Intn(2)]))
			}
		}
	}
	return out
}

// specMode: the suite's lines are answered by the layout specification (BS) instead of the translated code (BD)
var specMode bool
var bleMut string // appended to every operation line (a process-wide setting under which the pass runs)

func emitBle(s *Sink, d bleDecoder, tag string, inp, spare []byte) string {
	out := decodeReal(d, inp, spare)
	if strings.HasPrefix(out, "WROTE-TO") {
		s.Violate(fmt.Sprintf("BD %s %s %s", d.name, hexOrDash(inp), hexOrDash(spare))+bleMut, out, d.name+": the decoder modified the caller's buffer (it may only read, and only up to the slice's length)")
	}
	if specMode {
		s.Line(tag+"-spec", fmt.Sprintf("BS %s %s", d.name, hexOrDash(inp))+bleMut, out)
	} else {
		s.Line(tag, fmt.Sprintf("BD %s %s %s", d.name, hexOrDash(inp), hexOrDash(spare))+bleMut, out)
	}
	return out
}

// verboseProcess: the process-wide logging defaults an application sets when it is started with -v: the default slog logger
// at debug level, the standard logger with all flags (both writing to nowhere). A decoder is a pure function of its input under
// any such setting.
func verboseProcess(on bool) {
	if on {
		slog.SetDefault(slog.New(slog.NewTextHandler(io.Discard, &slog.HandlerOptions{Level: slog.LevelDebug, AddSource: true})))
		log.SetOutput(io.Discard)
		log.SetFlags(log.LstdFlags | log.Lshortfile | log.Lmicroseconds)
		bleMut = " mut:process-logs-at-debug-level"
	} else {
		slog.SetDefault(slog.New(slog.NewTextHandler(io.Discard, &slog.HandlerOptions{Level: slog.LevelError})))
		bleMut = ""
	}
}

// lengthsUnderVerboseLogging: every decoder on every length 0..40 x capacities, exact-length records included, with the
// process logging at debug level
func lengthsUnderVerboseLogging(rng *Rng, s *Sink) {
	verboseProcess(true)
	defer verboseProcess(false)
	for _, d := range bleDecoders() {
		for l := 0; l <= 40; l++ {
			for ci := 0; ci < 2; ci++ {
				inp := rng.Bytes(l)
				if ci == 1 {
					for i := range inp {
						inp[i] = 0
					}
				}
				for _, f := range d.fields {
					if f.enum && f.start+f.width <= 8*l {
						setBits(inp, f.start, f.width, uint64(validEnumByte[l%len(validEnumByte)]))
					}
				}
				for _, spare := range [][]byte{nil, {0xA5}, bytesOf(0xA5, 5), bytesOf(0xA5, 64)} {
					out := emitBle(s, d, "verbose-process", inp, spare)
					if out == "PANIC" {
						s.Violate(fmt.Sprintf("BD %s %s %s%s", d.name, hexOrDash(inp), hexOrDash(spare), bleMut), out, fmt.Sprintf("%s panics on a %d-byte input (capacity %d) when the process logs at debug level", d.name, l, l+len(spare)))
					}
					if want := (l < d.n); want != (out == "err:too-short") {
						s.Violate(fmt.Sprintf("BD %s %s %s%s", d.name, hexOrDash(inp), hexOrDash(spare), bleMut), out, fmt.Sprintf("%s (record length %d) on %d bytes with the process logging at debug level: %s", d.name, d.n, l, out[:min(60, len(out))]))
					}
				}
			}
		}
	}
}

func bytesOf(b byte, n int) []byte {
	out := make([]byte, n)
	for i := range out {
		out[i] = b
	}
	return out
}

// declaredUnits: the unit every float field of every record struct declares (its `Unit:"..."` tag) - in spec mode one line per
// field, answered by the specification's unit table (BleSpec.units): "converted to the unit the result declares"
func declaredUnits(s *Sink) {
	for _, d := range bleDecoders() {
		v, _ := d.call(make([]byte, 64))
		rt := reflect.TypeOf(v)
		for i := 0; i < rt.NumField(); i++ {
			f := rt.Field(i)
			unit := "none"
			if f.Type.Kind() == reflect.Float64 {
				unit = f.Tag.Get("Unit")
				if unit == "" {
					unit = "undeclared"
				}
			}
			s.Line("declared-unit", fmt.Sprintf("BU %s %s", d.name, f.Name), unit)
		}
	}
}

func suiteC07(rng *Rng, thorough bool, s *Sink) {
	if specMode {
		declaredUnits(s)
	}
	defer bleConcurrent(rng, thorough, s)
	maxBits := 10
	if thorough {
		maxBits = 14
	}
	for _, d := range bleDecoders() {
		for _, f := range d.fields {
			var vals []uint64
			if f.width <= maxBits || f.enum {
				for v := uint64(0); v < 1<<uint(f.width); v++ {
					vals = append(vals, v)
				}
			} else {
				top := uint64(1)<<uint(f.width) - 1
				seen := map[uint64]bool{}
				add := func(v uint64) {
					v &= top
					if !seen[v] {
						seen[v] = true
						vals = append(vals, v)
					}
				}
				for _, v := range []uint64{0, 1, 2, top, top - 1, top - 2, top >> 1, top>>1 + 1, top>>1 - 1, top>>1 + 2, top >> 2, 0x7F, 0x80, 0xFF, 0x100, 0x7FFF, 0x8000, 0xFFFF, 0x10000, 40, 39, 41} {
					add(v)
				}
				for k := 0; k < f.width; k++ {
					add(1 << uint(k))
					add(top &^ (1 << uint(k)))
				}
				for len(vals) < 1<<uint(maxBits) {
					add(rng.U64())
				}
			}
			for ci, ctx := range contexts(d, rng, 0) {
				for _, v := range vals {
					inp := append([]byte(nil), ctx...)
					setBits(inp, f.start, f.width, v)
					emitBle(s, d, fmt.Sprintf("%s-ctx%d", d.name, ci), inp, nil)
				}
			}
		}
		// aux modes x aux raw values (mode-dependent fields)
		for _, f := range d.fields {
			if f.name != "AuxMode" {
				continue
			}
			for mode := uint64(0); mode < 4; mode++ {
				for _, aux := range []uint64{0, 1, 0x7FFF, 0x8000, 0xFFFF, 0xFFFE, 0x7FFE, 0x6ABC, uint64(rng.Intn(65536))} {
					for _, ctx := range contexts(d, rng, 0) {
						inp := append([]byte(nil), ctx...)
						setBits(inp, f.start, 2, mode)
						setBits(inp, 48, 16, aux)
						emitBle(s, d, d.name+"-aux", inp, nil)
					}
				}
			}
		}
		// every field at one of its extreme codes at the same time (all ones / all ones but the top bit - the usual "not
		// available" codes of unsigned and signed fields), in every combination
		var plain []bleField
		for _, f := range d.fields {
			if !f.enum {
				plain = append(plain, f)
			}
		}
		nc := 1 << uint(min(len(plain), 11))
		for c := 0; c < nc; c++ {
			for _, extra := range []int{0, 4} {
				inp := make([]byte, d.n+extra)
				if c%2 == 1 {
					for i := range inp {
						inp[i] = 0xFF
					}
				}
				for _, f := range d.fields {
					if f.enum {
						setBits(inp, f.start, f.width, uint64(validEnumByte[c%2]))
					}
				}
				for i, f := range plain {
					top := uint64(1)<<uint(f.width) - 1
					v := top
					if i < 11 && c&(1<<uint(i)) != 0 {
						v = top >> 1
					}
					setBits(inp, f.start, f.width, v)
				}
				emitBle(s, d, d.name+"-extremes", inp, nil)
			}
		}
		// fully random inputs, longer than the record as well
		n := 300
		if thorough {
			n = 5000
		}
		for i := 0; i < n; i++ {
			inp := rng.Bytes(d.n + rng.Intn(6))
			if i%2 == 0 {
				for _, f := range d.fields {
					if f.enum {
						setBits(inp, f.start, f.width, uint64(validEnumByte[rng.Intn(len(validEnumByte))]))
					}
				}
			}
			emitBle(s, d, d.name+"-random", inp, nil)
		}
	}
	// the vectors of the repository's own tests
	for _, v := range []struct{ dec, hex string }{
		{"BatteryMonitorRecord", "ffffe50400000000030000f40140df03"}, {"BatteryMonitorRecord", "ffffe6040000feff000000000080feac"},
		{"BatteryMonitorRecord", "ffffe6040000feff010000000080fe0c"}, {"BatteryMonitorRecord", "ffffc60400007d73feff7fffffffff12"},
		{"BatteryMonitorRecord", "fffff80400008971feff7fffffffff5c"}, {"SolarChargeRecord", "04006c050e000300130000fe409ac069"},
		{"DcDcConverterRecord", "0400ac0570050000000000000000000000"},
	} {
		for _, d := range bleDecoders() {
			if d.name == v.dec {
				emitBle(s, d, "repo-test-vectors", unHEX(strings.ToUpper(v.hex)), nil)
			}
		}
	}
}

// bleConcurrent: the decoders are pure functions; called from several goroutines on different inputs they give what they
// give when called alone
func bleConcurrent(rng *Rng, thorough bool, s *Sink) {
	type item struct {
		d   bleDecoder
		inp []byte
	}
	var items []item
	for _, d := range bleDecoders() {
		for k := 0; k < 5; k++ {
			inp := rng.Bytes(d.n + k)
			for _, f := range d.fields {
				if f.enum {
					setBits(inp, f.start, f.width, uint64(validEnumByte[k%2]))
				}
			}
			items = append(items, item{d, inp})
		}
	}
	rounds := 400
	if thorough {
		rounds = 6000
	}
	for _, b := range concurrently(8, rounds, len(items), func(i int) string { return decodeReal(items[i].d, items[i].inp, nil) }) {
		s.Violate("BD concurrent", b, "decoders called from several goroutines disagree with the same calls made alone: "+b)
	}
	s.Extra["concurrent_decodes"] += 8 * rounds * len(items)
}

func suiteC08(rng *Rng, thorough bool, s *Sink) {
	defer bleConcurrent(rng, thorough, s)
	defer lengthsUnderVerboseLogging(rng.Fork(), s)
	// inputs far longer than any record: never "too short", never a panic, the record's fields as for the record alone
	for _, d := range bleDecoders() {
		for _, l := range []int{255, 256, 256 + d.n - 1, 257, 511, 512, 1024, 4096, 65536 + d.n - 1} {
			for fill := 0; fill < 2; fill++ {
				inp := make([]byte, l)
				if fill == 1 {
					for i := range inp {
						inp[i] = 0xFF
					}
					for _, f := range d.fields {
						if f.enum {
							setBits(inp, f.start, f.width, uint64(validEnumByte[0]))
						}
					}
				}
				long := decodeReal(d, inp, nil)
				short := decodeReal(d, inp[:d.n:d.n], nil)
				op := fmt.Sprintf("BD %s %s - mut:followed-by-%d-more-bytes", d.name, HEX(inp[:d.n]), l-d.n)
				s.Extra["long_inputs"]++
				if long != short || long == "PANIC" || long == "err:too-short" {
					s.Violate(op, long, fmt.Sprintf("%s on %d bytes gives %s; on the first %d bytes alone %s", d.name, l, long[:min(80, len(long))], d.n, short[:min(80, len(short))]))
				}
			}
		}
	}
	for _, d := range bleDecoders() {
		for l := 0; l <= 64; l++ {
			for ci := 0; ci < 3; ci++ {
				inp := make([]byte, l)
				switch ci {
				case 1:
					for i := range inp {
						inp[i] = 0xFF
					}
				case 2:
					inp = rng.Bytes(l)
				}
				if ci != 1 {
					for _, f := range d.fields {
						if f.enum {
							setBits(inp, f.start, f.width, uint64(validEnumByte[rng.Intn(2)]))
						}
					}
				}
				base := emitBle(s, d, fmt.Sprintf("%s-len", d.name), inp, nil)
				// the property, directly
				op := fmt.Sprintf("BD %s %s -", d.name, hexOrDash(inp))
				if (base == "err:too-short") != (l < d.n) {
					s.Violate(op, base, fmt.Sprintf("%s with %d bytes (record length %d): ErrInputTooShort must be returned exactly when the input is shorter than the record, got %s", d.name, l, d.n, base))
				}
				if base == "PANIC" {
					s.Violate(op, base, fmt.Sprintf("%s panics on a %d-byte slice with cap == len", d.name, l))
				}
				// spare capacity 1..8, filled with 00 / FF / random: the result must not change
				for sp := 1; sp <= 8; sp++ {
					if !thorough && sp > 3 && sp != 8 && l%4 != 0 {
						continue
					}
					for fill := 0; fill < 3; fill++ {
						spare := make([]byte, sp)
						switch fill {
						case 1:
							for i := range spare {
								spare[i] = 0xFF
							}
						case 2:
							spare = rng.Bytes(sp)
						}
						out := decodeReal(d, inp, spare)
						ops := fmt.Sprintf("BD %s %s %s", d.name, hexOrDash(inp), HEX(spare))
						if specMode {
							ops = fmt.Sprintf("BS %s %s", d.name, hexOrDash(inp))
						}
						s.Line(d.name+"-spare", ops, out)
						if out != base {
							s.Violate(ops, out, fmt.Sprintf("%s: result depends on the bytes beyond the slice's length (cap-len=%d): %s vs %s with cap == len", d.name, sp, out, base))
						}
					}
				}
			}
		}
		// every value of every single byte of a complete record (zero and all-ones context): never a panic,
		// never "too short"
		for pos := 0; pos < d.n; pos++ {
			if !thorough && pos > 1 && pos != d.n-1 {
				continue
			}
			for ctx := 0; ctx < 2; ctx++ {
				for b := 0; b < 256; b++ {
					rec := make([]byte, d.n+ctx*2)
					if ctx == 1 {
						for i := range rec {
							rec[i] = 0xFF
						}
					}
					rec[pos] = byte(b)
					out := emitBle(s, d, d.name+"-byte-sweep", rec, nil)
					if out == "PANIC" || out == "err:too-short" {
						s.Violate(fmt.Sprintf("BD %s %s -", d.name, HEX(rec)), out, fmt.Sprintf("%s on a complete %d-byte record with byte %d = 0x%02X: %s", d.name, len(rec), pos, b, out))
					}
				}
			}
		}
		// every suffix length 1..16 appended to a complete record: the result must not change
		nrec := 12
		if thorough {
			nrec = 200
		}
		for r := 0; r < nrec; r++ {
			rec := rng.Bytes(d.n)
			if r%3 == 0 { // all fields not-available (all ones), valid enums
				for i := range rec {
					rec[i] = 0xFF
				}
			}
			for _, f := range d.fields {
				if f.enum {
					setBits(rec, f.start, f.width, uint64(validEnumByte[rng.Intn(len(validEnumByte))]))
				}
			}
			base := emitBle(s, d, d.name+"-record", rec, nil)
			for sl := 1; sl <= 16; sl++ {
				for fill := 0; fill < 3; fill++ {
					suf := make([]byte, sl)
					switch fill {
					case 1:
						for i := range suf {
							suf[i] = 0xFF
						}
					case 2:
						suf = rng.Bytes(sl)
					}
					inp := append(append([]byte(nil), rec...), suf...)
					out := emitBle(s, d, d.name+"-suffix", inp, nil)
					if out != base {
						s.Violate(fmt.Sprintf("BD %s %s -", d.name, HEX(inp)), out, fmt.Sprintf("%s: result depends on the bytes after the record: %X alone gives %s, followed by %X gives %s", d.name, rec, base, suf, out))
					}
				}
			}
		}
	}
}

func runBleSuite(suite string, rng *Rng, thorough bool, s *Sink) bool {
	switch suite {
	case "c07", "c07spec":
		specMode = suite == "c07spec"
		suiteC07(rng, thorough, s)
	case "c08", "c08spec":
		specMode = suite == "c08spec"
		suiteC08(rng, thorough, s)
	default:
		return runBleHandleSuite(suite, rng, thorough, s)
	}
	return true
}
