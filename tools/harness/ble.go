package main

func runBleSuite(suite string, rng *Rng, thorough bool, s *Sink) bool {
	return false
}
