package main

import (
	"fmt"
	"strconv"
)

// ---------- reference consumption (written from the property text, independent of the Lean model) ----------

// refFirstFrame: skip to ':', read to '\n', drop frames starting with 'A'. Returns body, rest, ok.
func refFirstFrame(p []byte) (body, rest []byte, ok bool) {
	for {
		i := 0
		for i < len(p) && p[i] != ':' {
			i++
		}
		if i >= len(p) {
			return nil, nil, false
		}
		j := i + 1
		for j < len(p) && p[j] != '\n' {
			j++
		}
		if j >= len(p) {
			return nil, nil, false
		}
		body, p = p[i+1:j], p[j+1:]
		if len(body) > 0 && body[0] == 'A' {
			continue
		}
		return body, p, true
	}
}

// refGet: expected outcome of a Get for addr on a fault-free port whose first attempt is idle:
// "ok:<payload hex>", "err:<kind>" or "err:other"; and the number of frames written.
func refGet(addr uint16, replies [][][]byte) (string, int) {
	var pending []byte
	for try := 0; try < 8; try++ {
		if try < len(replies) {
			for _, c := range replies[try] {
				pending = append(pending, c...)
			}
		}
		body, rest, ok := refFirstFrame(pending)
		if !ok {
			pending = nil
			continue
		}
		pending = rest
		fs := grammarFrames(append(append([]byte{':'}, body...), '\n'))
		// the body must be a valid frame on its own, starting at its first character
		if len(fs) == 0 || !frameIsWhole(body) {
			continue
		}
		f := fs[0]
		if f.nibble != 7 || len(body) < 7 || len(f.payload) < 3 {
			continue
		}
		if f.payload[0] != byte(addr) || f.payload[1] != byte(addr>>8) {
			continue
		}
		switch f.payload[2] {
		case 0:
			return "ok:" + HEX(f.payload[3:]), try + 1
		case 1:
			return "err:unknown-id", try + 1
		case 2:
			return "err:not-supported", try + 1
		case 4:
			return "err:parameter-error", try + 1
		default:
			return "err:other", try + 1
		}
	}
	return "err:other", 8
}

// frameIsWhole: the body (between the first ':' and '\n') is itself nibble + even hex + valid check byte.
func frameIsWhole(body []byte) bool {
	if len(body) < 3 || len(body)%2 != 1 {
		return false
	}
	n := hexVal(body[0])
	if n < 0 {
		return false
	}
	sum := byte(n)
	for k := 1; k+1 < len(body); k += 2 {
		a, b := hexVal(body[k]), hexVal(body[k+1])
		if a < 0 || b < 0 {
			return false
		}
		sum += byte(a<<4 | b)
	}
	return sum == 0x55
}

func typedWant(kind string, ref string) string {
	if len(ref) < 3 || ref[:3] != "ok:" {
		return ref
	}
	p := unHEX(ref[3:])
	switch kind {
	case "raw":
		return ref
	case "uint":
		return "ok:" + strconv.FormatUint(leU(p), 10)
	case "int":
		switch len(p) {
		case 1:
			return "ok:" + strconv.FormatInt(int64(int8(p[0])), 10)
		case 2:
			return "ok:" + strconv.FormatInt(int64(int16(leU(p))), 10)
		case 4:
			return "ok:" + strconv.FormatInt(int64(int32(leU(p))), 10)
		case 8:
			return "ok:" + strconv.FormatInt(int64(leU(p)), 10)
		}
		return "err:other"
	case "str":
		return "ok:" + HEX(trimNulGo(p))
	}
	return ""
}

func unHEX(s string) []byte {
	out := make([]byte, 0, len(s)/2)
	for i := 0; i+1 < len(s); i += 2 {
		out = append(out, byte(hexVal(s[i])<<4|hexVal(s[i+1])))
	}
	return out
}

// one Get-style call on a fresh driver, fault free; expectation from refGet
func getScenario(tag, kind string, addr uint16, replies [][][]byte) *Scenario {
	ref, n := refGet(addr, replies)
	sc := &Scenario{Tag: tag, Replies: replies, Calls: []Call{{Kind: kind, Addr: addr, Want: typedWant(kind, ref)}}}
	sc.MaxWritesPerCall = 8
	_ = n
	return sc
}

func one(b []byte) [][]byte {
	if len(b) == 0 {
		return nil
	}
	return [][]byte{b}
}

var getKinds = []string{"raw", "uint", "int", "str"}

func leBytes(w int, v uint64) []byte {
	b := make([]byte, w)
	for i := 0; i < w; i++ {
		b[i] = byte(v >> (8 * uint(i)))
	}
	return b
}

// ---------- C03 ----------

var allCmds = []byte{0x01, 0x03, 0x04, 0x06, 0x07, 0x08, 0x0A}

// ---------- mutations for C01 ----------

var substChars = []byte("0123456789ABCDEF:\nAGz ")
var insertChars = []byte("0F:\nAx")

func mutations(f []byte, rng *Rng, full bool) (out [][]byte, tags []string) {
	add := func(t string, b []byte) { out = append(out, b); tags = append(tags, t) }
	for i := range f {
		for _, c := range substChars {
			if f[i] == c {
				continue
			}
			if !full && rng.Intn(4) != 0 {
				continue
			}
			m := append([]byte(nil), f...)
			m[i] = c
			add("subst", m)
		}
		m := append(append([]byte(nil), f[:i]...), f[i+1:]...)
		add("delete", m)
		add("truncate", append([]byte(nil), f[:i]...))
	}
	for i := 0; i <= len(f); i++ {
		for _, c := range insertChars {
			if !full && rng.Intn(3) != 0 {
				continue
			}
			m := append(append(append([]byte(nil), f[:i]...), c), f[i:]...)
			add("insert", m)
		}
	}
	// two-character corruptions, including ones that keep the check byte valid
	n := 40
	if full {
		n = 400
	}
	for k := 0; k < n; k++ {
		m := append([]byte(nil), f...)
		i, j := rng.Intn(len(m)), rng.Intn(len(m))
		m[i] = hexU[rng.Intn(16)]
		m[j] = hexU[rng.Intn(16)]
		add("multi", m)
	}
	return
}

type baseExchange struct {
	addr  uint16
	value []byte
}

func baseExchanges(rng *Rng, n int) []baseExchange {
	b := []baseExchange{
		{0xEDF0, []byte{0x96, 0x00}},
		{0x0000, []byte{0x00}},
		{0xFFFF, []byte{0xFF, 0xFF, 0xFF, 0xFF}},
		{0x0100, []byte{0x19, 0x34, 0x00, 0x00, 0x00, 0x00, 0x00, 0x80}},
		{0x010A, []byte("HQ1234ABCDE\x00\x00\x00")},
		{0x0040, []byte{0x7F}},
		{0xED8D, []byte{0x00, 0x80}},
		{0x0AA0, []byte{}},
	}
	for len(b) < n {
		w := []int{1, 2, 4, 8, 3, 16}[rng.Intn(6)]
		b = append(b, baseExchange{uint16(rng.U64()), rng.Bytes(w)})
	}
	return b[:n]
}

func genC01(rng *Rng, thorough bool, emit func(*Scenario)) {
	nb := 6
	if thorough {
		nb = 24
	}
	for bi, be := range baseExchanges(rng, nb) {
		good := simGet(be.addr, 0, be.value)
		kind := getKinds[bi%4]
		emit(getScenario("good", kind, be.addr, [][][]byte{one(good)}))
		ms, tags := mutations(good, rng, thorough)
		for i, m := range ms {
			k := kind
			if i%7 == 0 {
				k = getKinds[rng.Intn(4)]
			}
			// the corrupted frame answers attempt 1; the remaining attempts see silence, the same
			// corruption again, or (rarely) the good frame
			var replies [][][]byte
			switch rng.Intn(5) {
			case 0:
				replies = [][][]byte{one(m)}
			case 1:
				replies = [][][]byte{one(m), one(m), one(m), one(m), one(m), one(m), one(m), one(m)}
			case 2:
				replies = [][][]byte{one(m), nil, one(good)}
			case 3:
				// split into two chunks at a random point (dribbling serial port)
				if len(m) > 1 {
					c := 1 + rng.Intn(len(m)-1)
					replies = [][][]byte{{m[:c], m[c:]}}
				} else {
					replies = [][][]byte{one(m)}
				}
			default:
				replies = [][][]byte{one(m), one(m)}
			}
			emit(getScenario("c01-"+tags[i], k, be.addr, replies))
		}
		// wrong response nibble (all 16), exhaustive
		for n := 0; n < 16; n++ {
			p := append([]byte{byte(be.addr), byte(be.addr >> 8), 0}, be.value...)
			emit(getScenario("c01-nibble", kind, be.addr, [][][]byte{one(simFrame(byte(n), p))}))
		}
		// wrong address: neighbours, byte-swapped, random
		for _, a := range []uint16{be.addr + 1, be.addr - 1, be.addr ^ 0x0100, be.addr<<8 | be.addr>>8, uint16(rng.U64())} {
			emit(getScenario("c01-foreign", kind, be.addr, [][][]byte{one(simGet(a, 0, be.value))}))
			for _, fl := range []byte{1, 2, 4, 3, 0xFF} {
				emit(getScenario("c01-foreign-flag", kind, be.addr, [][][]byte{one(simGet(a, fl, be.value)), one(good)}))
			}
		}
		// all 256 flags, exhaustive
		for f := 0; f < 256; f++ {
			emit(getScenario("c01-flag", getKinds[f%4], be.addr, [][][]byte{one(simGet(be.addr, byte(f), be.value))}))
		}
		// splices of two frames
		other := simGet(be.addr+1, 0, []byte{1, 2})
		for c := 1; c < len(good); c += 2 {
			sp := append(append([]byte(nil), good[:c]...), other...)
			emit(getScenario("c01-splice", kind, be.addr, [][][]byte{one(sp), one(good[c:])}))
			sp2 := append(append([]byte(nil), other[:len(other)/2]...), good...)
			emit(getScenario("c01-splice", kind, be.addr, [][][]byte{one(sp2)}))
		}
		// text protocol noise and async frames around, lower-case hex
		noise := []byte("\r\nPID\t0xA053\r\nV\t12800\r\nChecksum\t\x8e")
		async := simFrame(0xA, []byte{0xF0, 0xED, 0x00, 0x12, 0x34})
		lower := []byte(string(good))
		for i := range lower {
			if lower[i] >= 'A' && lower[i] <= 'F' {
				lower[i] += 32
			}
		}
		emit(getScenario("c01-noise", kind, be.addr, [][][]byte{{noise, async, async, good}}))
		emit(getScenario("c01-noise", kind, be.addr, [][][]byte{{noise}, {async}, {noise, good, noise}}))
		emit(getScenario("c01-lower", kind, be.addr, [][][]byte{one(lower)}))
		// short, check-byte-valid get responses (fewer than 3 payload bytes)
		for l := 0; l < 3; l++ {
			p := []byte{byte(be.addr), byte(be.addr >> 8), 0}[:l]
			emit(getScenario("c01-short", kind, be.addr, [][][]byte{one(simFrame(7, p))}))
		}
	}
	// "the value returned is exactly the decoding of that frame's payload": every accessor on payloads of every
	// width, with the sign bit set, NUL-padded, long (a 100-byte text is a 209-character frame)
	long44 := append([]byte("SmartSolar Charger MPPT VE.Can 250/100 rev2"), 0)
	long100 := append(rng.Bytes(97), 0, 0, 0)
	for k := range long100[:97] {
		long100[k] = 'a' + long100[k]%26
	}
	for pi, pl := range [][]byte{{0x80}, {0xFF}, {0x9C}, {0x7F}, {0x00, 0x80}, {0xFF, 0xFF}, {0x00, 0x00, 0x00, 0x80}, {0xFF, 0xFF, 0xFF, 0xFF},
		{0, 0, 0, 0, 0, 0, 0, 0x80}, {0xFF, 0xFF, 0xFF, 0xFF, 0xFF, 0xFF, 0xFF, 0xFF}, {1, 2, 3}, {1, 2, 3, 4, 5, 6, 7, 8, 9}, rng.Bytes(12), rng.Bytes(32), long44, long100,
		rng.Bytes(125), rng.Bytes(128), rng.Bytes(255), rng.Bytes(1000)} {
		a := []uint16{0xEDF0, 0x0000, 0x010A, 0xFFFF}[pi%4]
		for _, kind := range getKinds {
			emit(getScenario("c01-decode", kind, a, [][][]byte{one(simGet(a, 0, pl))}))
			emit(getScenario("c01-decode", kind, a, [][][]byte{{[]byte("\r\nV\t12800\r\n"), simGet(a+1, 0, pl)}, one(simGet(a, 0, pl))}))
		}
	}
	// a ':' followed by k x 4096 bytes without a newline and then the tail of a good frame: the line is not a frame
	for _, k := range []int{1, 2} {
		for _, off := range []int{0, -1, 1} {
			a := uint16(0xEDF0)
			good := simGet(a, 0, []byte{0x96, 0x00})
			junk := make([]byte, k*4096+off)
			for i := range junk {
				junk[i] = "0123456789ABCDEF VI."[rng.Intn(20)]
			}
			line := append(append([]byte(nil), junk...), good[1:]...)
			chunks := [][]byte{{':'}} // the start marker on its own, then 1 KiB chunks (keeps Reads and chunks one to one)
			for len(line) > 0 {
				n := min(1024, len(line))
				chunks = append(chunks, line[:n])
				line = line[n:]
			}
			for _, kind := range []string{"uint", "raw"} {
				sc := getScenario("c01-overlong-line", kind, a, [][][]byte{chunks})
				sc.NoAccept = true
				emit(sc)
			}
			idl := append(append([]byte(nil), junk...), []byte("156A05E\n")...)
			ic := [][]byte{{':'}}
			for len(idl) > 0 {
				n := min(1024, len(idl))
				ic = append(ic, idl[:n])
				idl = idl[n:]
			}
			emit(&Scenario{Tag: "c01-overlong-line", Replies: [][][]byte{ic}, Calls: []Call{{Kind: "devid", Want: "err:other"}}, NoAccept: true})
		}
	}
	genStale("c01-stale", rng, false, emit)
	genStale("c01-stale-refusal", rng, true, emit)
	genTrailing("c01", rng, emit)
	genRawHistory(rng, emit)
	// device id: Done frames and their corruptions
	ids := []uint16{0xA053, 0x0203, 0x0000, 0xFFFF, uint16(rng.U64())}
	// a faulty stream repeated for every exchange of a call (a call that retries must still not invent a value)
	for _, bad := range [][]byte{[]byte(":153A062\n"), []byte(":153A06\n"), []byte(":153A0"), simFrame(7, []byte{0x53, 0xA0}), simFrame(5, []byte{0x53, 0xA0}), []byte("\r\nV\t12800\r\n"), nil} {
		var replies [][][]byte
		for i := 0; i < 12; i++ {
			replies = append(replies, one(bad))
		}
		emit(&Scenario{Tag: "devid-persistent-fault", Replies: replies, Calls: []Call{{Kind: "devid", Want: "err:other"}, {Kind: "devid", Want: "err:other"}}, NoAccept: true})
	}
	for _, id := range ids {
		good := simFrame(1, []byte{byte(id), byte(id >> 8)})
		emit(&Scenario{Tag: "devid-good", Replies: [][][]byte{one(good)}, Calls: []Call{{Kind: "devid", Want: "ok:" + strconv.Itoa(int(id))}}})
		ms, tags := mutations(good, rng, thorough)
		for i, m := range ms {
			emit(&Scenario{Tag: "devid-" + tags[i], Replies: [][][]byte{one(m)}, Calls: []Call{{Kind: "devid"}}, MaxWritesPerCall: 1})
		}
		for n := 0; n < 16; n++ {
			emit(&Scenario{Tag: "devid-nibble", Replies: [][][]byte{one(simFrame(byte(n), []byte{byte(id), byte(id >> 8)}))}, Calls: []Call{{Kind: "devid"}}})
		}
		for l := 0; l < 6; l++ {
			emit(&Scenario{Tag: "devid-len", Replies: [][][]byte{one(simFrame(1, rng.Bytes(l)))}, Calls: []Call{{Kind: "devid"}}})
		}
	}
}

// ---------- C02 ----------

func genC02(rng *Rng, thorough bool, emit func(*Scenario)) {
	addrs := []uint16{0x0000, 0x0100, 0xEDF0, 0xFFFF, 0x0040, uint16(rng.U64())}
	// exhaustive 1-byte values, both accessors, several addresses
	for _, a := range addrs {
		for v := 0; v < 256; v++ {
			p := []byte{byte(v)}
			emit(&Scenario{Tag: "u8", Replies: [][][]byte{one(simGet(a, 0, p))}, Calls: []Call{{Kind: "uint", Addr: a, Want: "ok:" + strconv.Itoa(v)}}})
			emit(&Scenario{Tag: "i8", Replies: [][][]byte{one(simGet(a, 0, p))}, Calls: []Call{{Kind: "int", Addr: a, Want: "ok:" + strconv.Itoa(int(int8(v)))}}})
		}
	}
	// exhaustive 2-byte values (thorough: every value through both accessors; quick: every 5th + boundaries)
	step := 5
	if thorough {
		step = 1
	}
	for v := 0; v < 65536; v++ {
		if v%step != 0 && v != 0x7FFF && v != 0x8000 && v != 0xFFFF && v != 0x00FF && v != 0x0100 && v != 0x8001 {
			continue
		}
		a := addrs[v%len(addrs)]
		p := leBytes(2, uint64(v))
		emit(&Scenario{Tag: "u16", Replies: [][][]byte{one(simGet(a, 0, p))}, Calls: []Call{{Kind: "uint", Addr: a, Want: "ok:" + strconv.Itoa(v)}}})
		emit(&Scenario{Tag: "i16", Replies: [][][]byte{one(simGet(a, 0, p))}, Calls: []Call{{Kind: "int", Addr: a, Want: "ok:" + strconv.Itoa(int(int16(v)))}}})
	}
	// 4- and 8-byte: boundaries and random
	var vals []uint64
	for _, k := range []uint{0, 1, 7, 8, 15, 16, 31, 32, 33, 47, 62, 63} {
		vals = append(vals, uint64(1)<<k, uint64(1)<<k-1, uint64(1)<<k+1, ^(uint64(1) << k))
	}
	vals = append(vals, 0, ^uint64(0), 0x8000000000000000, 0x7FFFFFFFFFFFFFFF, 0x80000000, 0x7FFFFFFF, 0xFFFFFFFF)
	n := 2000
	if thorough {
		n = 40000
	}
	for i := 0; i < n; i++ {
		vals = append(vals, rng.U64()>>uint(rng.Intn(64)))
	}
	for i, v := range vals {
		a := uint16(rng.U64())
		if i%3 == 0 {
			a = addrs[i%len(addrs)]
		}
		for _, w := range []int{4, 8} {
			p := leBytes(w, v)
			mask := ^uint64(0)
			if w == 4 {
				mask = 0xFFFFFFFF
			}
			emit(&Scenario{Tag: fmt.Sprintf("u%d", 8*w), Replies: [][][]byte{one(simGet(a, 0, p))}, Calls: []Call{{Kind: "uint", Addr: a, Want: "ok:" + strconv.FormatUint(v&mask, 10)}}})
			var iv int64
			if w == 4 {
				iv = int64(int32(uint32(v)))
			} else {
				iv = int64(v)
			}
			emit(&Scenario{Tag: fmt.Sprintf("i%d", 8*w), Replies: [][][]byte{one(simGet(a, 0, p))}, Calls: []Call{{Kind: "int", Addr: a, Want: "ok:" + strconv.FormatInt(iv, 10)}}})
		}
	}
	// one driver instance, several reads: each read returns what the device holds *now* (no value remembered)
	for i := 0; i < 40; i++ {
		var replies [][][]byte
		var calls []Call
		a := addrs[i%len(addrs)]
		for k := 0; k < 2+rng.Intn(4); k++ {
			switch rng.Intn(4) {
			case 0:
				id := uint16(rng.U64())
				if k%2 == 1 {
					id = []uint16{0xA056, 0xA389, 0x0000, 0xFFFF, 0x0203}[rng.Intn(5)]
				}
				replies = append(replies, one(simFrame(1, []byte{byte(id), byte(id >> 8)})))
				calls = append(calls, Call{Kind: "devid", Want: "ok:" + strconv.Itoa(int(id))})
			case 1:
				v := rng.U64() >> uint(rng.Intn(64))
				replies = append(replies, one(simGet(a, 0, leBytes(4, v))))
				calls = append(calls, Call{Kind: "uint", Addr: a, Want: "ok:" + strconv.FormatUint(v&0xFFFFFFFF, 10)})
			case 2:
				v := rng.U64()
				replies = append(replies, one(simGet(a, 0, leBytes(2, v))))
				calls = append(calls, Call{Kind: "int", Addr: a, Want: "ok:" + strconv.Itoa(int(int16(v)))})
			default:
				t := rng.Bytes(1 + rng.Intn(20))
				for j := range t {
					t[j] = 'A' + t[j]%26
				}
				replies = append(replies, one(simGet(a, 0, append(t, 0, 0))))
				calls = append(calls, Call{Kind: "str", Addr: a, Want: "ok:" + HEX(t)})
			}
		}
		emit(&Scenario{Tag: "history-fresh-values", Replies: replies, Calls: calls, MaxWritesPerCall: 1})
	}
	// widths the signed accessor cannot interpret; the unsigned one reads the first eight bytes
	for _, w := range []int{0, 3, 5, 6, 7, 9, 10, 12, 16, 33} {
		for k := 0; k < 6; k++ {
			a := addrs[k%len(addrs)]
			p := rng.Bytes(w)
			emit(&Scenario{Tag: "int-width", Replies: [][][]byte{one(simGet(a, 0, p))}, Calls: []Call{{Kind: "int", Addr: a, Want: "err:other"}}, MaxWritesPerCall: 1})
			emit(&Scenario{Tag: "uint-width", Replies: [][][]byte{one(simGet(a, 0, p))}, Calls: []Call{{Kind: "uint", Addr: a, Want: "ok:" + strconv.FormatUint(leU(p), 10)}}})
		}
	}
	// text: all strings of length <= 1 (quick) / <= 2 (thorough) with 0..3 NULs of padding, random up to 64
	emitStr := func(tag string, s []byte, pad int) {
		a := addrs[(len(s)+pad)%len(addrs)]
		p := append(append([]byte(nil), s...), make([]byte, pad)...)
		// the four logger configurations take turns: what is returned must not depend on them
		cfg := 0
		if tag != "str-2" {
			cfg = (len(s)*7 + pad + int(a)) % 4
		}
		emit(&Scenario{Tag: tag, Cfg: cfg, Replies: [][][]byte{one(simGet(a, 0, p))}, Calls: []Call{{Kind: "str", Addr: a, Want: "ok:" + HEX(trimNulGo(p))}}})
	}
	// values far longer than any register of today: 125 ... 1000 bytes (frames of up to 2009 characters)
	for _, l := range []int{100, 124, 125, 126, 128, 200, 255, 256, 1000} {
		t := rng.Bytes(l)
		for i := range t {
			if t[i] == 0 {
				t[i] = 1
			}
		}
		emitStr("str-long", t, l%3)
		a := addrs[l%len(addrs)]
		emit(&Scenario{Tag: "uint-long", Replies: [][][]byte{one(simGet(a, 0, t))}, Calls: []Call{{Kind: "uint", Addr: a, Want: "ok:" + strconv.FormatUint(leU(t), 10)}}})
		emit(&Scenario{Tag: "raw-long", Replies: [][][]byte{one(simGet(a, 0, t))}, Calls: []Call{{Kind: "raw", Addr: a, Want: "ok:" + HEX(t)}}})
	}
	emitStr("str-empty", nil, 0)
	emitStr("str-empty", nil, 5)
	for b := 0; b < 256; b++ {
		emitStr("str-1", []byte{byte(b)}, b%4)
		if thorough {
			for c := 0; c < 256; c++ {
				emitStr("str-2", []byte{byte(b), byte(c)}, (b+c)%3)
			}
		} else {
			emitStr("str-2", []byte{byte(b), rng.Byte()}, b%3)
			emitStr("str-2", []byte{0, byte(b)}, b%3)
		}
	}
	ns := 1500
	if thorough {
		ns = 20000
	}
	for i := 0; i < ns; i++ {
		l := rng.Intn(65)
		s := rng.Bytes(l)
		switch rng.Intn(4) {
		case 0: // interior NULs
			for k := range s {
				if rng.Intn(3) == 0 {
					s[k] = 0
				}
			}
		case 1: // printable
			for k := range s {
				s[k] = 32 + s[k]%95
			}
		}
		emitStr("str-rand", s, rng.Intn(6))
	}
	// all 65536 device ids
	stepId := 3
	if thorough {
		stepId = 1
	}
	for id := 0; id < 65536; id += stepId {
		emit(&Scenario{Tag: "devid", Replies: [][][]byte{one(simFrame(1, []byte{byte(id), byte(id >> 8)}))}, Calls: []Call{{Kind: "devid", Want: "ok:" + strconv.Itoa(id)}}})
	}
	// histories on one driver instance: values already returned stay unaltered (aliasing clause; checked by
	// the harness itself, see RunScenario: every returned []byte is kept and re-compared at the end)
	nh := 300
	if thorough {
		nh = 5000
	}
	for i := 0; i < nh; i++ {
		nc := 2 + rng.Intn(12)
		sc := &Scenario{Tag: "history"}
		for k := 0; k < nc; k++ {
			a := uint16(rng.U64())
			w := []int{1, 2, 4, 8, 16, 3}[rng.Intn(6)]
			p := rng.Bytes(w)
			kind := []string{"raw", "raw", "uint", "int", "str", "cmd"}[rng.Intn(6)]
			c := Call{Kind: kind, Addr: a}
			if kind == "cmd" {
				c.Cmd = 7
			}
			sc.Calls = append(sc.Calls, c)
			sc.Replies = append(sc.Replies, one(simGet(a, 0, p)))
		}
		emit(sc)
	}
	genStale("c02-stale", rng, false, emit)
	genManyAddresses(rng, emit)
	genAppears(rng, emit)
}
