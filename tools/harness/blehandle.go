package main

func runBleHandleSuite(suite string, rng *Rng, thorough bool, s *Sink) bool {
	return false
}
