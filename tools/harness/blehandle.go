package main

import (
	"crypto/aes"
	"crypto/cipher"
	"fmt"
	"strings"

	"github.com/koestler/go-victron/ble"
	"github.com/koestler/go-victron/bleparser"
)

func runBleHandleSuite(suite string, rng *Rng, thorough bool, s *Sink) bool {
	if suite != "c19" {
		return runCliSuite(suite, rng, thorough, s)
	}
	suiteC19(rng, thorough, s)
	return true
}

func logField(logged, key string) (string, bool) {
	i := strings.Index(logged, key)
	if i < 0 {
		return "", false
	}
	rest := logged[i+len(key):]
	j := strings.IndexAny(rest, ",\n")
	if j < 0 {
		j = len(rest)
	}
	return rest[:j], true
}

// handleReal: the real handler's observable behaviour, canonicalised from what it logs. Only two pieces of the
// log's wording are relied upon - the keys "decryptedBytes=" and "solar charger record=" in front of the two
// values the property speaks about. Everything else is decided from structure: no plaintext logged means the
// payload was dropped (which of the property's two reasons applies is read off the input, not off the message),
// and a decode failure is recognised by the decoder's own error text for that plaintext appearing in the log.
func handleReal(key, raw []byte) (out string, plain []byte, logged string) {
	logged, panicked := ble.VerifHandle(key, raw, false)
	return canonHandle(logged, panicked, key, raw)
}

func canonHandle(logged string, panicked bool, key, raw []byte) (out string, plain []byte, _ string) {
	if panicked {
		return "PANIC", nil, logged
	}
	ph, ok := logField(logged, "decryptedBytes=")
	if !ok {
		switch {
		case strings.Contains(logged, "record="):
			return "record-without-plaintext", nil, logged
		case len(raw) < 9:
			return "ignored", nil, logged
		case len(key) != 16 && len(key) != 24 && len(key) != 32:
			return "cipher-error", nil, logged
		}
		return "no-plaintext-logged", nil, logged
	}
	plain = unHEX(strings.ToUpper(ph))
	out = "plain:" + strings.ToUpper(ph)
	rec, derr := bleparser.DecodeSolarChargeRecord(plain)
	if i := strings.Index(logged, "solar charger record="); i >= 0 {
		txt := strings.TrimSuffix(logged[i+len("solar charger record="):], "\n")
		if fmt.Sprintf("%#v", rec) != txt {
			return out + ";rec-differs-from-decoder:" + txt, plain, logged
		}
		if derr != nil {
			// the decoder rejected the plaintext and the handler shows what the decoder handed back together with its error
			// (dropping such a record or logging it is the handler's choice): the decoder's verdict is what counts
			return out + ";err:" + errKind(derr), plain, logged
		}
		return out + ";rec:" + strings.ReplaceAll(renderRecord(rec), ";", ","), plain, logged
	}
	after := logged[strings.Index(logged, "decryptedBytes=")+len("decryptedBytes="):]
	if nl := strings.Index(after, "\n"); nl >= 0 {
		after = after[nl+1:]
	} else {
		after = ""
	}
	if len(raw) > 4 && raw[4] == 0x01 && derr != nil && strings.Contains(after, derr.Error()) {
		return out + ";err:" + errKind(derr), plain, logged
	}
	if strings.TrimSpace(after) != "" && len(raw) > 4 && raw[4] == 0x01 {
		return out + ";err:other", plain, logged
	}
	return out + ";none", plain, logged
}

// refPlain: AES-CTR with the standard library, from the property text: bytes 8.. decrypted under the key
// with the little-endian 16-bit nonce of bytes 5-6 as initial counter block
func refPlain(key, raw []byte) ([]byte, bool) {
	block, err := aes.NewCipher(key)
	if err != nil {
		return nil, false
	}
	iv := make([]byte, 16)
	iv[0], iv[1] = raw[5], raw[6]
	enc := raw[8:]
	out := make([]byte, len(enc))
	cipher.NewCTR(block, iv).XORKeyStream(out, enc)
	return out, true
}

func encryptFor(key []byte, nonce uint16, plain []byte) []byte {
	block, _ := aes.NewCipher(key)
	iv := make([]byte, 16)
	iv[0], iv[1] = byte(nonce), byte(nonce>>8)
	out := make([]byte, len(plain))
	cipher.NewCTR(block, iv).XORKeyStream(out, plain)
	return out
}

func suiteC19(rng *Rng, thorough bool, s *Sink) {
	// besides a fresh handler per advertisement, ONE handler sees the whole sequence (same device name, changing keys):
	// what it does with an advertisement must not depend on the ones it handled before
	session := ble.VerifSessionNew()
	emit := func(tag string, key, raw []byte) {
		out, plain, logged := handleReal(key, raw)
		op := fmt.Sprintf("BH %s %s", hexOrDash(key), hexOrDash(raw))
		s.Line(tag, op, out)
		// the property, directly
		viol := func(w string) { s.Violate(op, out, w) }
		slog, spanic := session.Handle(key, raw)
		if sout, _, _ := canonHandle(slog, spanic, key, raw); sout != out {
			s.Line(tag+"-in-sequence", op+" mut:handler-has-seen-earlier-advertisements", sout)
			viol(fmt.Sprintf("a handler that has handled earlier advertisements of the device (other keys) gives %s; a fresh handler gives %s", sout, out))
		}
		if out == "PANIC" {
			viol(fmt.Sprintf("advertisement handling panics (payload %d bytes, key %d bytes)", len(raw), len(key)))
			return
		}
		if len(raw) < 9 {
			if out != "ignored" {
				viol("a payload too short to hold the 8-byte header and data must be ignored")
			}
			return
		}
		want, ok := refPlain(key, raw)
		if !ok {
			if out != "cipher-error" {
				viol("an invalid key length must be reported, not used")
			}
			return
		}
		if string(want) != string(plain) {
			viol(fmt.Sprintf("plaintext %X is not the AES-CTR decryption %X of bytes 8.. under the key with nonce %02X%02X", plain, want, raw[6], raw[5]))
		}
		if raw[4] == 0x01 {
			rec, err := bleparser.DecodeSolarChargeRecord(want)
			exp := ""
			if err != nil {
				exp = ";err:" + errKind(err)
			} else {
				exp = ";rec:" + strings.ReplaceAll(renderRecord(rec), ";", ",")
			}
			if !strings.HasSuffix(out, exp) {
				viol(fmt.Sprintf("type 0x01 record must be decoded exactly as the solar-charger decoder decodes the plaintext (%s), got %s", exp, out))
			}
		} else if strings.Contains(logged, "solar charger") {
			viol("a record of another type was handed to the solar charger decoder")
		}
	}
	// the names are the user's: a percent sign, quotes, non-ASCII text, a very long name - what is decrypted, decoded and
	// reported for an advertisement does not depend on what the device or the instance is called
	defer func() {
		k := rng.Bytes(16)
		plain := append([]byte{0x05, 0x00}, rng.Bytes(10)...)
		for ni, names := range [][2]string{{"verif", "Solar roof 100%"}, {"100% ble", "Bat 80%DoD"}, {"%s%d%v", "%!d(MISSING)"}, {"ble \"main\"", "Zählerschrank – Süd"},
			{"v", strings.Repeat("long name ", 40)}, {"", ""}, {"%", "%%"}, {"a%20b", "50%-70%"}} {
			ble.VerifInstanceName, ble.VerifDeviceName = names[0], names[1]
			for ti, typ := range []byte{0x01, 0x02, 0x01} {
				raw := append([]byte{0x10, 0x00, 0x00, 0xA0, typ, byte(ni), byte(ti), k[0]}, encryptFor(k, uint16(ti)<<8|uint16(ni), plain)...)
				if ti == 2 {
					raw = raw[:6] // too short: ignored
				}
				emit("names", k, raw)
			}
		}
		ble.VerifInstanceName, ble.VerifDeviceName = "verif", "dev"
	}()
	keys := [][]byte{make([]byte, 16), rng.Bytes(16), rng.Bytes(24), rng.Bytes(32)}
	// payload lengths 0..64 x contents
	for l := 0; l <= 64; l++ {
		for c := 0; c < 3; c++ {
			raw := rng.Bytes(l)
			if c == 1 {
				for i := range raw {
					raw[i] = 0
				}
			}
			if l > 4 {
				raw[4] = []byte{1, 1, 2, 0x0A}[rng.Intn(4)]
			}
			emit("length", keys[(l+c)%len(keys)], raw)
		}
	}
	// valid solar charger advertisements: plaintext records of length 12..16 encrypted under the key
	n := 400
	if thorough {
		n = 8000
	}
	for i := 0; i < n; i++ {
		key := keys[rng.Intn(len(keys))]
		pl := rng.Bytes(12 + rng.Intn(5))
		if i%8 == 0 {
			pl = rng.Bytes(rng.Intn(12)) // too short for the decoder: must be rejected, not decoded from padding
		}
		if i%3 != 0 {
			pl0 := []byte{0, 2, 3, 4, 5, 7, 245, 247, 252}[rng.Intn(9)]
			if len(pl) > 1 {
				pl[0], pl[1] = pl0, []byte{0, 2, 17, 18, 33}[rng.Intn(5)]
			}
		}
		nonce := uint16(rng.U64())
		hdr := []byte{0x10, 0x02, 0x53, 0xA0, 0x01, byte(nonce), byte(nonce >> 8), key[0]}
		emit("solar", key, append(hdr, encryptFor(key, nonce, pl)...))
	}
	// key lengths 0..40 (valid: 16, 24, 32), nil key
	raw := append([]byte{0x10, 0x02, 0x53, 0xA0, 0x01, 0x34, 0x12, 0xAB}, rng.Bytes(14)...)
	for kl := 0; kl <= 40; kl++ {
		emit("key-length", rng.Bytes(kl), raw)
	}
	emit("key-length", nil, raw)
	// nonces: all 65536 on one payload (thorough), a stride otherwise
	step := 97
	if thorough {
		step = 1
	}
	key := keys[1]
	for nn := 0; nn < 65536; nn += step {
		r := append([]byte{0x10, 0x02, 0x53, 0xA0, 0x01, byte(nn), byte(nn >> 8), key[0]}, raw[8:]...)
		emit("nonce", key, r)
	}
	// all 256 record types
	for t := 0; t < 256; t++ {
		r := append([]byte(nil), raw...)
		r[4] = byte(t)
		emit("record-type", key, r)
	}
	// the same payload buffer (with spare capacity, as a receive buffer has) delivered twice: the caller's bytes are not touched
	// and the second delivery is handled like the first
	for i := 0; i < 6; i++ {
		key := keys[i%len(keys)]
		pl := rng.Bytes(12 + 4*i)
		buf := make([]byte, 0, 128)
		buf = append(buf, 0x10, 0x02, 0x53, 0xA0, 0x01, byte(i), 0x00, key[0])
		buf = append(buf, encryptFor(key, uint16(i), pl)...)
		before := append([]byte(nil), buf...)
		l1, p1 := session.Handle(key, buf)
		o1, _, _ := canonHandle(l1, p1, key, before)
		touched := string(buf) != string(before)
		l2, p2 := session.Handle(key, buf)
		o2, _, _ := canonHandle(l2, p2, key, before)
		op := fmt.Sprintf("BH %s %s mut:same-buffer-delivered-twice", hexOrDash(key), hexOrDash(before))
		if touched || o1 != o2 {
			s.Violate(op, o2, fmt.Sprintf("the payload buffer handed to the handler was modified (%v) or its second delivery is handled differently: %s then %s", touched, o1, o2))
		}
	}
	// one handler object, one goroutine per device (that is how ble.New runs them): every device's advertisement is decrypted
	// with that device's key, whatever the other goroutines do
	{
		nd := 4
		var ks, rs [][]byte
		var wantPlain []string
		for i := 0; i < nd; i++ {
			key := rng.Bytes(16)
			pl := rng.Bytes(12 + i)
			raw := append([]byte{0x10, 0x02, 0x53, 0xA0, 0x01, byte(i), 0x00, key[0]}, encryptFor(key, uint16(i), pl)...)
			ks, rs = append(ks, key), append(rs, raw)
			wantPlain = append(wantPlain, strings.ToLower(HEX(pl)))
		}
		rounds := 300
		if thorough {
			rounds = 5000
		}
		logged, panics := ble.VerifConcurrent(ks, rs, rounds)
		wrong := 0
		example := ""
		for _, ln := range strings.Split(logged, "\n") {
			i := strings.Index(ln, "->dev")
			j := strings.Index(ln, "decryptedBytes=")
			if i < 0 || j < 0 {
				continue
			}
			d := int(ln[i+5] - '0')
			got := ln[j+len("decryptedBytes="):]
			if k := strings.IndexAny(got, ", "); k >= 0 {
				got = got[:k]
			}
			if d >= 0 && d < nd && got != wantPlain[d] {
				wrong++
				if example == "" {
					example = fmt.Sprintf("device %d: plaintext %s logged, the decryption under its key is %s", d, got, wantPlain[d])
				}
			}
		}
		s.Extra["concurrent_advertisements"] += nd * rounds
		if wrong > 0 || panics > 0 {
			s.Violate(fmt.Sprintf("BH %s %s mut:four-devices-handled-concurrently", hexOrDash(ks[0]), hexOrDash(rs[0])), example,
				fmt.Sprintf("with one goroutine per device on one handler object, %d advertisements were decrypted wrongly and %d calls panicked; %s", wrong, panics, example))
		}
	}
	// longer payloads (several cipher blocks)
	for l := 24; l <= 80; l += 3 {
		r := append([]byte{0x10, 0x02, 0x53, 0xA0, byte(l % 3), 0x01, 0x00, 0}, rng.Bytes(l-8)...)
		emit("multi-block", keys[l%len(keys)], r)
	}
	// padding
	for l := 0; l <= 48; l++ {
		for _, bs := range []int{16, 1, 2, 7, 8, 32, 255} {
			data := rng.Bytes(l)
			out := "PANIC"
			func() {
				defer func() { recover() }()
				out = HEX(ble.PKCS7Padding(append([]byte(nil), data...), bs))
			}()
			op := fmt.Sprintf("PK %s %d", hexOrDash(data), bs)
			s.Line("pkcs7", op, out)
			p := len(out)/2 - l
			okPad := out != "PANIC" && p >= 1 && p <= bs && (l+p)%bs == 0 && strings.HasPrefix(out, HEX(data))
			if okPad {
				for _, b := range unHEX(out)[l:] {
					if int(b) != p {
						okPad = false
					}
				}
			}
			if !okPad {
				s.Violate(op, out, fmt.Sprintf("padding of %d bytes to block size %d must append between 1 and %d bytes, each equal to the pad length, reaching a multiple of the block size", l, bs, bs))
			}
		}
	}
	// MAC matching
	macs := [][]byte{{0xd4, 0x9d, 0xd2, 0x92, 0x62, 0x02}, {0xd4, 0x9d}, {}, {0xaa, 0xbb, 0xcc, 0xdd, 0xee, 0xff}}
	addrs := []string{"D4:9D:D2:92:62:02", "d4:9d:d2:92:62:02", "D4:9D:D2:92:62:03", "D4:9D", "D4:9D:ZZ", "D4:9D:D", "", ":", "ZZ", "AA:BB:CC:DD:EE:FF", "AABBCCDDEEFF", "AA:BB:CC:DD:EE:F", "AA:BB:CC:DD:EE:FG",
		"D4:9D:D2:92:62:02:00", "0xD4:9D", "D4-9D", " D4:9D", "d49d", "D4:9d:d2:92:62:02\n"}
	for i := 0; i < 60; i++ {
		b := rng.Bytes(rng.Intn(7))
		var parts []string
		for _, x := range b {
			parts = append(parts, fmt.Sprintf("%02X", x))
		}
		a := strings.Join(parts, ":")
		if i%4 == 0 && len(a) > 0 {
			a = a[:len(a)-1]
		}
		if i%5 == 0 {
			a = strings.ToLower(a)
		}
		addrs = append(addrs, a)
	}
	for _, a := range addrs {
		for _, set := range [][][]byte{macs, {macs[1], macs[0]}, {macs[2]}, {macs[3], macs[3]}, {}} {
			idx, panicked := ble.VerifMatch(set, a)
			out := fmt.Sprintf("%d", idx)
			if panicked {
				out = "PANIC"
			}
			var ms []string
			for _, m := range set {
				if len(m) == 0 {
					ms = append(ms, "e") // an empty MAC
				} else {
					ms = append(ms, HEX(m))
				}
			}
			mstr := strings.Join(ms, ",")
			if len(ms) == 0 {
				mstr = "-"
			}
			op := fmt.Sprintf("BM %s %s", hexOrDash([]byte(a)), mstr)
			s.Line("mac", op, out)
			// the property: matched exactly when the colon-separated hex address equals the configured MAC
			want := -1
			clean := strings.ReplaceAll(a, ":", "")
			wellFormed := len(clean)%2 == 0
			for _, c := range clean {
				if hexVal(byte(c)) < 0 || c > 127 {
					wellFormed = false
				}
			}
			if wellFormed {
				dec := unHEX(clean)
				for i, m := range set {
					if string(m) == string(dec) {
						want = i
						break
					}
				}
			}
			if idx != want {
				s.Violate(op, out, fmt.Sprintf("address %q against MACs %s: matched device %d, want %d", a, mstr, idx, want))
			}
		}
	}
}
