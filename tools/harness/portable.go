package main

// fitInts / fitUints: the values that exist in this platform's int / uint (all of them on 64-bit targets; on a
// 32-bit target the wider ones are not values a caller can pass, so they are left out rather than truncated)
func fitInts(vs ...int64) []int {
	var out []int
	for _, v := range vs {
		if int64(int(v)) == v {
			out = append(out, int(v))
		}
	}
	return out
}

func fitUints(vs ...uint64) []uint {
	var out []uint
	for _, v := range vs {
		if uint64(uint(v)) == v {
			out = append(out, uint(v))
		}
	}
	return out
}
