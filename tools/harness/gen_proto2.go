package main

import (
	"fmt"
	"strconv"
)

// ---------- C03: every typed entry point, no device answer => 8 attempts, each one frame ----------

func genC03(rng *Rng, thorough bool, emit func(*Scenario)) {
	step := 32
	if thorough {
		step = 1
	}
	off := rng.Intn(step)
	for a := off; a < 65536; a += step {
		for _, k := range getKinds {
			emit(&Scenario{Tag: "typed-" + k, Calls: []Call{{Kind: k, Addr: uint16(a), Want: "err:other"}}, MaxWritesPerCall: 8})
		}
	}
	// one frame per attempt also when the port misbehaves: failing writes, failing reads, answered attempts
	for _, wf := range [][]int{{0}, {1}, {0, 1}, {2, 5}, {0, 1, 2, 3, 4, 5, 6, 7}, nil} {
		for _, rf := range [][]int{nil, {0}, {1, 2}} {
			a := uint16(rng.U64())
			good := simGet(a, 0, []byte{1, 2})
			emit(&Scenario{Tag: "faulty-port", WF: wf, RF: rf, MaxWritesPerCall: 8,
				Replies: [][][]byte{nil, nil, nil, one(good), one(simFrame(5, []byte{0x16, 0x41})), one(simFrame(1, []byte{0x53, 0xA0})), one(good)},
				Calls:   []Call{{Kind: "ping"}, {Kind: "devid"}, {Kind: getKinds[rng.Intn(4)], Addr: a}, {Kind: "ping"}, {Kind: "devid"}, {Kind: "uint", Addr: a}, {Kind: "cmd", Cmd: 3}, {Kind: "cmd", Cmd: 8, Addr: a}}})
		}
	}
	// whatever the device answers - the frame-error response ":4AAAAFD", other response types, async frames - a single
	// attempt hands exactly one frame to the port
	for _, ans := range [][]byte{[]byte(":4AAAAFD\n"), simFrame(4, []byte{0xAA, 0xAA}), simFrame(3, nil), simFrame(0xA, []byte{1, 2, 3, 4}), simFrame(0, nil), simFrame(0xF, []byte{9})} {
		a := uint16(rng.U64())
		var replies [][][]byte
		for i := 0; i < 12; i++ {
			replies = append(replies, one(ans))
		}
		emit(&Scenario{Tag: "one-frame-per-attempt", Replies: replies, MaxWritesPerCall: 1, ExactWrites: []int{1, 1, 1, 1, 1, 1},
			Calls: []Call{{Kind: "ping"}, {Kind: "devid"}, {Kind: "cmd", Cmd: 7, Addr: a}, {Kind: "cmd", Cmd: 6}, {Kind: "cmd", Cmd: 8, Addr: a}, {Kind: "cmd", Cmd: 3}}})
		emit(&Scenario{Tag: "one-frame-per-attempt", Replies: replies, MaxWritesPerCall: 8, ExactWrites: []int{8}, Calls: []Call{{Kind: "uint", Addr: a, Want: "err:other"}}})
	}
	emit(&Scenario{Tag: "ping", Calls: []Call{{Kind: "ping"}}, MaxWritesPerCall: 1})
	emit(&Scenario{Tag: "devid", Calls: []Call{{Kind: "devid"}}, MaxWritesPerCall: 1})
}

// genC03x: ports outside the io.Writer contract. The driver hands the frame to the port once; what it returns when the port
// reports a partial write without an error is not constrained by the property, what it hands to the port is: decided by the
// oracles alone (suite c03x, no model lines).
func genC03x(rng *Rng, thorough bool, emit func(*Scenario)) {
	// a port that takes only part of the bytes of a Write (n < len(b), no error): still one frame handed over per attempt
	for _, ws := range [][]int{{0}, {0, 1, 2, 3, 4, 5, 6, 7, 8, 9, 10, 11}, {1, 3}} {
		a := uint16(rng.U64())
		good := simGet(a, 0, []byte{1, 2})
		emit(&Scenario{Tag: "short-write", WS: ws, MaxWritesPerCall: 8, Replies: [][][]byte{nil, one(good), nil, nil, one(good)},
			Calls: []Call{{Kind: "uint", Addr: a}, {Kind: "ping"}, {Kind: "devid"}, {Kind: "raw", Addr: a}, {Kind: "cmd", Cmd: 8, Addr: a}}})
		emit(&Scenario{Tag: "short-write", WS: ws, MaxWritesPerCall: 8, Calls: []Call{{Kind: "str", Addr: a, Want: "err:other"}}})
	}
}

// ---------- C04: reaction sequences ----------

type reaction struct {
	name   string
	chunks func(rng *Rng, addr uint16, good []byte) [][]byte
}

func reactions() []reaction {
	noise := func(rng *Rng) []byte {
		s := [][]byte{[]byte("\r\nV\t12800\r\nI\t-1500"), []byte("Checksum\t\x07\r\n"), []byte("PID\t0xA053\r\nFW\t159\r\n"), {0x00, 0xFF, 0x0D}}
		return s[rng.Intn(len(s))]
	}
	return []reaction{
		{"silence", func(rng *Rng, a uint16, g []byte) [][]byte { return nil }},
		{"noise", func(rng *Rng, a uint16, g []byte) [][]byte { return one(noise(rng)) }},
		{"async", func(rng *Rng, a uint16, g []byte) [][]byte {
			var cs [][]byte
			for i := 0; i <= rng.Intn(3); i++ {
				cs = append(cs, simFrame(0xA, append([]byte{byte(a), byte(a >> 8), 0}, rng.Bytes(1+rng.Intn(4))...)))
			}
			return cs
		}},
		{"bad", func(rng *Rng, a uint16, g []byte) [][]byte {
			m := append([]byte(nil), g...)
			switch rng.Intn(4) {
			case 0: // wrong check byte
				m[len(m)-2] = hexU[(hexVal(m[len(m)-2])+1)%16]
			case 1: // odd length
				m = append(m[:3], m[4:]...)
			case 2: // non-hex digit
				m[4] = 'G'
			case 3: // wrong response nibble with a valid check byte
				p := append([]byte{byte(a), byte(a >> 8), 0}, 0x11)
				m = simFrame(8, p)
			}
			return one(m)
		}},
		{"foreign", func(rng *Rng, a uint16, g []byte) [][]byte {
			// a valid response for another register; its flag byte may well be an error flag
			flag := []byte{0, 0, 1, 2, 4, 0x80}[rng.Intn(6)]
			return one(simGet(a+1+uint16(rng.Intn(7)), flag, rng.Bytes(rng.Intn(3))))
		}},
		{"partial", func(rng *Rng, a uint16, g []byte) [][]byte {
			return one(append([]byte(nil), g[:1+rng.Intn(len(g)-1)]...))
		}},
		{"several", func(rng *Rng, a uint16, g []byte) [][]byte {
			return [][]byte{simGet(a^0x8000, 0, []byte{1}), simFrame(5, []byte{0x16, 0x41})}
		}},
		{"asyncgood", func(rng *Rng, a uint16, g []byte) [][]byte { // async frames then nothing else
			return one(append(simFrame(0xA, []byte{1, 2, 3, 4}), noise(rng)...))
		}},
	}
}

func genC04(rng *Rng, thorough bool, emit func(*Scenario)) {
	rs := reactions()
	emitSeq := func(tag string, seq []int, goodAt int) {
		addr := uint16(rng.U64())
		w := []int{1, 2, 4, 8}[rng.Intn(4)]
		val := rng.Bytes(w)
		good := simGet(addr, 0, val)
		var replies [][][]byte
		for i := 0; i < 9; i++ {
			switch {
			case i == goodAt:
				// sometimes preceded by skippable material in the same reply
				switch rng.Intn(3) {
				case 0:
					replies = append(replies, one(good))
				case 1:
					replies = append(replies, [][]byte{[]byte("\r\nH1\t-55"), simFrame(0xA, []byte{9, 9, 0, 1}), good})
				default:
					c := 1 + rng.Intn(len(good)-1)
					replies = append(replies, [][]byte{good[:c], good[c:]})
				}
			case i < len(seq):
				replies = append(replies, rs[seq[i]].chunks(rng, addr, good))
			default:
				replies = append(replies, rs[rng.Intn(len(rs))].chunks(rng, addr, good))
			}
		}
		kind := getKinds[rng.Intn(4)]
		emit(getScenario(tag, kind, addr, replies))
	}
	// exhaustive for sequences of length <= 2 (quick) / 3 (thorough) over the alphabet, good frame right after
	maxLen := 2
	if thorough {
		maxLen = 3
	}
	var rec func(seq []int)
	rec = func(seq []int) {
		emitSeq(fmt.Sprintf("seq-len%d", len(seq)), seq, len(seq))
		if len(seq) < maxLen {
			for i := range rs {
				rec(append(append([]int(nil), seq...), i))
			}
		}
	}
	rec(nil)
	// good frame at attempt 1..9 behind random reactions
	n := 60
	if thorough {
		n = 1500
	}
	for g := 0; g < 9; g++ {
		for k := 0; k < n; k++ {
			seq := make([]int, g)
			for i := range seq {
				seq[i] = rng.Intn(len(rs))
			}
			emitSeq(fmt.Sprintf("good-at-%d", g+1), seq, g)
		}
	}
	// never a good frame
	for k := 0; k < n; k++ {
		seq := make([]int, 9)
		for i := range seq {
			seq[i] = rng.Intn(len(rs))
		}
		emitSeq("never-good", seq, 99)
	}
	// text-protocol output for a long time - several KiB without a ':' , more than bufio's buffer - in front of the answer
	longNoise := func(kib int) [][]byte {
		var cs [][]byte
		line := []byte("V\t12800\r\nI\t-1500\r\nP\t-19\r\nCE\t-2000\r\nSOC\t995\r\nTTG\t-1\r\nAlarm\tOFF\r\nChecksum\t\x07\r\n")
		for len(cs) < kib {
			c := make([]byte, 0, 1024)
			for len(c) < 1024 {
				c = append(c, line[:min(len(line), 1024-len(c))]...)
			}
			cs = append(cs, c)
		}
		return cs
	}
	for _, kib := range []int{3, 5, 9, 40} {
		addr := uint16(rng.U64())
		good := simGet(addr, 0, []byte{0x96, 0x00})
		emit(getScenario("long-noise", "uint", addr, [][][]byte{append(longNoise(kib), good)}))
		emit(getScenario("long-noise", "raw", addr, [][][]byte{nil, nil, nil, nil, nil, nil, nil, append(longNoise(kib), good)}))
		emit(getScenario("long-noise", "str", addr, [][][]byte{longNoise(kib), one(good)}))
	}
	// a talkative device: many asynchronous frames (4 ... 150) in front of the answer, in one attempt
	for _, na := range []int{4, 5, 16, 17, 20, 150} {
		addr := uint16(rng.U64())
		good := simGet(addr, 0, []byte{0x96, 0x00})
		var cs [][]byte
		for i := 0; i < na; i++ {
			cs = append(cs, simFrame(0xA, []byte{byte(addr), byte(addr >> 8), 0, byte(i)}))
		}
		sc := getScenario("many-async", "uint", addr, [][][]byte{append(append([][]byte(nil), cs...), good)})
		sc.ExactWrites = []int{1}
		emit(sc)
		sc = getScenario("many-async", "str", addr, [][][]byte{nil, nil, nil, nil, nil, nil, nil, append(append([][]byte(nil), cs...), good)})
		sc.ExactWrites = []int{8}
		emit(sc)
	}
	// a port whose last Read of a call reports io.EOF together with its data (legal for an io.Reader); after an idle pause the
	// next call must not stumble over that old end-of-data
	for k := 0; k < 6; k++ {
		addr := uint16(rng.U64())
		good := simGet(addr, 0, []byte{byte(k), 0x01})
		other := simGet(addr+1, 0, []byte{7})
		replies := [][][]byte{one(good), one(good)}
		calls := []Call{{Kind: "uint", Addr: addr}, {Kind: "uint", Addr: addr, Sleep: true}}
		exact := []int{1, 1}
		if k%2 == 1 { // second call: answers for another register on attempts 1-7, the good frame at attempt 8
			replies = [][][]byte{one(good), one(other), one(other), one(other), one(other), one(other), one(other), one(other), one(good)}
			exact = []int{1, 8}
		}
		emit(&Scenario{Tag: "eof-with-data-sleep", EOFData: 1, Replies: replies, Calls: calls, ExactWrites: exact, MaxWritesPerCall: 8})
	}
	// idle / non-idle histories on one driver instance: stale bytes (an outdated good response for the same
	// register, or for another one) are left pending by call 1; call 2 comes either at once (non-idle: the
	// stale frame IS consumed first, as the model says) or after 110 ms (idle: it must be flushed).
	nh := 12
	if thorough {
		nh = 80
	}
	for k := 0; k < nh; k++ {
		addr := uint16(rng.U64())
		oldv, newv := []byte{0x11, 0x11}, []byte{0x22, 0x22}
		stale := simGet(addr, 0, oldv)
		if k%3 == 2 {
			stale = simGet(addr+1, 0, oldv)
		}
		first := simGet(addr, 0, []byte{0x00, 0x00})
		sleep := k%2 == 0
		sc := &Scenario{Tag: "idle-history", MaxWritesPerCall: 8,
			Replies: [][][]byte{{first, stale}, one(simGet(addr, 0, newv))},
			Calls:   []Call{{Kind: "uint", Addr: addr, Want: "ok:0"}, {Kind: "uint", Addr: addr, Sleep: sleep}}}
		if sleep {
			sc.Tag = "idle-history-sleep"
			sc.Calls[1].Want = "ok:" + strconv.Itoa(0x2222) // the stale frame must not be returned
		}
		if k%4 == 1 {
			sc.Init = one(simGet(addr, 0, []byte{0x99})) // stale bytes before the very first call: flushed
		}
		emit(sc)
	}
	genStale("c04-stale", rng, false, emit)
	genSlowSilence(rng, thorough, emit)
	genTrailing("c04", rng, emit)
	genSteadyTraffic(rng, emit)
}

// ---------- C05 ----------

func genC05(rng *Rng, thorough bool, emit func(*Scenario)) {
	na := 40
	if thorough {
		na = 2000
	}
	addrs := []uint16{0, 0xFFFF, 0x0100, 0xEDF0, 0x0040}
	for len(addrs) < na {
		addrs = append(addrs, uint16(rng.U64()))
	}
	kinds := map[byte]string{1: "err:unknown-id", 2: "err:not-supported", 4: "err:parameter-error"}
	for _, a := range addrs {
		for _, f := range []byte{1, 2, 4} {
			for _, k := range getKinds {
				for _, pl := range [][]byte{nil, {0}, {0x12, 0x34}, rng.Bytes(4), rng.Bytes(8)} {
					sc := &Scenario{Tag: fmt.Sprintf("flag%d-%s", f, k), Replies: [][][]byte{one(simGet(a, f, pl)), one(simGet(a, 0, []byte{1}))},
						Calls: []Call{{Kind: k, Addr: a, Want: kinds[f]}}, MaxWritesPerCall: 1}
					emit(sc)
				}
			}
		}
		// one driver instance, the same register read again: the answer of *this* read decides, nothing is remembered
		for _, f := range []byte{1, 2, 4} {
			for _, k := range getKinds {
				g := byte([]int{1, 2, 4}[rng.Intn(3)])
				sc := &Scenario{Tag: "flag-history-" + k, MaxWritesPerCall: 1,
					Replies: [][][]byte{one(simGet(a, f, nil)), one(simGet(a, g, []byte{9})), one(simGet(a, 0, []byte{0x2A, 0})), one(simGet(a, f, nil))},
					Calls:   []Call{{Kind: k, Addr: a, Want: kinds[f]}, {Kind: getKinds[rng.Intn(4)], Addr: a, Want: kinds[g]}, {Kind: "uint", Addr: a, Want: "ok:42"}, {Kind: k, Addr: a, Want: kinds[f]}}}
				emit(sc)
			}
		}
		// asynchronous frames in front of the refusal: still exactly one command frame
		for _, na := range []int{1, 3, 4, 6, 20} {
			f := byte([]int{1, 2, 4}[rng.Intn(3)])
			var cs [][]byte
			for i := 0; i < na; i++ {
				cs = append(cs, simFrame(0xA, []byte{byte(a), byte(a >> 8), 0, byte(i)}))
			}
			cs = append(cs, simGet(a, f, nil))
			emit(&Scenario{Tag: "flag-behind-async", Replies: [][][]byte{cs, one(simGet(a, 0, []byte{1}))}, Calls: []Call{{Kind: getKinds[rng.Intn(4)], Addr: a, Want: kinds[f]}}, MaxWritesPerCall: 1})
		}
		// error frame behind retries: still exactly k frames
		for _, f := range []byte{1, 2, 4} {
			k := 1 + rng.Intn(7)
			var replies [][][]byte
			for i := 0; i < k; i++ {
				replies = append(replies, nil)
			}
			replies = append(replies, one(simGet(a, f, nil)))
			sc := &Scenario{Tag: "flag-after-retries", Replies: replies, Calls: []Call{{Kind: getKinds[rng.Intn(4)], Addr: a, Want: kinds[f]}}, MaxWritesPerCall: k + 1}
			emit(sc)
		}
	}
	genStale("c05-stale", rng, true, emit)
	genTrailing("c05", rng, emit)
	genAppears(rng, emit)
}

// ---------- C06 ----------

func genC06(rng *Rng, thorough bool, emit func(*Scenario)) {
	// structured streams: every valid frame shortened to every length, every response nibble, empty payloads
	type kc struct {
		kind string
		cmd  byte
	}
	callKinds := []kc{{"ping", 0}, {"devid", 0}, {"raw", 0}, {"uint", 0}, {"int", 0}, {"str", 0}, {"cmd", 1}, {"cmd", 3}, {"cmd", 4}, {"cmd", 6}, {"cmd", 7}, {"cmd", 8}, {"cmd", 0xA}, {"cmd", 0}, {"cmd", 0x0F}}
	addr := uint16(0x0100)
	var streams [][]byte
	for n := 0; n < 16; n++ {
		for l := 0; l <= 5; l++ {
			p := []byte{byte(addr), byte(addr >> 8), 0, 0x34, 0x12}[:l]
			f := simFrame(byte(n), p)
			streams = append(streams, f)
			if n == 7 || n == 1 || n == 5 {
				for c := 0; c < len(f); c++ {
					streams = append(streams, f[:c])
				}
			}
		}
	}
	// well-formed Get responses carrying values of every width 0..12, 16, 32, 64
	for _, w := range []int{0, 1, 2, 3, 4, 5, 6, 7, 8, 9, 10, 11, 12, 16, 32, 64} {
		streams = append(streams, simGet(addr, 0, rng.Bytes(w)))
	}
	streams = append(streams, []byte(":\n"), []byte("::\n\n"), []byte(":A\n"), []byte(":A"), []byte(":7\n"), []byte(":\n:\n:\n:\n:\n:\n:\n:\n:\n"),
		[]byte(":700004E\n"), []byte(":154\n"), []byte(":1AAAA\n"), []byte(":7000100\n"), []byte(":70001004D\n"))
	for _, s := range streams {
		for _, ck := range callKinds {
			if !thorough && rng.Intn(3) != 0 {
				continue
			}
			var replies [][][]byte
			for i := 0; i < 8; i++ {
				replies = append(replies, one(s))
			}
			emit(&Scenario{Tag: "structured-" + ck.kind, Replies: replies, Calls: []Call{{Kind: ck.kind, Cmd: ck.cmd, Addr: addr}}, MaxWritesPerCall: 8})
		}
	}
	// a device that answers every request - far more than eight of them - with a well-formed frame that is
	// never the awaited one: responses for another register, asynchronous frames, error flags for another register
	persistent := [][]byte{simGet(addr+1, 0, []byte{0x2A, 0x00}), simGet(0xEDBC, 0, []byte{0x2A, 0x00}), simFrame(0xA, []byte{byte(addr), byte(addr >> 8), 0, 1}),
		simGet(addr+1, 1, nil), simFrame(5, []byte{0x16, 0x41}), simFrame(1, []byte{0x53, 0xA0}), simFrame(3, nil), simFrame(4, []byte{0, 0})}
	for _, s := range persistent {
		for _, ck := range callKinds[:7] {
			for _, per := range []int{1, 3} {
				var replies [][][]byte
				for i := 0; i < 24; i++ {
					var cs [][]byte
					for k := 0; k < per; k++ {
						cs = append(cs, s)
					}
					replies = append(replies, cs)
				}
				emit(&Scenario{Tag: "persistent-" + ck.kind, Replies: replies, Calls: []Call{{Kind: ck.kind, Cmd: ck.cmd, Addr: addr}, {Kind: ck.kind, Cmd: ck.cmd, Addr: addr}}, MaxWritesPerCall: 8})
			}
		}
	}
	// an unplugged adapter: from some operation on, every Read and Flush (and possibly Write) fails with an error that is not end-of-data
	for _, ck := range callKinds[:7] {
		g := simGet(addr, 0, []byte{0x2A, 0x00})
		for from := 0; from < 4; from++ {
			for variant := 0; variant < 4; variant++ {
				sc := &Scenario{Tag: "unplugged-" + ck.kind, MaxWritesPerCall: 8,
					Calls: []Call{{Kind: ck.kind, Cmd: ck.cmd, Addr: addr}, {Kind: ck.kind, Cmd: ck.cmd, Addr: addr}}}
				for i := 0; i < 16; i++ {
					sc.Replies = append(sc.Replies, one(g))
				}
				for i := from; i < from+64; i++ {
					if variant != 1 {
						sc.RF = append(sc.RF, i)
					}
					if variant != 2 {
						sc.FF = append(sc.FF, i)
					}
					if variant == 3 {
						sc.WF = append(sc.WF, i)
					}
				}
				emit(sc)
			}
		}
	}
	// a fault at every I/O operation index of every call kind
	good := map[string][]byte{"ping": simFrame(5, []byte{0x16, 0x41}), "devid": simFrame(1, []byte{0x53, 0xA0})}
	for _, ck := range callKinds[:7] {
		g := good[ck.kind]
		if g == nil {
			g = simGet(addr, 0, []byte{0x2A, 0x00})
		}
		for idx := 0; idx < 10; idx++ {
			for _, op := range []string{"w", "r", "f"} {
				for variant := 0; variant < 3; variant++ {
					sc := &Scenario{Tag: "fault-" + op + "-" + ck.kind, MaxWritesPerCall: 8,
						Calls: []Call{{Kind: ck.kind, Cmd: ck.cmd, Addr: addr}, {Kind: ck.kind, Cmd: ck.cmd, Addr: addr}}}
					switch variant {
					case 0: // device answers every attempt
						for i := 0; i < 16; i++ {
							sc.Replies = append(sc.Replies, one(g))
						}
					case 1: // answers in two chunks
						for i := 0; i < 16; i++ {
							sc.Replies = append(sc.Replies, [][]byte{g[:len(g)/2], g[len(g)/2:]})
						}
					case 2: // stale bytes, then silence, then answer
						sc.Init = one(g)
						sc.Replies = [][][]byte{nil, nil, one(g)}
					}
					switch op {
					case "w":
						sc.WF = []int{idx}
					case "r":
						sc.RF = []int{idx}
					case "f":
						sc.FF = []int{idx}
					}
					if rng.Intn(4) == 0 {
						sc.RF = append(sc.RF, idx+1+rng.Intn(3))
					}
					emit(sc)
				}
			}
		}
	}
	// an access after an idle pause (more than 100 ms since the last command) on a device that has fallen silent
	for _, ck := range callKinds[:7] {
		emit(&Scenario{Tag: "pause-then-silent-" + ck.kind + "-sleep", MaxWritesPerCall: 8, Replies: [][][]byte{one(simFrame(5, []byte{0x16, 0x41}))},
			Calls: []Call{{Kind: "ping"}, {Kind: ck.kind, Cmd: ck.cmd, Addr: addr, Sleep: true}, {Kind: ck.kind, Cmd: ck.cmd, Addr: addr, Sleep: true}}})
	}
	// unstructured: random byte streams biased towards frame characters
	n := 1500
	if thorough {
		n = 60000
	}
	alphabet := []byte(":::\n\n\nA0123456789ABCDEFabcdef75 \r\t\x00\xff")
	for i := 0; i < n; i++ {
		nr := 1 + rng.Intn(9)
		sc := &Scenario{Tag: "fuzz", MaxWritesPerCall: 8}
		for k := 0; k < nr; k++ {
			var cs [][]byte
			for c := 0; c < rng.Intn(3); c++ {
				l := 1 + rng.Intn(40)
				b := make([]byte, l)
				for j := range b {
					if rng.Intn(10) == 0 {
						b[j] = rng.Byte()
					} else {
						b[j] = alphabet[rng.Intn(len(alphabet))]
					}
				}
				if rng.Intn(3) == 0 { // embed a real frame somewhere
					f := simGet(addr, byte(rng.Intn(3)), rng.Bytes(rng.Intn(5)))
					p := rng.Intn(len(b) + 1)
					b = append(append(append([]byte(nil), b[:p]...), f...), b[p:]...)
				}
				cs = append(cs, b)
			}
			sc.Replies = append(sc.Replies, cs)
		}
		nc := 1 + rng.Intn(3)
		for k := 0; k < nc; k++ {
			ck := callKinds[rng.Intn(len(callKinds))]
			sc.Calls = append(sc.Calls, Call{Kind: ck.kind, Cmd: ck.cmd, Addr: addr})
		}
		if rng.Intn(3) == 0 {
			sc.RF = []int{rng.Intn(6)}
		}
		if rng.Intn(5) == 0 {
			sc.WF = []int{rng.Intn(6)}
		}
		if rng.Intn(5) == 0 {
			sc.FF = []int{rng.Intn(2)}
		}
		emit(sc)
	}
	genRepetition(rng, emit)
}
