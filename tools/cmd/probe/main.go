package main

import (
	"fmt"
	"github.com/koestler/go-victron/bleparser"
	"github.com/koestler/go-victron/veconst"
)

func main() {
	_, err := bleparser.DecodeSolarChargeRecord(make([]byte, 3))
	fmt.Println(err)
	e, err := veconst.InverterStateFactory.NewEnum(257)
	fmt.Println(e, err)
}
