package main

import (
	"fmt"
	"github.com/koestler/go-victron/ble"
)

func main() {
	raw := []byte{0x10, 0x02, 0x53, 0xA0, 0x01, 0x34, 0x12, 0xAB, 1, 2, 3, 4, 5, 6, 7, 8, 9, 10, 11, 12}
	l, p := ble.VerifHandle(make([]byte, 16), raw, false)
	fmt.Println(p)
	fmt.Print(l)
	fmt.Println(ble.VerifMatch([][]byte{{0xd4, 0x9d}}, "D4:9D:ZZ"))
	fmt.Println(ble.VerifMatch([][]byte{{0xd4, 0x9d}}, "d4:9D"))
}
