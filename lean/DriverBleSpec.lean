import Victron.Basic.Wire
import Victron.Model.Ble
import Victron.Spec.BleLayouts
/- Line-protocol driver: the BLE layout specification only (`BS`) — independent of the translated Go code, so it
   still answers when the translation or a proof is broken: it is the oracle that finds the failing input. -/
open Victron Victron.Ble

def renderFV : FV → String
  | .num raw mul div off => s!"F({raw}*{mul}/{div}+{off})"
  | .nan => "NaN"

def renderFVal : FVal → String
  | .f v => renderFV v
  | .i v => toString v

def renderRec : R Rec → String
  | .ok r => "ok:" ++ String.intercalate ";" (r.map (fun p => p.1 ++ "=" ++ renderFVal p.2))
  | .err e => "err:" ++ e.toString
  | .panic => "PANIC"

def hexOrEmpty (s : String) : Option Bytes := if s = "-" then some [] else parseHex s

def step (line : String) : String :=
  match (line.splitOn " ").filter (fun t => !t.startsWith "mut:") with
  | ["BS", name, inp] =>
    match BleSpec.layouts.find? (·.1 == name), hexOrEmpty inp with
    | some (_, L), some i => renderRec (BleSpec.decode L i)
    | _, _ => "bad-op"
  | ["BU", name, field] => (BleSpec.unitOf name field).getD "none"
  | _ => "bad-op"

partial def loop (h : IO.FS.Stream) (out : IO.FS.Stream) : IO Unit := do
  let line ← h.getLine
  if line.isEmpty then return ()
  out.putStrLn (step (line.trimAscii.toString))
  loop h out

def main : IO Unit := do
  let out ← IO.getStdout
  loop (← IO.getStdin) out
