import Victron.Basic.Bytes
import Victron.Basic.Wire
import Victron.Model.Frame
import Victron.Model.Proto
import Victron.Spec.FrameLang
import Victron.Proofs.Hex
import Victron.Proofs.Proto
import Victron.Props.C03
