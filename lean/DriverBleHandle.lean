import Victron.Basic.Wire
import Victron.Model.Aes
import Victron.Model.BleHandle
import Victron.Gen.Ble
/- Line-protocol driver for C19: the BLE advertisement handler model with the executable AES. -/
open Victron Victron.Ble Victron.BleHandle

def renderFV : FV → String
  | .num raw mul div off => s!"F({raw}*{mul}/{div}+{off})"
  | .nan => "NaN"
def renderFVal : FVal → String
  | .f v => renderFV v
  | .i v => toString v
def renderRec : R Rec → String
  | .ok r => "rec:" ++ String.intercalate "," (r.map (fun p => p.1 ++ "=" ++ renderFVal p.2))
  | .err e => "err:" ++ e.toString
  | .panic => "PANIC"

def hexOrEmpty (s : String) : Option Bytes := if s = "-" then some [] else parseHex s

def step (line : String) : String :=
  match line.splitOn " " with
  | ["BH", key, raw] =>
    match hexOrEmpty key, hexOrEmpty raw with
    | some k, some r =>
      match handle Aes.encryptBlock Gen.Ble.decodeSolarChargeRecord k r with
      | .ignored => "ignored"
      | .cipherError => "cipher-error"
      | .plain p none => s!"plain:{hexStr p};none"
      | .plain p (some rc) => s!"plain:{hexStr p};{renderRec rc}"
    | _, _ => "bad-op"
  | ["BM", addr, macs] =>
    match hexOrEmpty addr, (splitList macs ",").mapM (fun m => if m = "e" then some [] else parseHex m) with
    | some a, some ms => match matchDevice ms a with
      | some i => toString i
      | none => "-1"
    | _, _ => "bad-op"
  | ["PK", data, bs] =>
    match hexOrEmpty data, bs.toNat? with
    | some d, some b => if b = 0 then "PANIC" else hexStr (pkcs7 d b)
    | _, _ => "bad-op"
  | _ => "bad-op"

partial def loop (h : IO.FS.Stream) (out : IO.FS.Stream) : IO Unit := do
  let line ← h.getLine
  if line.isEmpty then return ()
  out.putStrLn (step (line.trimAscii.toString))
  loop h out

def main : IO Unit := do
  let out ← IO.getStdout
  loop (← IO.getStdin) out
