import Victron.Basic.Wire
import Victron.Model.Tables
import Victron.Model.Select
import Victron.Model.Frame
import Victron.Gen.Tables
import Victron.Model.Api
import Victron.Model.Cli
/- Line-protocol driver for the Tables cone (C12–C17): lookups over the regenerated tables and the list algebra. -/
open Victron

def hexS (s : String) : String := hexStr (s.toUTF8.toList.map UInt8.toNat)
def b01 (b : Bool) : String := if b then "1" else "0"

def renderReg (r : Reg) : String :=
  String.intercalate ";" [toString r.kind, hexS r.category, hexS r.name, hexS r.description, toString r.sort, toString r.address,
    b01 r.static, b01 r.writable, b01 r.signed, toString r.factor, r.offset, hexS r.unit, r.factory]

def renderList (rl : RegList) : String :=
  String.intercalate "|" ([rl.n, rl.t, rl.e, rl.f].map (fun l => String.intercalate "," (l.map renderReg)))

def fam : Families := ⟨Gen.bmvAll, Gen.solarProduct, Gen.solarGeneric, Gen.solarSettings, Gen.solarChargerData, Gen.solarPanelData,
  Gen.solarLoadData, Gen.inverterAll⟩

def sel (id : Nat) : RegList × Option Err := selectList Gen.products Gen.types fam id

def findEnum (name : String) : Option EnumTable :=
  (Gen.enums ++ Gen.fieldLists).find? (·.name == name)

def renderEnumR : R (Int × String) → String
  | .ok (i, n) => s!"ok:{i}:{hexS n}"
  | .err e => "err:" ++ e.toString
  | .panic => "PANIC"

/-- pool of real registers for the list algebra (C16): all family registers by kind -/
def pool : List Reg := Gen.bmvAll.all ++ Gen.solarAll.all ++ Gen.inverterAll.all

def short (r : Reg) : String := s!"{r.kind}:{r.name}@{r.address}#{r.sort}"

def renderShort (rl : RegList) : String :=
  String.intercalate "|" ([rl.n, rl.t, rl.e, rl.f].map (fun l => String.intercalate "," (l.map short)))

def pred (p : String) : Option (Reg → Bool) :=
  match p.splitOn ":" with
  | ["kind", k] => k.toNat?.map (fun k r => r.kind == k)
  | ["sortpar", k] => k.toNat?.map (fun k r => r.sort.emod 2 == (k : Int))
  | ["addrlt", a] => a.toNat?.map (fun a r => r.address < a)
  | ["static"] => some (fun r => r.static)
  | ["writable"] => some (fun r => r.writable)
  | ["none"] => some (fun _ => false)
  | ["all"] => some (fun _ => true)
  | _ => none

/-- a filter whose predicate has memory: every element is shown to it exactly once — numbers, then texts, enums,
    field lists, each in order — and the answer given then decides -/
def filterWithState {σ} (rl : RegList) (init : σ) (step : σ → Reg → σ × Bool) : RegList :=
  let go := fun (st : σ) (l : List Reg) =>
    l.foldl (fun (acc : σ × List Reg) r => let (st', keep) := step acc.1 r; (st', if keep then acc.2 ++ [r] else acc.2)) (st, [])
  let (s1, n) := go init rl.n
  let (s2, t) := go s1 rl.t
  let (s3, e) := go s2 rl.e
  let (_, f) := go s3 rl.f
  ⟨n, t, e, f⟩

def statefulFilter (rl : RegList) (p : String) : Option RegList :=
  match p.splitOn ":" with
  | ["first", k] => k.toNat?.map (fun k => filterWithState rl 0 (fun seen _ => (seen + 1, decide (seen + 1 ≤ k))))
  | ["dedup"] => some (filterWithState rl ([] : List String) (fun seen r => if seen.contains r.name then (seen, false) else (r.name :: seen, true)))
  | ["alt"] => some (filterWithState rl false (fun keep _ => (!keep, !keep)))
  | _ => none

def regOp (rl : RegList) (op : String) : Option RegList :=
  match op.splitOn "=" with
  | ["a", idxs] => do
    let is ← (idxs.splitOn ",").mapM String.toNat?
    let rs ← is.mapM (fun i => pool[i]?)
    -- one Append call per register, to the sequence of its kind
    pure (rs.foldl (fun (acc : RegList) r =>
      if r.kind == 1 then acc.appendN [r] else if r.kind == 2 then acc.appendT [r] else if r.kind == 3 then acc.appendE [r] else acc.appendF [r]) rl)
  | ["f", p] => match statefulFilter rl p with
    | some r => some r
    | none => (pred p).map rl.filter
  | ["n", names] => some (rl.filterByName (if names = "" then [] else names.splitOn ","))
  | ["s", spec] =>
    -- a register with an arbitrary name and sort key: "<kind>.<sort>.<name>"
    match spec.splitOn "." with
    | [k, srt, name] => do
      let k ← k.toNat?
      let srt ← srt.toInt?
      let r : Reg := { kind := k, category := "Verif", name := name, description := name, sort := srt, address := 7, static := false,
                       writable := false, signed := false, factor := 1, offset := "0", unit := "", factory := "" }
      pure (if k == 1 then rl.appendN [r] else if k == 2 then rl.appendT [r] else if k == 3 then rl.appendE [r] else rl.appendF [r])
    | _ => none
  | _ => none

/-! ### API layer (C09–C11) -/

def parseErr (s : String) : Err :=
  match s with
  | "unknown-id" => .unknownId | "not-supported" => .notSupported | "parameter-error" => .parameterError
  | "invalid-enum" => .invalidEnum | "ctx-done" => .ctxDone | "too-short" => .tooShort
  | "unsupported-type" => .unsupportedType | _ => .other

/-- transport outcome token: "ok:<hex>" | "err:<kind>" -/
def parseOutcome (s : String) : Option (R Bytes) :=
  match s.splitOn ":" with
  | ["ok", h] => (if h = "" then some [] else parseHex h).map R.ok
  | ["err", k] => some (.err (parseErr k))
  | _ => none

def renderVal : Val → String
  | .num raw factor offset => s!"F({raw}*1/{factor}+{offset})"
  | .text bs => hexStr bs
  | .enum i n => s!"{i}:{hexS n}"
  | .fields fs comma => String.intercalate "," (fs.map (fun f => s!"{f.1}:{b01 f.2}")) ++ "|" ++ hexS comma

def renderApiR : ApiR → String
  | .ok v => "ok:" ++ renderVal v
  | .err e name => s!"err:{e.toString}@{name}"
  | .panic => "PANIC"

def getOf (m : List (Nat × R Bytes)) (addr : Nat) : R Bytes :=
  match m.find? (·.1 == addr) with
  | some (_, r) => r
  | none => .err .other      -- the device is silent for this register

def parseMap (s : String) : Option (List (Nat × R Bytes)) :=
  (splitList s ",").mapM (fun kv => match kv.splitOn "=" with
    | [a, o] => do let a ← a.toNat?; let o ← parseOutcome o; pure (a, o)
    | _ => none)

def parseListSpec (s : String) : Option RegList :=
  if s.startsWith "P" then (s.drop 1).toNat?.map (fun id => (sel id).1)
  else match s.splitOn ";" with
    | [n, t, e, f] => do
      let g := fun (x : String) => (splitList x ",").mapM (fun i => i.toNat?.bind (fun i => pool[i]?))
      pure ⟨← g n, ← g t, ← g e, ← g f⟩
    | _ => none

def renderEv : Ev → String
  | .read a => s!"R{a}"
  | .cb n v => s!"C{n}={renderVal v}"

def fnv64 (bs : List Nat) : Nat :=
  bs.foldl (fun h b => ((h ^^^ b) * 1099511628211) % 18446744073709551616) 14695981039346656037

/-- digest of `GetStringMap()`: number of entries and FNV-1a-64 of the sorted "id=hex(name);" entries -/
def stringMapDigest : String :=
  let rows := Gen.products.filter (·.inMap)
  let txt := String.join (rows.map (fun r => s!"{r.id}={hexS r.mapVal};"))
  s!"{rows.length}:{fnv64 (txt.toUTF8.toList.map UInt8.toNat)}"

def step (line : String) : String :=
  -- a trailing "mut:…" token documents what the harness did to an earlier result (C17); the model's answer
  -- does not depend on it — that independence is the property
  match (line.splitOn " ").filter (fun t => !t.startsWith "mut:") with
  | ["SM"] => stringMapDigest
  | ["PR", id] => match id.toNat? with
    | some id => let r := productRow Gen.products id
      s!"{b01 r.exists_}|{hexS r.model}|{r.type}|{hexS r.str}|{r.mpv}|{r.mpc}|{b01 r.inMap}|{hexS r.mapVal}"
    | none => "bad-op"
  | ["TY", t] => match t.toNat? with
    | some t => let r := typeRow Gen.types t; s!"{hexS r.name}|{b01 r.bmv}|{b01 r.solar}|{b01 r.inverter}"
    | none => "bad-op"
  | ["RS", c] => match c.toNat? with
    | some c => toString (responseFor c)
    | none => "bad-op"
  | ["EN", name, v] => match findEnum name, v.toInt? with
    | some T, some v => renderEnumR (T.newEnum v)
    | _, _ => "bad-op"
  | ["ENR", name, lo, hi] => match findEnum name, lo.toInt?, hi.toInt? with
    | some T, some lo, some hi =>
      let n := (hi - lo).toNat + 1
      String.intercalate "," ((List.range n).filterMap (fun (k : Nat) =>
        match T.newEnum (lo + (k : Int)) with
        | .ok (i, nm) => some s!"{lo + (k : Int)}:{i}:{hexS nm}"
        | _ => none))
    | _, _, _ => "bad-op"
  | ["ET", name] => match findEnum name with
    | some T => String.intercalate "," ((List.range 256).filterMap (fun b =>
        match T.new b with
        | .ok (i, nm) => some s!"{b}:{i}:{hexS nm}"
        | _ => none))
    | none => "bad-op"
  | ["EM", name] => match findEnum name with
    | some T => String.intercalate "," (T.entries.map (fun e => s!"{e.1}={hexS e.2}"))
    | none => "bad-op"
  | ["FF", name, raw] => match findEnum name, raw.toNat? with
    | some T, some raw => String.intercalate "," ((T.fields raw).map (fun f => s!"{f.1}:{b01 f.2}"))
    | _, _ => "bad-op"
  | ["FC", name, raw] => match findEnum name, raw.toNat? with
    | some T, some raw => hexS (T.commaString raw)
    | _, _ => "bad-op"
  | ["SL", id] => match id.toNat? with
    | some id => let (rl, e) := sel id
      (match e with | none => "ok" | some e => "err:" ++ e.toString) ++ " " ++ renderList rl
    | none => "bad-op"
  | ["SG", ids] => match (ids.splitOn ",").mapM String.toNat? with
    | some (i0 :: rest) =>
      let r0 := sel i0
      match rest.find? (fun i => sel i != r0) with
      | none => "same"
      | some i => s!"differs:{i}"
    | _ => "bad-op"
  | "RL" :: ops =>
    -- "k" keeps the list value of that moment (values are immutable: later operations cannot reach it)
    -- "g" observes the combined view (no effect on a value); "p=<idxs>@<c>" appends the first c of the caller's number
    -- registers and keeps the others for "q", which appends them
    match ops.foldl (fun (acc : Option (RegList × List RegList × List Reg)) o => acc.bind (fun (rl, kept, rest) =>
        if o = "k" then some (rl, kept ++ [rl], rest)
        else if o = "g" then some (rl, kept, rest)
        else if o = "q" then some (rl.appendN rest, kept, [])
        else match o.splitOn "=" with
          | ["p", spec] =>
            match spec.splitOn "@" with
            | [idxs, c] => do
              let is ← (idxs.splitOn ",").mapM String.toNat?
              let rs ← is.mapM (fun i => pool[i]?)
              let c ← c.toNat?
              pure (rl.appendN (rs.take c), kept, rs.drop c)
            | _ => none
          | _ => (regOp rl o).map (fun rl' => (rl', kept, rest)))) (some ({}, [], [])) with
    | some (rl, kept, _) => s!"{rl.len} {renderShort rl} {String.intercalate "," (rl.getRegisters.map short)}" ++
        String.join (kept.map (fun k => s!" K{k.len} {renderShort k}"))
    | none => "bad-op"
  | [k, idx, outcome] =>
    if k = "RN" ∨ k = "RT" ∨ k = "RE" ∨ k = "RF" then
      match idx.toNat?.bind (fun i => pool[i]?), parseOutcome outcome with
      | some r, some o =>
        let tr : Transport := ⟨.ok (), .ok 0, fun a => if a = r.address then o else .err .other⟩
        renderApiR (readReg tr Gen.enums Gen.fieldLists r)
      | _, _ => "bad-op"
    else if k = "CN" then
      let toR := fun (s : String) => match s.splitOn ":" with
        | ["ok", v] => some (v.toNat?.getD 0)
        | _ => none
      let tr : Transport := ⟨(if idx = "ok" then .ok () else .err .other),
        (match toR outcome with | some v => .ok v | none => .err .other), fun _ => .err .other⟩
      match connect tr Gen.products Gen.types fam with
      | .ok (id, rl) => s!"ok:{id}:{fnv64 ((renderList rl).toUTF8.toList.map UInt8.toNat)}"
      | .err e => "err:" ++ e.toString
      | .panic => "PANIC"
    else "bad-op"
  | ["CL", id, ping, silent, mp] =>
    match id.toNat?, parseMap mp with
    | some id, some m =>
      let rl := (sel id).1
      let order := (planned rl {}).map (·.address)
      let answered : List Nat := match silent.toNat? with
        | some k => order.take k
        | none => order
      let tr : Transport := ⟨(if ping = "ok" then .ok () else .err .other), .ok id,
        fun a => if answered.contains a then getOf m a else .err .other⟩
      let o := Cli.run tr Gen.products Gen.types fam Gen.enums Gen.fieldLists
      let st := match o.status with | .ok => "ok" | .connectError => "connect-error" | .fetchError => "fetch-error"
      let cnt := match o.count with | some n => toString n | none => "-1"
      let txt := fun (l : Cli.Line) => match l.val with
        | .num raw factor offset => s!"{l.name}=P({raw}*1/{factor}+{offset}){l.unit}"
        | .text bs => s!"{l.name}={String.fromUTF8! (ByteArray.mk (bs.map (fun (b : Nat) => b.toUInt8)).toArray)}"
        | .enum i n => s!"{l.name}={i}:{n}"
        | .fields _ comma => s!"{l.name}={comma}"
      -- presentation only: lines with equal sort key are put in name order (Go's order among them is random)
      let canonLines := o.lines.mergeSort (fun a b => decide (a.sort < b.sort) || (decide (a.sort = b.sort) && decide (a.name ≤ b.name)))
      s!"{st} n={cnt} " ++ String.intercalate ";;" (canonLines.map (fun l => s!"{l.sort}|{txt l}"))
    | _, _ => "bad-op"
  | ["ST", hs, cancel, spec, mp] =>
    match parseListSpec spec, parseMap mp with
    | some rl, some m =>
      let bits := parseBits hs
      let h : Handlers := ⟨bits.getD 0 true, bits.getD 1 true, bits.getD 2 true, bits.getD 3 true⟩
      let tr : Transport := ⟨.ok (), .ok 0, getOf m⟩
      let (evs, res) := stream tr Gen.enums Gen.fieldLists cancel.toNat? rl h
      let r := match res with | none => "ok" | some (e, n) => s!"err:{e.toString}@{n}"
      let mp := (collect evs).mergeSort (fun a b => decide (a.1 ≤ b.1))
      String.intercalate ";" (evs.map renderEv) ++ " -> " ++ r ++ " M=" ++
        String.intercalate ";" (mp.map (fun p => s!"{p.1}={renderVal p.2}"))
    | _, _ => "bad-op"
  | _ => "bad-op"

partial def loop (h : IO.FS.Stream) (out : IO.FS.Stream) : IO Unit := do
  let line ← h.getLine
  if line.isEmpty then return ()
  out.putStrLn (step (line.trimAscii.toString))
  loop h out

def main : IO Unit := do
  let out ← IO.getStdout
  loop (← IO.getStdin) out
