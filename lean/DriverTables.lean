import Victron.Basic.Wire
import Victron.Model.Tables
import Victron.Model.Select
import Victron.Model.Frame
import Victron.Gen.Tables
/- Line-protocol driver for the Tables cone (C12–C17): lookups over the regenerated tables and the list algebra. -/
open Victron

def hexS (s : String) : String := hexStr (s.toUTF8.toList.map UInt8.toNat)
def b01 (b : Bool) : String := if b then "1" else "0"

def renderReg (r : Reg) : String :=
  String.intercalate ";" [toString r.kind, hexS r.category, hexS r.name, hexS r.description, toString r.sort, toString r.address,
    b01 r.static, b01 r.writable, b01 r.signed, toString r.factor, r.offset, hexS r.unit, r.factory]

def renderList (rl : RegList) : String :=
  String.intercalate "|" ([rl.n, rl.t, rl.e, rl.f].map (fun l => String.intercalate "," (l.map renderReg)))

def fam : Families := ⟨Gen.bmvAll, Gen.solarProduct, Gen.solarGeneric, Gen.solarSettings, Gen.solarChargerData, Gen.solarPanelData,
  Gen.solarLoadData, Gen.inverterAll⟩

def sel (id : Nat) : RegList × Option Err := selectList Gen.products Gen.types fam id

def findEnum (name : String) : Option EnumTable :=
  (Gen.enums ++ Gen.fieldLists).find? (·.name == name)

def renderEnumR : R (Int × String) → String
  | .ok (i, n) => s!"ok:{i}:{hexS n}"
  | .err e => "err:" ++ e.toString
  | .panic => "PANIC"

/-- pool of real registers for the list algebra (C16): all family registers by kind -/
def pool : List Reg := Gen.bmvAll.all ++ Gen.solarAll.all ++ Gen.inverterAll.all

def short (r : Reg) : String := s!"{r.kind}:{r.name}@{r.address}#{r.sort}"

def renderShort (rl : RegList) : String :=
  String.intercalate "|" ([rl.n, rl.t, rl.e, rl.f].map (fun l => String.intercalate "," (l.map short)))

def pred (p : String) : Option (Reg → Bool) :=
  match p.splitOn ":" with
  | ["kind", k] => k.toNat?.map (fun k r => r.kind == k)
  | ["sortpar", k] => k.toNat?.map (fun k r => r.sort.toNat % 2 == k)
  | ["addrlt", a] => a.toNat?.map (fun a r => r.address < a)
  | ["static"] => some (fun r => r.static)
  | ["writable"] => some (fun r => r.writable)
  | ["none"] => some (fun _ => false)
  | ["all"] => some (fun _ => true)
  | _ => none

def regOp (rl : RegList) (op : String) : Option RegList :=
  match op.splitOn "=" with
  | ["a", idxs] => do
    let is ← (idxs.splitOn ",").mapM String.toNat?
    let rs ← is.mapM (fun i => pool[i]?)
    -- one Append call per register, to the sequence of its kind
    pure (rs.foldl (fun (acc : RegList) r =>
      if r.kind == 1 then acc.appendN [r] else if r.kind == 2 then acc.appendT [r] else if r.kind == 3 then acc.appendE [r] else acc.appendF [r]) rl)
  | ["f", p] => (pred p).map rl.filter
  | ["n", names] => some (rl.filterByName (if names = "" then [] else names.splitOn ","))
  | _ => none

def fnv64 (bs : List Nat) : Nat :=
  bs.foldl (fun h b => ((h ^^^ b) * 1099511628211) % 18446744073709551616) 14695981039346656037

/-- digest of `GetStringMap()`: number of entries and FNV-1a-64 of the sorted "id=hex(name);" entries -/
def stringMapDigest : String :=
  let rows := Gen.products.filter (·.inMap)
  let txt := String.join (rows.map (fun r => s!"{r.id}={hexS r.mapVal};"))
  s!"{rows.length}:{fnv64 (txt.toUTF8.toList.map UInt8.toNat)}"

def step (line : String) : String :=
  -- a trailing "mut:…" token documents what the harness did to an earlier result (C17); the model's answer
  -- does not depend on it — that independence is the property
  match (line.splitOn " ").filter (fun t => !t.startsWith "mut:") with
  | ["SM"] => stringMapDigest
  | ["PR", id] => match id.toNat? with
    | some id => let r := productRow Gen.products id
      s!"{b01 r.exists_}|{hexS r.model}|{r.type}|{hexS r.str}|{r.mpv}|{r.mpc}|{b01 r.inMap}|{hexS r.mapVal}"
    | none => "bad-op"
  | ["TY", t] => match t.toNat? with
    | some t => let r := typeRow Gen.types t; s!"{hexS r.name}|{b01 r.bmv}|{b01 r.solar}|{b01 r.inverter}"
    | none => "bad-op"
  | ["RS", c] => match c.toNat? with
    | some c => toString (responseFor c)
    | none => "bad-op"
  | ["EN", name, v] => match findEnum name, v.toInt? with
    | some T, some v => renderEnumR (T.newEnum v)
    | _, _ => "bad-op"
  | ["ENR", name, lo, hi] => match findEnum name, lo.toInt?, hi.toInt? with
    | some T, some lo, some hi =>
      let n := (hi - lo).toNat + 1
      String.intercalate "," ((List.range n).filterMap (fun (k : Nat) =>
        match T.newEnum (lo + (k : Int)) with
        | .ok (i, nm) => some s!"{lo + (k : Int)}:{i}:{hexS nm}"
        | _ => none))
    | _, _, _ => "bad-op"
  | ["ET", name] => match findEnum name with
    | some T => String.intercalate "," ((List.range 256).filterMap (fun b =>
        match T.new b with
        | .ok (i, nm) => some s!"{b}:{i}:{hexS nm}"
        | _ => none))
    | none => "bad-op"
  | ["EM", name] => match findEnum name with
    | some T => String.intercalate "," (T.entries.map (fun e => s!"{e.1}={hexS e.2}"))
    | none => "bad-op"
  | ["FF", name, raw] => match findEnum name, raw.toNat? with
    | some T, some raw => String.intercalate "," ((T.fields raw).map (fun f => s!"{f.1}:{b01 f.2}"))
    | _, _ => "bad-op"
  | ["FC", name, raw] => match findEnum name, raw.toNat? with
    | some T, some raw => hexS (T.commaString raw)
    | _, _ => "bad-op"
  | ["SL", id] => match id.toNat? with
    | some id => let (rl, e) := sel id
      (match e with | none => "ok" | some e => "err:" ++ e.toString) ++ " " ++ renderList rl
    | none => "bad-op"
  | ["SG", ids] => match (ids.splitOn ",").mapM String.toNat? with
    | some (i0 :: rest) =>
      let r0 := sel i0
      match rest.find? (fun i => sel i != r0) with
      | none => "same"
      | some i => s!"differs:{i}"
    | _ => "bad-op"
  | "RL" :: ops =>
    match ops.foldl (fun (acc : Option RegList) o => acc.bind (fun rl => regOp rl o)) (some {}) with
    | some rl => s!"{rl.len} {renderShort rl} {String.intercalate "," (rl.getRegisters.map short)}"
    | none => "bad-op"
  | _ => "bad-op"

partial def loop (h : IO.FS.Stream) (out : IO.FS.Stream) : IO Unit := do
  let line ← h.getLine
  if line.isEmpty then return ()
  out.putStrLn (step (line.trimAscii.toString))
  loop h out

def main : IO Unit := do
  let out ← IO.getStdout
  loop (← IO.getStdin) out
