import Victron.Model.TableTypes
/-
  Lookups over the regenerated tables, and hand-written models of the small amount of logic around them:
  veproduct (product.go, type.go), veconst (NewEnum / New / Fields), veregister (registerList.go, filter.go,
  registerFactory.go). Everything is parametric in the tables; Props instantiate them with Victron.Gen.
-/
namespace Victron

def defaultProduct (id : Nat) : ProductRow := ⟨id, false, "", 0, "", -1, -1, false, ""⟩

def productRow (tbl : List ProductRow) (id : Nat) : ProductRow :=
  (tbl.find? (·.id == id)).getD (defaultProduct id)

def defaultType (t : Nat) : TypeRow := ⟨t, "", false, false, false⟩

def typeRow (tbl : List TypeRow) (t : Nat) : TypeRow :=
  (tbl.find? (·.t == t)).getD (defaultType t)

/-! ### enumerations -/

def EnumTable.lookup (T : EnumTable) (v : Int) : Option String :=
  (T.entries.find? (·.1 == v)).map (·.2)

/-- `NewEnum(v int)`: range check, then the typed constructor on the byte -/
def EnumTable.newEnum (T : EnumTable) (v : Int) : R (Int × String) :=
  if v < 0 ∨ v > 255 then .err .invalidEnum else
  match T.typed.find? (·.1 == v.toNat) with
  | some (_, idx, name) => .ok (idx, name)
  | none => .err .invalidEnum

/-- typed constructor `New(b uint8)` -/
def EnumTable.new (T : EnumTable) (b : Nat) : R (Int × String) :=
  match T.typed.find? (·.1 == b) with
  | some (_, idx, name) => .ok (idx, name)
  | none => .err .invalidEnum

/-! ### field lists -/

/-- `Fields()` of `NewFieldList(raw)`: the documented indices, each marked with bit i of raw -/
def EnumTable.fields (T : EnumTable) (raw : Nat) : List (Int × Bool) :=
  T.entries.map (fun e => (e.1, raw.testBit e.1.toNat))

/-- `CommaString()`: names of the set fields in ascending index order joined by ", " -/
def EnumTable.commaString (T : EnumTable) (raw : Nat) : String :=
  String.intercalate ", " ((T.entries.filter (fun e => raw.testBit e.1.toNat)).map (·.2))

/-! ### register lists -/

def RegList.len (rl : RegList) : Nat := rl.n.length + rl.t.length + rl.e.length + rl.f.length

def RegList.appendN (rl : RegList) (rs : List Reg) : RegList := { rl with n := rl.n ++ rs }
def RegList.appendT (rl : RegList) (rs : List Reg) : RegList := { rl with t := rl.t ++ rs }
def RegList.appendE (rl : RegList) (rs : List Reg) : RegList := { rl with e := rl.e ++ rs }
def RegList.appendF (rl : RegList) (rs : List Reg) : RegList := { rl with f := rl.f ++ rs }

/-- an `Append…` family function: appends its four sequences -/
def RegList.appendAll (rl : RegList) (x : RegList) : RegList :=
  ⟨rl.n ++ x.n, rl.t ++ x.t, rl.e ++ x.e, rl.f ++ x.f⟩

def RegList.filter (rl : RegList) (p : Reg → Bool) : RegList :=
  ⟨rl.n.filter p, rl.t.filter p, rl.e.filter p, rl.f.filter p⟩

def RegList.filterByName (rl : RegList) (exclude : List String) : RegList :=
  rl.filter (fun r => !exclude.contains r.name)

def RegList.all (rl : RegList) : List Reg := rl.n ++ rl.t ++ rl.e ++ rl.f

/-- `GetRegisters()`: `sort.SliceStable` by sort key of numbers ++ texts ++ enums ++ field lists -/
def RegList.getRegisters (rl : RegList) : List Reg :=
  rl.all.mergeSort (fun a b => decide (a.sort ≤ b.sort))

end Victron
