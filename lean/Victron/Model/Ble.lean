import Victron.Basic.Bytes
import Victron.Model.TableTypes
/-
  Support definitions for the BLE record decoders that tools/ble2lean regenerates from /repo/bleparser on
  every run (Victron/Gen/Ble.lean), and for the layout specification (Victron/Spec/BleLayouts.lean).
  Go semantics made explicit: element reads through a slice go to `inp ++ spare` (spare = the bytes between
  len and cap), every bounds check is an explicit `if … then .panic`, fixed-width arithmetic is explicit
  `wrapU w` / `wrapS w`, float conversions stay symbolic (`FV.num raw mul div off` = raw*mul/div+off).
-/
namespace Victron.Ble
open Victron

/-- element `k` of the backing array of `inp` (capacity = inp.length + spare.length) -/
def at' (inp spare : Bytes) (k : Nat) : Int := ((inp ++ spare).getD k 0 : Nat)

/-- reduce to an unsigned `w`-bit value (Go: conversion to / arithmetic in uintw) -/
def wrapU (w : Nat) (x : Int) : Int := x % (2 : Int) ^ w

/-- reduce to a signed `w`-bit value, two's complement (Go: conversion to / arithmetic in intw) -/
def wrapS (w : Nat) (x : Int) : Int := (x + (2 : Int) ^ (w - 1)) % (2 : Int) ^ w - (2 : Int) ^ (w - 1)

/-- a float64 result field: symbolic `raw * mul / div + off`, NaN -/
inductive FV where
  | num (raw : Int) (mul div : Nat) (off : String)
  | nan
  deriving DecidableEq, Repr

/-- a record field value: float or integer (integers, enum constants, flags) -/
inductive FVal where
  | f (v : FV)
  | i (v : Int)
  deriving DecidableEq, Repr

/-- a decoded record: the Go struct's fields in declaration order -/
abbrev Rec := List (String × FVal)

/-- `XFactory.New(v)` succeeds: for enumerations iff `v` is in the graph of the typed constructor;
    field-list factories never fail -/
def enumOk (enums : List EnumTable) (name : String) (v : Int) : Bool :=
  match enums.find? (·.name == name) with
  | some T => T.typed.any (fun e => (e.1 : Int) == v)
  | none => true

/-- the little-endian bit slice [s, s+w) of a byte string -/
def bits (inp : Bytes) (s w : Nat) : Nat := leNat inp / 2 ^ s % 2 ^ w

/-- two's complement reading of a `w`-bit raw value `v < 2^w`: `(v + 2^(w-1)) mod 2^w - 2^(w-1)`, i.e. `v` below
    2^(w-1) and `v - 2^w` from there on (`sx_eq_if` in Props/C07.lean); written without a case split so that
    `omega` can compare it with whatever the code computes -/
def sx (w : Nat) (v : Nat) : Int := ((v : Int) + (2 : Int) ^ (w - 1)) % (2 : Int) ^ w - (2 : Int) ^ (w - 1)

end Victron.Ble
