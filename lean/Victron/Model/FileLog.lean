import Victron.Basic.Bytes
/- vedirectapi/fileLogger.go: O_APPEND file + bufio.Writer; Println appends line + "\n"; Close flushes. -/
namespace Victron

/-- content of the file after `Close`, given its previous content and the lines logged in order -/
def FileLog.close (prev : Bytes) (lines : List Bytes) : Bytes :=
  prev ++ (lines.map (· ++ [10])).flatten

end Victron
