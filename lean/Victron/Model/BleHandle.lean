import Victron.Basic.Bytes
import Victron.Model.Ble
/-
  ble/ble.go: `handleNewManufacturerData` (AES-CTR decryption + dispatch), `PKCS7Padding`, `getDeviceConfig` /
  `bluezAddrBytes`. The block cipher is a parameter `E key block`; the record decoder a parameter `dec`.
-/
namespace Victron.BleHandle
open Victron Victron.Ble

/-- `PKCS7Padding(data, blocksize)` -/
def pkcs7 (data : Bytes) (bs : Nat) : Bytes :=
  let p := bs - data.length % bs
  data ++ List.replicate p (p % 256)

/-- big-endian increment of a counter block by `i` (cipher.NewCTR counts in the last bytes) -/
def incrBE (iv : Bytes) (i : Nat) : Bytes :=
  let n := iv.foldl (fun acc b => acc * 256 + b) 0 + i
  (List.range iv.length).map (fun k => n / 256 ^ (iv.length - 1 - k) % 256)

/-- the first `n` bytes of the key stream E(iv) ‖ E(iv+1) ‖ … -/
def keystream (E : Bytes → Bytes → Bytes) (key iv : Bytes) (n : Nat) : Bytes :=
  (((List.range ((n + 15) / 16)).map (fun i => (E key (incrBE iv i)).take 16)).flatten).take n

/-- CTR mode: XOR with the key stream -/
def ctr (E : Bytes → Bytes → Bytes) (key iv data : Bytes) : Bytes :=
  List.zipWith (· ^^^ ·) data (keystream E key iv data.length)

inductive Outcome where
  | ignored                                  -- payload too short for the 8-byte header and data
  | cipherError                              -- key of invalid length
  | plain (p : Bytes) (rec : Option (R Rec)) -- plaintext; for record type 0x01 the decoder's result
  deriving Repr, DecidableEq

/-- `handleNewManufacturerData` -/
def handle (E : Bytes → Bytes → Bytes) (dec : Bytes → Bytes → R Rec) (key raw : Bytes) : Outcome :=
  if raw.length < 9 then .ignored
  else if ¬ (key.length = 16 ∨ key.length = 24 ∨ key.length = 32) then .cipherError
  else
    let enc := raw.drop 8
    let iv := [raw.getD 5 0, raw.getD 6 0] ++ List.replicate 14 0
    let padded := pkcs7 enc 16
    let decrypted := ctr E key iv padded
    -- the padding is only needed for the cipher: decryptedBytes[:len(encryptedBytes)] (cap stays padded)
    let plain := decrypted.take enc.length
    let spare := decrypted.drop enc.length
    if raw.getD 4 0 = 1 then .plain plain (some (dec plain spare)) else .plain plain none

/-- `bluezAddrBytes`: colons removed, hex decoded; nothing on a malformed address -/
def addrBytes (addr : Bytes) : Option Bytes := unhex (addr.filter (· != 58))

/-- `getDeviceConfig`: index of the first configured device whose MAC equals the address bytes -/
def matchDevice (macs : List Bytes) (addr : Bytes) : Option Nat :=
  match addrBytes addr with
  | none => none
  | some a => macs.findIdx? (· == a)

end Victron.BleHandle
