import Victron.Model.Api
/-
  vecli/cmd/vedirect.go `runVedirect` over an abstract transport: connect, read all registers, print the number
  of fetched registers and one line per value ordered by sort key. The serial layer, termios timing, cobra and
  fmt are exercised by the correspondence (real binary behind a pty), not modelled.
-/
namespace Victron.Cli
open Victron

inductive Status where
  | ok | connectError | fetchError
  deriving DecidableEq, Repr

structure Line where
  sort : Int
  name : String
  val : Val
  unit : String
  deriving DecidableEq, Repr

structure Output where
  status : Status
  count : Option Nat          -- the "fetched N registers" header (absent when connecting failed)
  lines : List Line
  deriving DecidableEq, Repr

/-- `GetList()`: the values (keyed by name) with their register's sort key and unit, stably sorted by sort key.
    (Go ranges over maps here, so the order among equal sort keys is unspecified; the model keeps delivery order.) -/
def linesOf (rl : RegList) (vals : List (String × Val)) : List Line :=
  (vals.filterMap (fun p => (rl.all.find? (·.name == p.1)).map (fun r => Line.mk r.sort p.1 p.2 r.unit))).mergeSort
    (fun a b => decide (a.sort ≤ b.sort))

def run (tr : Transport) (products : List ProductRow) (types : List TypeRow) (fam : Families)
    (enums fls : List EnumTable) : Output :=
  match connect tr products types fam with
  | .ok (_, rl) =>
    let (evs, res) := stream tr enums fls none rl {}
    match res with
    | none => let ls := linesOf rl (collect evs); ⟨.ok, some ls.length, ls⟩
    | some _ => ⟨.fetchError, some 0, []⟩      -- the values are only kept when the whole read succeeded
  | _ => ⟨.connectError, none, []⟩

end Victron.Cli
