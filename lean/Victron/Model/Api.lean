import Victron.Model.Tables
import Victron.Model.Select
import Victron.Model.Text
/-
  vedirectapi/registerApi.go over an abstract transport: `get addr` is the outcome of `Vd.VeCommandGet addr`
  (after its retries), `ping` / `devid` those of `Ping` / `GetDeviceId`. What the transport returns for a
  given device is the subject of C01–C06; this layer is about what the API does with it.
-/
namespace Victron

structure Transport where
  ping : R Unit
  devid : R Nat
  get : Nat → R Bytes

/-- decoded register values. Numbers stay symbolic: `raw / factor + offset` (floats never enter a proof). -/
inductive Val where
  | num (raw : Int) (factor : Int) (offset : String)
  | text (bs : Bytes)
  | enum (idx : Int) (name : String)
  | fields (fs : List (Int × Bool)) (comma : String)
  deriving DecidableEq, Repr

/-- API result: a value, or an error of a kind (as `errors.Is` sees it) wrapped with the register's name -/
inductive ApiR where
  | ok (v : Val)
  | err (e : Err) (name : String)
  | panic
  deriving DecidableEq, Repr

def wrap (name : String) : R Val → ApiR
  | .ok v => .ok v
  | .err e => .err e name
  | .panic => .panic

/-- `ReadNumberRegister` -/
def readNumber (tr : Transport) (r : Reg) : ApiR :=
  wrap r.name <|
    if r.signed then (tr.get r.address).bind leInt |>.map' (fun i => Val.num i r.factor r.offset)
    else (tr.get r.address).map' (fun bs => Val.num (leUint bs) r.factor r.offset)

/-- `ReadTextRegister`: GetString (trailing NULs stripped), then strings.TrimSpace -/
def readText (tr : Transport) (r : Reg) : ApiR :=
  wrap r.name <| (tr.get r.address).map' (fun bs => Val.text (trimSpace (trimNul bs)))

/-- `ReadEnumRegister`: GetUint, `int(uint64)`, `Factory().NewEnum` -/
def readEnum (tr : Transport) (tables : List EnumTable) (r : Reg) : ApiR :=
  wrap r.name <| (tr.get r.address).bind (fun bs =>
    match tables.find? (·.name == r.factory) with
    | none => .panic                       -- nil factory: method call on a nil interface
    | some T => (T.newEnum (toS 64 (leUint bs))).map' (fun p => Val.enum p.1 p.2))

/-- `ReadFieldListRegister`: GetUint, `uint(uint64)`, `Factory().NewFieldList` (never fails) -/
def readFieldList (tr : Transport) (tables : List EnumTable) (r : Reg) : ApiR :=
  wrap r.name <| (tr.get r.address).bind (fun bs =>
    match tables.find? (·.name == r.factory) with
    | none => .panic
    | some T => .ok (Val.fields (T.fields (leUint bs)) (T.commaString (leUint bs))))

def readReg (tr : Transport) (enums fls : List EnumTable) (r : Reg) : ApiR :=
  if r.kind = 1 then readNumber tr r else if r.kind = 2 then readText tr r
  else if r.kind = 3 then readEnum tr enums r else readFieldList tr fls r

/-! ### streaming -/

structure Handlers where
  n : Bool := true
  t : Bool := true
  e : Bool := true
  f : Bool := true
  deriving DecidableEq, Repr

inductive Ev where
  | read (addr : Nat)                 -- a register read on the wire
  | cb (name : String) (v : Val)      -- a handler invocation
  deriving DecidableEq, Repr

/-- the registers a run intends to read, in order: groups whose handler is set -/
def planned (rl : RegList) (h : Handlers) : List Reg :=
  (if h.n then rl.n else []) ++ (if h.t then rl.t else []) ++ (if h.e then rl.e else []) ++ (if h.f then rl.f else [])

/-- `StreamRegisterList` over the planned registers. `started` counts the reads begun so far; the context
    is observed as cancelled before a register iff `cancelAt = some k` and `k ≤ started`
    (cancel before the run: k = 0; inside the k-th callback or during the k-th read: k). -/
def cancelled (cancelAt : Option Nat) (started : Nat) : Bool :=
  match cancelAt with | some k => decide (k ≤ started) | none => false

def streamL (tr : Transport) (enums fls : List EnumTable) (cancelAt : Option Nat) :
    List Reg → Nat → List Ev × Option (Err × String)
  | [], _ => ([], none)
  | r :: rest, started =>
    if cancelled cancelAt started then ([], some (.ctxDone, ""))
    else
      match readReg tr enums fls r with
      | .ok v =>
        let (evs, res) := streamL tr enums fls cancelAt rest (started + 1)
        (.read r.address :: .cb r.name v :: evs, res)
      | .err e name => ([.read r.address], some (e, name))
      | .panic => ([.read r.address], some (.other, "PANIC"))

def stream (tr : Transport) (enums fls : List EnumTable) (cancelAt : Option Nat) (rl : RegList) (h : Handlers) :
    List Ev × Option (Err × String) :=
  streamL tr enums fls cancelAt (planned rl h) 0

/-- `ReadRegisterList`: the callbacks collected into maps keyed by name (later duplicates overwrite) -/
def collect (evs : List Ev) : List (String × Val) :=
  evs.foldl (fun acc ev => match ev with
    | .cb name v => (acc.filter (fun p => p.1 != name)) ++ [(name, v)]
    | .read _ => acc) []

/-! ### connect -/

/-- `NewRegisterApi`: ping, device id, known product, register list of its class -/
def connect (tr : Transport) (products : List ProductRow) (types : List TypeRow) (fam : Families) : R (Nat × RegList) :=
  match tr.ping with
  | .panic => .panic
  | .err e => .err e
  | .ok () =>
    match tr.devid with
    | .panic => .panic
    | .err e => .err e
    | .ok id =>
      if !(productRow products id).exists_ then .err .other
      else match selectList products types fam id with
        | (_, some e) => .err e
        | (rl, none) => .ok (id, rl)

end Victron
