import Victron.Basic.Bytes
/- strings.TrimSpace on raw bytes: Unicode white space (unicode.IsSpace) removed from both ends.
   Argued byte-wise: the UTF-8 encodings of the space runes are unique, and Go decodes an invalid byte as
   U+FFFD (not a space), both forwards (DecodeRune) and backwards (DecodeLastRune finds the lead byte). -/
namespace Victron

/-- UTF-8 encodings of the runes with unicode.IsSpace: \t \n \v \f \r ' ' U+0085 U+00A0 U+1680 U+2000–U+200A
    U+2028 U+2029 U+202F U+205F U+3000 -/
def spaceSeqs : List Bytes :=
  [[9], [10], [11], [12], [13], [32], [0xC2, 0x85], [0xC2, 0xA0], [0xE1, 0x9A, 0x80]] ++
  (List.range 11).map (fun k => [0xE2, 0x80, 0x80 + k]) ++
  [[0xE2, 0x80, 0xA8], [0xE2, 0x80, 0xA9], [0xE2, 0x80, 0xAF], [0xE2, 0x81, 0x9F], [0xE3, 0x80, 0x80]]

def stripPrefix? (p : Bytes) (s : Bytes) : Option Bytes :=
  if p.isPrefixOf s then some (s.drop p.length) else none

/-- remove leading space runes; `fuel` = length of the input -/
def trimLeft : Nat → Bytes → Bytes
  | 0, s => s
  | fuel + 1, s =>
    match spaceSeqs.findSome? (fun p => stripPrefix? p s) with
    | some rest => trimLeft fuel rest
    | none => s

def trimSpace (s : Bytes) : Bytes :=
  let l := trimLeft s.length s
  -- trailing spaces: the encodings are palindrome-free, so strip reversed encodings from the reversed string
  let r := l.reverse
  let rec go : Nat → Bytes → Bytes
    | 0, t => t
    | fuel + 1, t =>
      match spaceSeqs.findSome? (fun p => stripPrefix? p.reverse t) with
      | some rest => go fuel rest
      | none => t
  (go r.length r).reverse

end Victron
