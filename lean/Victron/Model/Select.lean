import Victron.Model.Tables
/- veregister/registerFactory.go `GetRegisterListByProduct`, parametric in the tables -/
namespace Victron

structure Families where
  bmvAll : RegList
  solarProduct : RegList
  solarGeneric : RegList
  solarSettings : RegList
  solarChargerData : RegList
  solarPanelData : RegList
  solarLoadData : RegList
  inverterAll : RegList

/-- mirrors the `switch p.Type()`; the second component is `none` for `err == nil` -/
def selectList (products : List ProductRow) (types : List TypeRow) (fam : Families) (id : Nat) : RegList × Option Err :=
  let p := productRow products id
  let t := p.type
  if t = 1 then
    (fam.bmvAll.filterByName ["AuxVoltage", "BatteryTemperature", "MidPointVoltage", "MidPointVoltageDeviation",
      "AuxVoltageMinimum", "AuxVoltageMaximum"], none)
  else if t = 2 ∨ t = 10 then
    (fam.bmvAll.filterByName ["ProductRevision", "Description"], none)
  else if t = 3 ∨ t = 4 then
    let rl := (((({} : RegList).appendAll fam.solarProduct).appendAll fam.solarGeneric).appendAll fam.solarSettings).appendAll fam.solarChargerData
    let rl := rl.appendAll fam.solarPanelData
    -- MaxPanelCurrent(): the table value for solar types, -1 otherwise
    let c := if (typeRow types t).solar then p.mpc else -1
    if c = 10 ∨ c = 15 ∨ c = 20 then ((rl.filterByName ["PanelCurrent"]).appendAll fam.solarLoadData, none)
    else (rl, none)
  else if t = 7 ∨ t = 8 then
    (({} : RegList).appendAll fam.inverterAll, none)
  else ({}, some .unsupportedType)

end Victron
