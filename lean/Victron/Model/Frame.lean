import Victron.Basic.Bytes
/-
  Pure part of the VE.Direct HEX protocol as vedirect/vecommand.go implements it:
  building a command frame (`sendCommand`), validating a response body (`VeCommand` after
  `sendReceive`), interpreting a Get response (`VeCommandGet`, one pass of its loop).
-/
namespace Victron

/-- `ResponseForCommand`. -/
def responseFor (cmd : Nat) : Nat :=
  if cmd = 0x01 then 0x05 else if cmd = 0x03 then 0x01 else if cmd = 0x04 then 0x01
  else if cmd = 0x06 then 0x01 else if cmd = 0x07 then 0x07 else if cmd = 0x08 then 0x08
  else if cmd = 0x0A then 0x0A else 0x03

/-- the seven commands of vedirect/definitions.go -/
def commands : List Nat := [0x01, 0x03, 0x04, 0x06, 0x07, 0x08, 0x0A]

/-- `param` of `VeCommand`: address little-endian plus a zero flag byte for Get/Set, else nothing. -/
def paramFor (cmd addr : Nat) : Bytes :=
  if cmd = 0x07 ∨ cmd = 0x08 then [addr % 256, addr / 256 % 256, 0] else []

/-- `sendCommand`: `fmt.Sprintf(":%X%X%02X\n", cmd, data, checksum)`. -/
def txFrame (cmd : Nat) (data : Bytes) : Bytes :=
  [58] ++ hexNoPad cmd ++ hexBytes data ++ hexByte (checksum cmd data) ++ [10]

/-- the frame written for `VeCommand(cmd, addr)` -/
def tx (cmd addr : Nat) : Bytes := txFrame cmd (paramFor cmd addr)

/-- A Go byte slice with the bytes between `len` and `cap` made explicit. -/
structure Slice where
  data : Bytes
  spare : Bytes
  deriving Repr, DecidableEq

/-- `s[lo:hi]` — Go checks `hi` against the capacity. -/
def Slice.slice (s : Slice) (lo hi : Nat) : R Slice :=
  if lo ≤ hi ∧ hi ≤ s.data.length + s.spare.length then
    let all := s.data ++ s.spare
    .ok ⟨(all.take hi).drop lo, all.drop hi⟩
  else .panic

/-- `s[lo:]` — Go checks `lo` against the length. -/
def Slice.sliceFrom (s : Slice) (lo : Nat) : R Slice :=
  if lo ≤ s.data.length then .ok ⟨s.data.drop lo, s.spare⟩ else .panic

/-- Validation of a response body (the bytes between ':' and '\n') by `VeCommand`.
    Returns the payload without the check byte, as the slice `binData[:len-1]`. -/
def parseResponse (cmd : Nat) (resp : Bytes) : R Slice :=
  if resp.length < 7 then .err .other else
  -- strconv.ParseUint(string(resp[0]), 16, 8) with its error ignored: a non-hex character gives 0
  let response := (unhexDigit (resp.headD 0)).getD 0
  if responseFor cmd ≠ response then .err .other else
  let hexData := resp.tail
  if hexData.length % 2 ≠ 0 then .err .other else
  match unhex hexData with
  | none => .err .other
  | some bin =>
    -- values = binData[:len(binData)-1]; responseChecksum = binData[len(binData)-1]
    match bin.getLast? with
    | none => .panic
    | some ck =>
      if checksum response bin.dropLast ≠ ck then .err .other else .ok ⟨bin.dropLast, [ck]⟩

/-- `responseError` -/
def flagError (flag : Nat) : Option Err :=
  if flag = 0 then none else if flag = 1 then some .unknownId else if flag = 2 then some .notSupported
  else if flag = 4 then some .parameterError else some .other

/-- Outcome of one pass of the loop in `VeCommandGet` once `VeCommand` returned `rawValues`. -/
inductive GetStep where
  | retry                 -- `continue`
  | fail (e : Err)        -- device error: returned at once
  | value (v : Bytes)     -- success
  | panic
  deriving Repr, DecidableEq

def getStep (addr : Nat) (raw : Slice) : GetStep :=
  if raw.data.length < 3 then .retry else
  match raw.slice 0 2 with
  | .panic => .panic | .err _ => .panic
  | .ok a =>
    if addr ≠ leUint a.data % 65536 then .retry else
    match raw.slice 2 3 with
    | .panic => .panic | .err _ => .panic
    | .ok f =>
      match flagError (leUint f.data % 256) with
      | some e => .fail e
      | none =>
        match raw.sliceFrom 3 with
        | .ok v => .value v.data
        | _ => .panic

/-- what a conforming device sends for `Get addr` holding `payload`, flag `flag` -/
def getResponseBody (addr flag : Nat) (payload : Bytes) : Bytes :=
  let vals := [addr % 256, addr / 256 % 256, flag] ++ payload
  [hexDigit 7] ++ hexBytes vals ++ hexByte (checksum 7 vals)

def frameOf (body : Bytes) : Bytes := [58] ++ body ++ [10]

end Victron
