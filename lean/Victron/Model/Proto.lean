import Victron.Model.Frame
/-
  Stateful model of vedirect.Vedirect on a scripted port: io.go, vecommand.go, vedirect.go, logging.go.
  The port model is the harness's scripted port (tools/harness/port.go): replies are queued by writes,
  delivered chunk-wise by reads, dropped by flush; any operation can be made to fail by index.
-/
namespace Victron

structure Port where
  queue   : List Bytes := []       -- chunks available to Read, oldest first (no empty chunk)
  replies : List (List Bytes) := [] -- reply k (a list of chunks) is queued by the k-th Write call
  wFail   : List Nat := []         -- indices of Write calls that fail
  rFail   : List Nat := []         -- indices of Read calls that fail with an error
  fFail   : List Nat := []         -- indices of Flush calls that fail
  nW : Nat := 0
  nR : Nat := 0
  nF : Nat := 0
  nE : Nat := 0                     -- Reads that delivered nothing (end of data or an error)
  written : List Bytes := []       -- successful writes, newest first
  deriving Repr

def Port.write (p : Port) (b : Bytes) : Port × Bool :=
  if p.wFail.contains p.nW then ({ p with nW := p.nW + 1 }, false)
  else ({ p with nW := p.nW + 1, written := b :: p.written,
                 queue := p.queue ++ ((p.replies.getD p.nW []).filter (fun c => !c.isEmpty)) }, true)

/-- `none`: the read failed (error or end of data); `some d`: it delivered chunk `d`. -/
def Port.read (p : Port) : Port × Option Bytes :=
  if p.rFail.contains p.nR then ({ p with nR := p.nR + 1, nE := p.nE + 1 }, none)
  else match p.queue with
    | [] => ({ p with nR := p.nR + 1, nE := p.nE + 1 }, none)
    | c :: cs => ({ p with nR := p.nR + 1, queue := cs }, some c)

def Port.flush (p : Port) : Port :=
  if p.fFail.contains p.nF then { p with nF := p.nF + 1 } else { p with nF := p.nF + 1, queue := [] }

structure LogLine where
  tx : Bytes
  rx : Bytes
  deriving Repr, DecidableEq

structure Vd where
  port  : Port
  buf   : Bytes := []              -- bufio.Reader's buffered, unread bytes
  ioLog : Bool := false            -- cfg.IoLogger != nil
  dbg   : Bool := false            -- cfg.DebugLogger != nil (has no effect on the model: that is the claim)
  txBuf : Bytes := []
  rxBuf : Bytes := []
  lines : List LogLine := []       -- emitted I/O log lines, newest first
  deriving Repr

def Vd.pending (σ : Vd) : Bytes := σ.buf ++ σ.port.queue.flatten

/-- `vd.write` -/
def Vd.write (σ : Vd) (b : Bytes) : Vd × Bool :=
  let (p, ok) := σ.port.write b
  if ok then ({ σ with port := p, txBuf := if σ.ioLog then σ.txBuf ++ b else σ.txBuf }, true)
  else ({ σ with port := p }, false)

/-- `vd.recvUntil` = `bufio.Reader.ReadBytes(needle)`: search the buffer, else read one more chunk;
    a failing read consumes what was buffered. `fuel` bounds the number of chunk reads. -/
def Vd.recvUntilF : Nat → Vd → Nat → Vd × Option Bytes
  | fuel, σ, needle =>
    match splitFirst needle σ.buf with
    | some (pre, post) =>
      ({ σ with buf := post, rxBuf := if σ.ioLog then σ.rxBuf ++ pre ++ [needle] else σ.rxBuf }, some pre)
    | none =>
      match fuel with
      | 0 => ({ σ with buf := [] }, none)
      | fuel + 1 =>
        let (p, r) := σ.port.read
        match r with
        | some d => Vd.recvUntilF fuel { σ with port := p, buf := σ.buf ++ d } needle
        | none => ({ σ with port := p, buf := [] }, none)

def Vd.recvUntil (σ : Vd) (needle : Nat) : Vd × Option Bytes :=
  Vd.recvUntilF (σ.port.queue.length + 1) σ needle

/-- `flushReceiver`: port flush (error only logged), then `reader.Reset`. -/
def Vd.flushReceiver (σ : Vd) : Vd := { σ with port := σ.port.flush, buf := [] }

/-- `receiveResponse`: frames starting with 'A' are skipped. `fuel` bounds the number of frames. -/
def Vd.receiveResponseF : Nat → Vd → Vd × Option Bytes
  | 0, σ => (σ, none)
  | fuel + 1, σ =>
    let (σ, r) := σ.recvUntil 58
    match r with
    | none => (σ, none)
    | some _ =>
      let (σ, r) := σ.recvUntil 10
      match r with
      | none => (σ, none)
      | some body => if body.headD 0 = 65 ∧ body ≠ [] then Vd.receiveResponseF fuel σ else (σ, some body)

def Vd.receiveResponse (σ : Vd) : Vd × Option Bytes :=
  Vd.receiveResponseF (σ.pending.length + 1) σ

/-- `sendReceive`; `idle` is the outcome of the clock test `now - lastSent > 100ms`. -/
def Vd.sendReceive (σ : Vd) (idle : Bool) (cmd : Nat) (data : Bytes) : Vd × Option Bytes :=
  let σ := if idle then σ.flushReceiver else σ
  let (σ, ok) := σ.write (txFrame cmd data)
  if ok then σ.receiveResponse else (σ, none)

/-- `VeCommand` -/
def Vd.veCommand (σ : Vd) (idle : Bool) (cmd addr : Nat) : Vd × R Slice :=
  let (σ, r) := σ.sendReceive idle cmd (paramFor cmd addr)
  match r with
  | none => (σ, .err .other)
  | some resp => (σ, parseResponse cmd resp)

/-- `VeCommandGet`: up to `idles.length` (= 8) tries; `idles` gives the clock outcome of each try. -/
def Vd.veCommandGetL : List Bool → Vd → Nat → Vd × R Bytes
  | [], σ, _ => (σ, .err .other)      -- gave up
  | idle :: idles, σ, addr =>
    let (σ, r) := σ.veCommand idle 7 addr
    match r with
    | .panic => (σ, .panic)
    | .err _ => Vd.veCommandGetL idles σ addr
    | .ok raw =>
      match getStep addr raw with
      | .retry => Vd.veCommandGetL idles σ addr
      | .fail e => (σ, .err e)
      | .value v => (σ, .ok v)
      | .panic => (σ, .panic)

def numbTries : Nat := 8

/-- pad / cut the observed idle pattern to exactly eight tries -/
def idles8 (idles : List Bool) : List Bool := (idles ++ List.replicate numbTries false).take numbTries

def Vd.veCommandGet (σ : Vd) (idles : List Bool) (addr : Nat) : Vd × R Bytes :=
  Vd.veCommandGetL (idles8 idles) σ addr

/-- `ioLoggerLineEnd` -/
def Vd.lineEnd (σ : Vd) : Vd :=
  if σ.ioLog then { σ with lines := ⟨σ.txBuf, σ.rxBuf⟩ :: σ.lines, txBuf := [], rxBuf := [] } else σ

/-! Typed calls (vedirect.go). -/

def Vd.ping (σ : Vd) (idle : Bool) : Vd × R Unit :=
  let (σ, r) := σ.sendReceive idle 1 []
  (σ.lineEnd, match r with | none => .err .other | some _ => .ok ())

def Vd.getDeviceId (σ : Vd) (idle : Bool) : Vd × R Nat :=
  let (σ, r) := σ.veCommand idle 4 0
  (σ.lineEnd, match r with
    | .ok raw => if raw.data.length < 2 then .panic else .ok (leNat (raw.data.take 2))
    | .err e => .err e
    | .panic => .panic)

def Vd.getUint (σ : Vd) (idles : List Bool) (addr : Nat) : Vd × R Nat :=
  let (σ, r) := σ.veCommandGet idles addr
  (σ.lineEnd, r.map' leUint)

def Vd.getInt (σ : Vd) (idles : List Bool) (addr : Nat) : Vd × R Int :=
  let (σ, r) := σ.veCommandGet idles addr
  (σ.lineEnd, r.bind leInt)

def Vd.getString (σ : Vd) (idles : List Bool) (addr : Nat) : Vd × R Bytes :=
  let (σ, r) := σ.veCommandGet idles addr
  (σ.lineEnd, r.map' trimNul)

end Victron
