import Victron.Basic.Bytes
/-
  AES block encryption (FIPS-197), executable, for the BLE handler model's driver. In the theorems the block
  function is a parameter `E`; this implementation is validated against crypto/aes by the correspondence
  (every plaintext the real handler logs is compared with the model's), not verified.
-/
namespace Victron.Aes

def sboxTable : Array Nat := #[
  99, 124, 119, 123, 242, 107, 111, 197, 48, 1, 103, 43, 254, 215, 171, 118,
  202, 130, 201, 125, 250, 89, 71, 240, 173, 212, 162, 175, 156, 164, 114, 192,
  183, 253, 147, 38, 54, 63, 247, 204, 52, 165, 229, 241, 113, 216, 49, 21,
  4, 199, 35, 195, 24, 150, 5, 154, 7, 18, 128, 226, 235, 39, 178, 117,
  9, 131, 44, 26, 27, 110, 90, 160, 82, 59, 214, 179, 41, 227, 47, 132,
  83, 209, 0, 237, 32, 252, 177, 91, 106, 203, 190, 57, 74, 76, 88, 207,
  208, 239, 170, 251, 67, 77, 51, 133, 69, 249, 2, 127, 80, 60, 159, 168,
  81, 163, 64, 143, 146, 157, 56, 245, 188, 182, 218, 33, 16, 255, 243, 210,
  205, 12, 19, 236, 95, 151, 68, 23, 196, 167, 126, 61, 100, 93, 25, 115,
  96, 129, 79, 220, 34, 42, 144, 136, 70, 238, 184, 20, 222, 94, 11, 219,
  224, 50, 58, 10, 73, 6, 36, 92, 194, 211, 172, 98, 145, 149, 228, 121,
  231, 200, 55, 109, 141, 213, 78, 169, 108, 86, 244, 234, 101, 122, 174, 8,
  186, 120, 37, 46, 28, 166, 180, 198, 232, 221, 116, 31, 75, 189, 139, 138,
  112, 62, 181, 102, 72, 3, 246, 14, 97, 53, 87, 185, 134, 193, 29, 158,
  225, 248, 152, 17, 105, 217, 142, 148, 155, 30, 135, 233, 206, 85, 40, 223,
  140, 161, 137, 13, 191, 230, 66, 104, 65, 153, 45, 15, 176, 84, 187, 22
]

def sbox (b : Nat) : Nat := sboxTable.getD (b % 256) 0

def xtime (a : Nat) : Nat := if a * 2 ≥ 256 then (a * 2) ^^^ 0x11b else a * 2

def rotWord : List Nat → List Nat
  | [a, b, c, d] => [b, c, d, a]
  | w => w

def xorL (a b : List Nat) : List Nat := List.zipWith (· ^^^ ·) a b

/-- key expansion: `nk` words of key → 4·(nr+1) words -/
def expandKey (key : List Nat) : List (List Nat) :=
  let nk := key.length / 4
  let nr := nk + 6
  let init : List (List Nat) := (List.range nk).map (fun i => (key.drop (4 * i)).take 4)
  let total := 4 * (nr + 1)
  let step := fun (acc : List (List Nat) × Nat) (i : Nat) =>
    let (ws, rcon) := acc
    let prev := ws.getD (i - 1) []
    let (t, rcon') :=
      if i % nk = 0 then (xorL ((rotWord prev).map sbox) [rcon, 0, 0, 0], xtime rcon)
      else if nk > 6 ∧ i % nk = 4 then (prev.map sbox, rcon)
      else (prev, rcon)
    (ws ++ [xorL (ws.getD (i - nk) []) t], rcon')
  ((List.range (total - nk)).map (· + nk)).foldl step (init, 1) |>.1

def subBytes (s : List Nat) : List Nat := s.map sbox

/-- state is column-major: byte (row r, column c) at index 4c + r -/
def shiftRows (s : List Nat) : List Nat :=
  (List.range 16).map (fun i => let r := i % 4; let c := i / 4; s.getD (4 * ((c + r) % 4) + r) 0)

def mixColumn : List Nat → List Nat
  | [a, b, c, d] =>
    [xtime a ^^^ (xtime b ^^^ b) ^^^ c ^^^ d,
     a ^^^ xtime b ^^^ (xtime c ^^^ c) ^^^ d,
     a ^^^ b ^^^ xtime c ^^^ (xtime d ^^^ d),
     (xtime a ^^^ a) ^^^ b ^^^ c ^^^ xtime d]
  | w => w

def mixColumns (s : List Nat) : List Nat :=
  (List.range 4).flatMap (fun c => mixColumn ((s.drop (4 * c)).take 4))

def roundKey (ws : List (List Nat)) (r : Nat) : List Nat := ((ws.drop (4 * r)).take 4).flatten

/-- encrypt one 16-byte block under a 16/24/32-byte key -/
def encryptBlock (key : List Nat) (block : List Nat) : List Nat :=
  let ws := expandKey key
  let nr := key.length / 4 + 6
  let s0 := xorL block (roundKey ws 0)
  let s := (List.range (nr - 1)).foldl (fun s r => xorL (mixColumns (shiftRows (subBytes s))) (roundKey ws (r + 1))) s0
  xorL (shiftRows (subBytes s)) (roundKey ws nr)

end Victron.Aes
