import Victron.Basic.Bytes
/- row types of the tables that tools/extract regenerates from /repo on every run (Victron/Gen/Tables.lean) -/
namespace Victron

/-- observables of `veproduct.Product(id)`: Exists, Model, Type, String, MaxPanelVoltage, MaxPanelCurrent,
    membership and value in `GetStringMap()` -/
structure ProductRow where
  id : Nat
  exists_ : Bool
  model : String
  type : Nat
  str : String
  mpv : Int
  mpc : Int
  inMap : Bool
  mapVal : String
  deriving DecidableEq, Repr

/-- observables of `veproduct.Type(t)`: String, IsBMV, IsSolar, IsInverter -/
structure TypeRow where
  t : Nat
  name : String
  bmv : Bool
  solar : Bool
  inverter : Bool
  deriving DecidableEq, Repr

/-- an enumeration / field-list factory: `IntToStringMap()` sorted by key; for enumerations also the graph of
    the typed constructor `New(uint8)` over all 256 bytes: (byte, Idx(), String()) for every accepted byte -/
structure EnumTable where
  name : String
  entries : List (Int × String)
  typed : List (Nat × Int × String)
  deriving DecidableEq, Repr

/-- every attribute of a register definition; `kind` 1 number, 2 text, 3 enum, 4 field list;
    `factory` is the dynamic type of the decoder ("" for number/text, "nil" when missing);
    `offset` is the float64 offset printed with strconv 'g' (shortest round-trip form) -/
structure Reg where
  kind : Nat
  category : String
  name : String
  description : String
  sort : Int
  address : Nat
  static : Bool
  writable : Bool
  signed : Bool
  factor : Int
  offset : String
  unit : String
  factory : String
  deriving DecidableEq, Repr

/-- `veregister.RegisterList`: four ordered sequences -/
structure RegList where
  n : List Reg := []
  t : List Reg := []
  e : List Reg := []
  f : List Reg := []
  deriving DecidableEq, Repr

end Victron
