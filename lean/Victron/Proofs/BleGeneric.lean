import Victron.Spec.BleLayouts
import Victron.Proofs.Hex
/- facts about the layout decoder that hold for every layout: locality, independence of trailing bytes -/
namespace Victron.BleSpec
open Victron Victron.Ble

theorem leNat_append (a b : Bytes) : leNat (a ++ b) = leNat a + 256 ^ a.length * leNat b := by
  induction a with
  | nil => simp [leNat]
  | cons x t ih =>
    simp only [List.cons_append, leNat, ih, List.length_cons, Nat.pow_succ]
    rw [Nat.mul_add, Nat.add_assoc]
    congr 1
    rw [← Nat.mul_assoc, Nat.mul_comm 256 (256 ^ t.length)]

/-- a bit slice that ends inside `inp` does not see what is appended to `inp` -/
theorem bits_append (inp suf : Bytes) (s w : Nat) (h : s + w ≤ 8 * inp.length) :
    bits (inp ++ suf) s w = bits inp s w := by
  unfold bits
  rw [leNat_append]
  have h256 : 256 ^ inp.length = 2 ^ (8 * inp.length) := by
    rw [show (256 : Nat) = 2 ^ 8 from rfl, ← Nat.pow_mul]
  rw [h256]
  have hs : 8 * inp.length = s + (w + (8 * inp.length - s - w)) := by omega
  rw [hs, Nat.pow_add, Nat.pow_add, Nat.mul_assoc, Nat.mul_assoc]
  rw [Nat.add_mul_div_left _ _ (Nat.pos_pow_of_pos' s), Nat.add_mul_mod_self_left]
where
  Nat.pos_pow_of_pos' (s : Nat) : 0 < 2 ^ s := Nat.pow_pos (by omega)

theorem any_congr_mem {α} (l : List α) (p q : α → Bool) (h : ∀ a ∈ l, p a = q a) : l.any p = l.any q := by
  induction l with
  | nil => rfl
  | cons x t ih =>
    simp only [List.any_cons]
    rw [h x (by simp), ih (fun a ha => h a (by simp [ha]))]

/-- **Locality.** A field depends on the input only through its own bit slice [start, start+width) and,
    for mode-dependent fields, the aux-input bits: bits outside a field never influence that field. -/
theorem field_locality (inp inp' : Bytes) (aux aux' : Nat) (r : Row)
    (hv : bits inp r.start r.width = bits inp' r.start r.width) (ha : r.aux ≠ none → aux = aux') :
    evalRow inp aux r = evalRow inp' aux' r := by
  unfold evalRow
  rw [hv]
  cases hr : r.aux with
  | none => rfl
  | some m => rw [ha (by simp [hr])]

/-- every row lies inside the record and so does the aux input -/
def within (L : Layout) : Bool :=
  L.rows.all (fun r => r.start + r.width ≤ 8 * L.n) && decide (L.auxAt + 2 ≤ 8 * L.n)

/-- **Trailing bytes.** For an input at least as long as the record, the result does not depend on the
    bytes after the record. -/
theorem decode_append (L : Layout) (hL : within L = true) (inp suf : Bytes) (hlen : L.n ≤ inp.length) :
    decode L (inp ++ suf) = decode L inp := by
  simp only [within, Bool.and_eq_true, decide_eq_true_eq] at hL
  have hb : ∀ r ∈ L.rows, bits (inp ++ suf) r.start r.width = bits inp r.start r.width := by
    intro r hr
    have := List.all_eq_true.mp hL.1 r hr
    simp only [decide_eq_true_eq] at this
    exact bits_append inp suf _ _ (by omega)
  have ha : bits (inp ++ suf) L.auxAt 2 = bits inp L.auxAt 2 := bits_append inp suf _ _ (by omega)
  unfold decode
  have h1 : ¬ (inp ++ suf).length < L.n := by simp; omega
  have h2 : ¬ inp.length < L.n := by omega
  rw [if_neg h1, if_neg h2]
  have hbad : badEnum (inp ++ suf) L.rows = badEnum inp L.rows := by
    unfold badEnum
    apply any_congr_mem
    intro r hr
    rw [hb r hr]
  rw [hbad, ha]
  congr 1
  apply congrArg
  apply List.map_congr_left
  intro r hr
  rw [field_locality (inp ++ suf) inp _ _ r (hb r hr) (fun _ => rfl)]

/-- the layout decoder never panics, and returns ErrInputTooShort exactly below the record length -/
theorem decode_ne_panic (L : Layout) (inp : Bytes) : decode L inp ≠ .panic := by
  unfold decode; split; · simp
  split <;> simp

theorem decode_tooShort_iff (L : Layout) (inp : Bytes) : decode L inp = .err .tooShort ↔ inp.length < L.n := by
  unfold decode
  constructor
  · intro h
    split at h
    · assumption
    · split at h <;> simp at h
  · intro h; rw [if_pos h]

/-- an enumerated byte outside its enumeration is rejected with the enum error (and nothing else is) -/
theorem decode_invalidEnum_iff (L : Layout) (inp : Bytes) :
    decode L inp = .err .invalidEnum ↔ ¬ inp.length < L.n ∧ badEnum inp L.rows = true := by
  unfold decode
  constructor
  · intro h
    split at h
    · simp at h
    · rename_i hl
      split at h
      · rename_i hb; exact ⟨hl, hb⟩
      · simp at h
  · intro ⟨h1, h2⟩; rw [if_neg h1, if_pos h2]

end Victron.BleSpec
