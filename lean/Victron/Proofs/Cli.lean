import Victron.Model.Cli
import Victron.Spec.ListSpec
/- helper lemmas for C20: collecting a complete run, looking registers up by name -/
namespace Victron
open Victron.Cli

/-- collecting the callbacks of a complete run over registers with pairwise distinct names gives one entry per
    register, in order -/
theorem collect_complete (l : List Reg) (vals : Reg → Val) (hnd : (l.map (·.name)).Nodup) :
    collect (l.flatMap (fun r => [Ev.read r.address, Ev.cb r.name (vals r)])) = l.map (fun r => (r.name, vals r)) := by
  unfold collect
  generalize hf : (fun (acc : List (String × Val)) (ev : Ev) => match ev with
        | .cb name v => (acc.filter (fun (p : String × Val) => p.1 != name)) ++ [(name, v)]
        | .read _ => acc) = f
  have hcb : ∀ acc n v, f acc (.cb n v) = (acc.filter (fun p => p.1 != n)) ++ [(n, v)] := by intro acc n v; rw [← hf]
  have hrd : ∀ acc a, f acc (.read a) = acc := by intro acc a; rw [← hf]
  have gen : ∀ (l : List Reg) (acc : List (String × Val)), (l.map (·.name)).Nodup → (∀ p ∈ acc, p.1 ∉ l.map (·.name)) →
      (l.flatMap (fun r => [Ev.read r.address, Ev.cb r.name (vals r)])).foldl f acc = acc ++ l.map (fun r => (r.name, vals r)) := by
    intro l
    induction l with
    | nil => intro acc _ _; simp
    | cons r rest ih =>
      intro acc hn hacc
      simp only [List.map_cons, List.nodup_cons] at hn
      simp only [List.flatMap_cons, List.cons_append, List.nil_append, List.foldl_cons, hcb, hrd]
      have hfil : acc.filter (fun p => p.1 != r.name) = acc := by
        apply List.filter_eq_self.mpr
        intro p hp
        have := hacc p hp
        simp only [List.map_cons, List.mem_cons, not_or] at this
        simpa using this.1
      rw [hfil, ih (acc ++ [(r.name, vals r)]) hn.2]
      · simp
      · intro p hp
        rcases List.mem_append.mp hp with hp | hp
        · have := hacc p hp
          simp only [List.map_cons, List.mem_cons, not_or] at this
          exact this.2
        · simp only [List.mem_singleton] at hp
          subst hp
          exact hn.1
  have := gen l [] hnd (by simp)
  simpa using this

theorem filterMap_map_some {α β γ} (l : List α) (g : α → β) (h : β → Option γ) (k : α → γ)
    (hk : ∀ a ∈ l, h (g a) = some (k a)) : (l.map g).filterMap h = l.map k := by
  induction l with
  | nil => rfl
  | cons a as ih => simp [hk a (by simp), ih (fun x hx => hk x (by simp [hx]))]

theorem find_by_name (l : List Reg) (hnd : (l.map (·.name)).Nodup) (r : Reg) (hr : r ∈ l) :
    l.find? (·.name == r.name) = some r := by
  induction l with
  | nil => simp at hr
  | cons x xs ih =>
    simp only [List.map_cons, List.nodup_cons] at hnd
    by_cases hx : x.name = r.name
    · rcases List.mem_cons.mp hr with rfl | hr'
      · simp
      · exfalso; exact hnd.1 (by rw [hx]; exact List.mem_map_of_mem hr')
    · rcases List.mem_cons.mp hr with rfl | hr'
      · exact absurd rfl hx
      · simp [hx, ih hnd.2 hr']

theorem ListSpec.noDup_nodup {α} [DecidableEq α] (l : List α) (h : ListSpec.noDup l = true) : l.Nodup := by
  induction l with
  | nil => exact List.nodup_nil
  | cons a t ih =>
    simp only [ListSpec.noDup, Bool.and_eq_true, Bool.not_eq_true', List.contains_eq_mem, decide_eq_false_iff_not] at h
    exact List.nodup_cons.mpr ⟨h.1, ih h.2⟩

end Victron
