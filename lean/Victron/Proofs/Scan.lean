import Victron.Model.Proto
import Victron.Proofs.Proto
/- the receive side: what a successful `recvUntil` / `receiveResponse` says about the pending byte stream -/
namespace Victron

theorem splitFirst_some {x : Nat} {l p q : Bytes} (h : splitFirst x l = some (p, q)) :
    l = p ++ x :: q ∧ x ∉ p := by
  induction l generalizing p with
  | nil => simp [splitFirst] at h
  | cons b bs ih =>
    unfold splitFirst at h
    split at h
    · rename_i hb; simp at h; obtain ⟨rfl, rfl⟩ := h; subst hb; simp
    · rename_i hb
      split at h
      · rename_i p' q' hs
        simp at h; obtain ⟨rfl, rfl⟩ := h
        obtain ⟨h1, h2⟩ := ih hs
        refine ⟨by simp [h1], ?_⟩
        intro hm; simp at hm
        rcases hm with hm | hm
        · exact hb hm.symm
        · exact h2 hm
      · simp at h

theorem splitFirst_none {x : Nat} {l : Bytes} (h : splitFirst x l = none) : x ∉ l := by
  induction l with
  | nil => simp
  | cons b bs ih =>
    unfold splitFirst at h
    split at h; · simp at h
    rename_i hb
    split at h; · simp at h
    rename_i hs
    intro hm; simp at hm
    rcases hm with hm | hm
    · exact hb hm.symm
    · exact ih hs hm

theorem splitFirst_of_not_mem {x : Nat} {p : Bytes} (q : Bytes) (h : x ∉ p) :
    splitFirst x (p ++ x :: q) = some (p, q) := by
  induction p with
  | nil => simp [splitFirst]
  | cons b bs ih =>
    have hb : ¬ b = x := by intro hb; exact h (by simp [hb])
    have : x ∉ bs := by intro hm; exact h (by simp [hm])
    simp [splitFirst, hb, ih this]

theorem Port.read_some {p p' : Port} {d : Bytes} (h : p.read = (p', some d)) : p.queue = d :: p'.queue := by
  unfold Port.read at h
  split at h; · simp at h
  split at h
  · simp at h
  · rename_i c cs hq
    simp at h; obtain ⟨rfl, rfl⟩ := h; simpa using hq

/-- a successful `recvUntil` consumed exactly `pre ++ [needle]` from the head of the pending stream -/
theorem Vd.recvUntilF_ok (fuel : Nat) (σ σ' : Vd) (needle : Nat) (pre : Bytes)
    (h : Vd.recvUntilF fuel σ needle = (σ', some pre)) :
    σ.pending = pre ++ needle :: σ'.pending ∧ needle ∉ pre := by
  induction fuel generalizing σ with
  | zero =>
    unfold Vd.recvUntilF at h
    split at h
    · rename_i p q hs
      simp at h; obtain ⟨rfl, rfl⟩ := h
      obtain ⟨h1, h2⟩ := splitFirst_some hs
      exact ⟨by simp [Vd.pending, h1], h2⟩
    · simp at h
  | succ n ih =>
    unfold Vd.recvUntilF at h
    split at h
    · rename_i p q hs
      simp at h; obtain ⟨rfl, rfl⟩ := h
      obtain ⟨h1, h2⟩ := splitFirst_some hs
      exact ⟨by simp [Vd.pending, h1], h2⟩
    · simp only at h
      split at h
      · rename_i p' d hr
        have hq := Port.read_some (p := σ.port) (p' := (σ.port.read).1) (d := d) (by rw [← hr])
        have := ih _ h
        refine ⟨?_, this.2⟩
        rw [← this.1]
        simp [Vd.pending, hq]
      · simp at h

theorem Vd.recvUntil_ok (σ σ' : Vd) (needle : Nat) (pre : Bytes) (h : σ.recvUntil needle = (σ', some pre)) :
    σ.pending = pre ++ needle :: σ'.pending ∧ needle ∉ pre :=
  Vd.recvUntilF_ok _ σ σ' needle pre h

/-- A successful `receiveResponse` found its body in the pending stream as a complete `':' body '\n'`
    segment (no newline inside), possibly behind skipped material, and the body is not an async frame. -/
theorem Vd.receiveResponseF_ok (fuel : Nat) (σ σ' : Vd) (body : Bytes)
    (h : Vd.receiveResponseF fuel σ = (σ', some body)) :
    ∃ skipped, σ.pending = skipped ++ 58 :: body ++ 10 :: σ'.pending ∧ 10 ∉ body ∧ ¬ (body.headD 0 = 65 ∧ body ≠ []) := by
  induction fuel generalizing σ with
  | zero => simp [Vd.receiveResponseF] at h
  | succ n ih =>
    unfold Vd.receiveResponseF at h
    simp only at h
    split at h; · simp at h
    rename_i σ1 pre1 h1
    split at h; · simp at h
    rename_i σ2 b2 h2
    have e1 := Vd.recvUntil_ok σ _ 58 _ (by rw [← h1])
    have e2 := Vd.recvUntil_ok _ _ 10 _ (by rw [← h2])
    split at h
    · obtain ⟨sk, hs, hn, ha⟩ := ih _ h
      refine ⟨pre1 ++ 58 :: b2 ++ 10 :: sk, ?_, hn, ha⟩
      rw [e1.1, e2.1, hs]; simp
    · rename_i hA
      simp at h; obtain ⟨rfl, rfl⟩ := h
      exact ⟨pre1, by rw [e1.1, e2.1]; simp, e2.2, hA⟩

theorem Vd.receiveResponse_ok (σ σ' : Vd) (body : Bytes) (h : σ.receiveResponse = (σ', some body)) :
    ∃ skipped, σ.pending = skipped ++ 58 :: body ++ 10 :: σ'.pending ∧ 10 ∉ body ∧ ¬ (body.headD 0 = 65 ∧ body ≠ []) :=
  Vd.receiveResponseF_ok _ σ σ' body h

end Victron

namespace Victron

/-! ### completeness: on a port without read faults a delimiter that is pending is found -/

theorem first_split_unique {x : Nat} {p p' q q' : Bytes} (h : p ++ x :: q = p' ++ x :: q') (hp : x ∉ p) (hp' : x ∉ p') :
    p = p' ∧ q = q' := by
  induction p generalizing p' with
  | nil =>
    cases p' with
    | nil => simp at h; exact ⟨rfl, h⟩
    | cons b t => simp at h; exact absurd (by simp [h.1]) hp'
  | cons a t ih =>
    cases p' with
    | nil => simp at h; exact absurd (by simp [h.1]) hp
    | cons b t' =>
      simp at h
      have := ih h.2 (by intro hm; exact hp (by simp [hm])) (by intro hm; exact hp' (by simp [hm]))
      exact ⟨by rw [h.1, this.1], this.2⟩

/-- the parts of the state `recvUntil` never touches -/
def Vd.CfgEq (σ σ' : Vd) : Prop :=
  σ'.ioLog = σ.ioLog ∧ σ'.dbg = σ.dbg ∧ σ'.txBuf = σ.txBuf ∧ σ'.lines = σ.lines

theorem Vd.recvUntilF_complete (fuel : Nat) (σ : Vd) (needle : Nat) (pre post : Bytes)
    (hrf : σ.port.rFail = []) (hp : σ.pending = pre ++ needle :: post) (hn : needle ∉ pre)
    (hf : σ.port.queue.length < fuel) :
    ∃ σ', Vd.recvUntilF fuel σ needle = (σ', some pre) ∧ σ'.pending = post ∧ σ.port.WEq σ'.port ∧ σ.CfgEq σ' ∧
      σ'.port.nF = σ.port.nF := by
  induction fuel generalizing σ with
  | zero => omega
  | succ n ih =>
    unfold Vd.recvUntilF
    cases hs : splitFirst needle σ.buf with
    | some pq =>
      obtain ⟨p, q⟩ := pq
      obtain ⟨h1, h2⟩ := splitFirst_some hs
      have : p ++ needle :: (q ++ σ.port.queue.flatten) = pre ++ needle :: post := by
        rw [← hp]; simp [Vd.pending, h1]
      obtain ⟨e1, e2⟩ := first_split_unique this h2 hn
      subst e1
      exact ⟨_, rfl, by simp [Vd.pending, e2], Port.WEq.refl _, ⟨rfl, rfl, rfl, rfl⟩, rfl⟩
    | none =>
      have hnb := splitFirst_none hs
      simp only
      cases hq : σ.port.queue with
      | nil =>
        exfalso
        have : needle ∈ σ.pending := by rw [hp]; simp
        simp [Vd.pending, hq] at this
        exact hnb this
      | cons c cs =>
        have hread : σ.port.read = ({ σ.port with nR := σ.port.nR + 1, queue := cs }, some c) := by
          unfold Port.read; simp [hrf, hq]
        rw [hread]
        simp only
        have := ih { σ with port := { σ.port with nR := σ.port.nR + 1, queue := cs }, buf := σ.buf ++ c }
          (by simpa using hrf) (by rw [← hp]; simp [Vd.pending, hq]) (by simp [hq] at hf; simpa using hf)
        obtain ⟨σ', e, hpend, hw, hc, hnf⟩ := this
        exact ⟨σ', e, hpend, ⟨hw.1, hw.2.1, hw.2.2.1, hw.2.2.2.1, hw.2.2.2.2.1, hw.2.2.2.2.2⟩, hc, hnf⟩

theorem Vd.recvUntil_complete (σ : Vd) (needle : Nat) (pre post : Bytes)
    (hrf : σ.port.rFail = []) (hp : σ.pending = pre ++ needle :: post) (hn : needle ∉ pre) :
    ∃ σ', σ.recvUntil needle = (σ', some pre) ∧ σ'.pending = post ∧ σ.port.WEq σ'.port ∧ σ.CfgEq σ' ∧
      σ'.port.nF = σ.port.nF :=
  Vd.recvUntilF_complete _ σ needle pre post hrf hp hn (by omega)

/-- one async frame behind noise: `noise ++ ":A" ++ a ++ "\n"` -/
def asyncSeg (s : Bytes × Bytes) : Bytes := s.1 ++ 58 :: 65 :: s.2 ++ [10]

/-- **Resynchronisation.** Text-protocol noise (no ':') and any number of asynchronous ':A…' frames in
    front of a complete non-async frame are skipped; the frame's body is returned and exactly the bytes
    behind it stay pending. -/
theorem Vd.receiveResponseF_skip (segs : List (Bytes × Bytes)) (fuel : Nat) (σ : Vd) (noise body rest : Bytes)
    (hrf : σ.port.rFail = [])
    (hsegs : ∀ s ∈ segs, 58 ∉ s.1 ∧ 10 ∉ s.2)
    (hnoise : 58 ∉ noise) (hbody : 10 ∉ body) (hA : ¬ (body.headD 0 = 65 ∧ body ≠ []))
    (hp : σ.pending = (segs.map asyncSeg).flatten ++ noise ++ 58 :: body ++ 10 :: rest)
    (hf : segs.length < fuel) :
    ∃ σ', Vd.receiveResponseF fuel σ = (σ', some body) ∧ σ'.pending = rest ∧ σ.port.WEq σ'.port ∧ σ.CfgEq σ' ∧
      σ'.port.nF = σ.port.nF := by
  induction segs generalizing σ fuel with
  | nil =>
    cases fuel with
    | zero => omega
    | succ n =>
      unfold Vd.receiveResponseF
      simp only
      obtain ⟨σ1, e1, p1, w1, c1, f1⟩ := σ.recvUntil_complete 58 noise (body ++ 10 :: rest) hrf (by simpa using hp) hnoise
      rw [e1]; simp only
      obtain ⟨σ2, e2, p2, w2, c2, f2⟩ := σ1.recvUntil_complete 10 body rest (by rw [w1.2.2.2.2.1]; exact hrf) p1 hbody
      rw [e2]; simp only
      rw [if_neg hA]
      exact ⟨σ2, rfl, p2, w1.trans w2,
        ⟨c2.1.trans c1.1, c2.2.1.trans c1.2.1, c2.2.2.1.trans c1.2.2.1, c2.2.2.2.trans c1.2.2.2⟩, f2.trans f1⟩
  | cons s segs ih =>
    cases fuel with
    | zero => simp at hf
    | succ n =>
      obtain ⟨hs1, hs2⟩ := hsegs s (by simp)
      unfold Vd.receiveResponseF
      simp only
      have hp' : σ.pending = s.1 ++ 58 :: ((65 :: s.2) ++ 10 :: ((segs.map asyncSeg).flatten ++ noise ++ 58 :: body ++ 10 :: rest)) := by
        rw [hp]; simp [asyncSeg]
      obtain ⟨σ1, e1, p1, w1, c1, f1⟩ := σ.recvUntil_complete 58 s.1 _ hrf hp' hs1
      rw [e1]; simp only
      obtain ⟨σ2, e2, p2, w2, c2, f2⟩ := σ1.recvUntil_complete 10 (65 :: s.2) _ (by rw [w1.2.2.2.2.1]; exact hrf) p1
        (by intro hm; simp at hm; exact hs2 hm)
      rw [e2]; simp only
      rw [if_pos (by simp)]
      obtain ⟨σ3, e3, p3, w3, c3, f3⟩ := ih n σ2 (by rw [w2.2.2.2.2.1, w1.2.2.2.2.1]; exact hrf)
        (fun t ht => hsegs t (by simp [ht])) p2 (by simp at hf; omega)
      exact ⟨σ3, e3, p3, (w1.trans w2).trans w3,
        ⟨c3.1.trans (c2.1.trans c1.1), c3.2.1.trans (c2.2.1.trans c1.2.1), c3.2.2.1.trans (c2.2.2.1.trans c1.2.2.1),
         c3.2.2.2.trans (c2.2.2.2.trans c1.2.2.2)⟩, f3.trans (f2.trans f1)⟩

end Victron
