import Victron.Model.Proto
import Victron.Proofs.Proto
/- counting Reads: every Read pops a chunk the device sent, or fails and ends the attempt -/
namespace Victron

def chunkCount (r : List Bytes) : Nat := (r.filter (fun c => !c.isEmpty)).length

/-- chunks waiting in the port + chunks the device will still send in reply to the Write calls to come -/
def Port.credit (p : Port) : Nat := p.queue.length + ((p.replies.map chunkCount).drop p.nW).sum

/-- potential: reads done + credit -/
def Port.pot (p : Port) : Nat := p.nR + p.credit

theorem Port.read_pot (p : Port) :
    (p.read.2.isSome → p.read.1.pot = p.pot) ∧ (p.read.2 = none → p.read.1.pot = p.pot + 1) := by
  unfold Port.read Port.pot Port.credit
  by_cases h : p.nR ∈ p.rFail
  · simp [h]; omega
  · cases hq : p.queue with
    | nil => simp [h]; omega
    | cons c cs => simp [h]; omega

theorem Port.flush_pot (p : Port) : p.flush.pot ≤ p.pot := by
  unfold Port.flush Port.pot Port.credit
  by_cases h : p.nF ∈ p.fFail <;> simp [h]

theorem drop_sum (l : List Nat) (n : Nat) : l.getD n 0 + (l.drop (n + 1)).sum = (l.drop n).sum := by
  induction l generalizing n with
  | nil => simp
  | cons a t ih =>
    cases n with
    | zero => simp
    | succ m => simpa using ih m

theorem getD_map_chunkCount (l : List (List Bytes)) (n : Nat) :
    (l.map chunkCount).getD n 0 = chunkCount (l.getD n []) := by
  induction l generalizing n with
  | nil => simp [chunkCount]
  | cons a t ih =>
    cases n with
    | zero => simp
    | succ m => simpa using ih m

theorem Port.write_pot (p : Port) (b : Bytes) : (p.write b).1.pot ≤ p.pot := by
  have h1 := drop_sum (p.replies.map chunkCount) p.nW
  rw [getD_map_chunkCount] at h1
  by_cases h : p.nW ∈ p.wFail
  · have e : (p.write b).1 = { p with nW := p.nW + 1 } := by unfold Port.write; simp [h]
    rw [e]; simp only [Port.pot, Port.credit]; omega
  · have e1 : (p.write b).1.nR = p.nR := by unfold Port.write; simp [h]
    have e2 : (p.write b).1.nW = p.nW + 1 := by unfold Port.write; simp [h]
    have e3 : (p.write b).1.replies = p.replies := by unfold Port.write; simp [h]
    have e4 : (p.write b).1.queue.length = p.queue.length + chunkCount (p.replies.getD p.nW []) := by
      unfold Port.write; simp [h, chunkCount]
    simp only [Port.pot, Port.credit, e1, e2, e3, e4]
    omega

theorem Vd.write_pot (σ0 : Vd) (b : Bytes) : (σ0.write b).1.port.pot ≤ σ0.port.pot := by
  have := σ0.port.write_pot b
  have e : (σ0.write b).1.port = (σ0.port.write b).1 := by
    unfold Vd.write
    split
    rename_i p ok heq
    rw [heq]
    cases ok <;> rfl
  rw [e]; exact this

/-- `recvUntil`: the potential grows by one exactly when it fails on a failing Read -/
theorem Vd.recvUntilF_pot (fuel : Nat) (σ : Vd) (needle : Nat) :
    ((Vd.recvUntilF fuel σ needle).2.isSome → (Vd.recvUntilF fuel σ needle).1.port.pot = σ.port.pot) ∧
    ((Vd.recvUntilF fuel σ needle).1.port.pot ≤ σ.port.pot + 1) := by
  induction fuel generalizing σ with
  | zero =>
    unfold Vd.recvUntilF
    split <;> simp
  | succ n ih =>
    unfold Vd.recvUntilF
    split
    · simp
    · simp only
      have hr := σ.port.read_pot
      split
      · rename_i d hrd
        have hp : σ.port.read.1.pot = σ.port.pot := hr.1 (by rw [hrd]; rfl)
        have := ih { σ with port := σ.port.read.1, buf := σ.buf ++ d }
        simp only at this
        rw [hp] at this
        exact this
      · rename_i hrd
        have hp : σ.port.read.1.pot = σ.port.pot + 1 := hr.2 hrd
        simp [hp]

theorem Vd.recvUntil_pot (σ : Vd) (needle : Nat) :
    ((σ.recvUntil needle).2.isSome → (σ.recvUntil needle).1.port.pot = σ.port.pot) ∧
    ((σ.recvUntil needle).1.port.pot ≤ σ.port.pot + 1) :=
  Vd.recvUntilF_pot _ σ needle

theorem Vd.receiveResponseF_pot (fuel : Nat) (σ : Vd) : (Vd.receiveResponseF fuel σ).1.port.pot ≤ σ.port.pot + 1 := by
  induction fuel generalizing σ with
  | zero => simp [Vd.receiveResponseF]
  | succ n ih =>
    unfold Vd.receiveResponseF
    simp only
    have h1 := σ.recvUntil_pot 58
    split
    · exact h1.2
    · rename_i pre hr1
      have hp1 : (σ.recvUntil 58).1.port.pot = σ.port.pot := h1.1 (by rw [hr1]; rfl)
      have h2 := (σ.recvUntil 58).1.recvUntil_pot 10
      split
      · rw [← hp1]; exact h2.2
      · rename_i body hr2
        have hp2 := h2.1 (by rw [hr2]; rfl)
        split
        · have := ih ((σ.recvUntil 58).1.recvUntil 10).1; omega
        · simp; omega

theorem Vd.sendReceive_pot (σ : Vd) (idle : Bool) (cmd : Nat) (data : Bytes) :
    (σ.sendReceive idle cmd data).1.port.pot ≤ σ.port.pot + 1 := by
  unfold Vd.sendReceive
  simp only
  have h0 : (if idle = true then σ.flushReceiver else σ).port.pot ≤ σ.port.pot := by
    split
    · exact σ.port.flush_pot
    · exact Nat.le_refl _
  generalize (if idle = true then σ.flushReceiver else σ) = σ0 at h0
  have hw : (σ0.write (txFrame cmd data)).1.port.pot ≤ σ0.port.pot := σ0.write_pot _
  split
  · have := Vd.receiveResponseF_pot ((σ0.write (txFrame cmd data)).1.pending.length + 1) (σ0.write (txFrame cmd data)).1
    unfold Vd.receiveResponse
    omega
  · simp; omega

theorem Vd.veCommand_pot (σ : Vd) (idle : Bool) (cmd addr : Nat) : (σ.veCommand idle cmd addr).1.port.pot ≤ σ.port.pot + 1 := by
  have := σ.sendReceive_pot idle cmd (paramFor cmd addr)
  unfold Vd.veCommand; simp only; split <;> simpa using this

theorem veCommandGetL_pot (idles : List Bool) (σ : Vd) (addr : Nat) :
    (Vd.veCommandGetL idles σ addr).1.port.pot ≤ σ.port.pot + idles.length := by
  induction idles generalizing σ with
  | nil => simp [Vd.veCommandGetL]
  | cons i is ih =>
    have h1 := σ.veCommand_pot i 7 addr
    have h2 := ih (σ.veCommand i 7 addr).1
    unfold Vd.veCommandGetL
    simp only
    split
    · simp; omega
    · simp; omega
    · split <;> (simp; omega)

theorem veCommandGet_reads (σ : Vd) (idles : List Bool) (addr : Nat) :
    (σ.veCommandGet idles addr).1.port.nR ≤ σ.port.nR + σ.port.credit + 8 := by
  have := veCommandGetL_pot (idles8 idles) σ addr
  rw [idles8_length] at this
  unfold Vd.veCommandGet
  unfold Port.pot at this
  omega

end Victron
