import Victron.Proofs.Loop
/- Reads that deliver nothing (end of data, or an error): at most one per attempt, because the first one ends the attempt. -/
namespace Victron

theorem Port.read_nE (p : Port) :
    (p.read.2 = none → p.read.1.nE = p.nE + 1) ∧ (p.read.2 ≠ none → p.read.1.nE = p.nE) := by
  unfold Port.read
  split
  · simp
  · split <;> simp

theorem Vd.recvUntilF_nE (fuel : Nat) (σ : Vd) (needle : Nat) :
    ((Vd.recvUntilF fuel σ needle).2 ≠ none → (Vd.recvUntilF fuel σ needle).1.port.nE = σ.port.nE) ∧
    (Vd.recvUntilF fuel σ needle).1.port.nE ≤ σ.port.nE + 1 := by
  induction fuel generalizing σ with
  | zero =>
    unfold Vd.recvUntilF
    split <;> simp
  | succ n ih =>
    unfold Vd.recvUntilF
    split
    · simp
    · simp only
      have hr := σ.port.read_nE
      split
      · rename_i _ d hd
        have h1 : σ.port.read.2 ≠ none := by rw [hd]; simp
        have h2 : σ.port.read.1.nE = σ.port.nE := hr.2 h1
        have := ih { σ with port := σ.port.read.1, buf := σ.buf ++ d }
        simp only at this
        constructor
        · intro hs; rw [this.1 hs]; exact h2
        · rw [← h2]; exact this.2
      · rename_i _ hd
        have h2 : σ.port.read.1.nE = σ.port.nE + 1 := hr.1 hd
        simp [h2]

theorem Vd.recvUntil_nE (σ : Vd) (needle : Nat) :
    ((σ.recvUntil needle).2 ≠ none → (σ.recvUntil needle).1.port.nE = σ.port.nE) ∧ (σ.recvUntil needle).1.port.nE ≤ σ.port.nE + 1 :=
  Vd.recvUntilF_nE _ σ needle

theorem Vd.receiveResponseF_nE (fuel : Nat) (σ : Vd) : (Vd.receiveResponseF fuel σ).1.port.nE ≤ σ.port.nE + 1 := by
  induction fuel generalizing σ with
  | zero => simp [Vd.receiveResponseF]
  | succ n ih =>
    unfold Vd.receiveResponseF
    simp only
    have h1 := σ.recvUntil_nE 58
    cases hr1 : (σ.recvUntil 58).2 with
    | none => simp only; exact h1.2
    | some pre =>
      simp only
      have e1 : (σ.recvUntil 58).1.port.nE = σ.port.nE := h1.1 (by rw [hr1]; simp)
      have h2 := (σ.recvUntil 58).1.recvUntil_nE 10
      cases hr2 : ((σ.recvUntil 58).1.recvUntil 10).2 with
      | none => simp only; rw [← e1]; exact h2.2
      | some body =>
        simp only
        have e2 : ((σ.recvUntil 58).1.recvUntil 10).1.port.nE = σ.port.nE := by rw [h2.1 (by rw [hr2]; simp), e1]
        split
        · have := ih ((σ.recvUntil 58).1.recvUntil 10).1
          rw [e2] at this; exact this
        · rw [e2]; omega

theorem Vd.sendReceive_nE (σ : Vd) (idle : Bool) (cmd : Nat) (data : Bytes) :
    (σ.sendReceive idle cmd data).1.port.nE ≤ σ.port.nE + 1 := by
  unfold Vd.sendReceive
  simp only
  have h0 : (if idle = true then σ.flushReceiver else σ).port.nE = σ.port.nE := by
    split
    · unfold Vd.flushReceiver Port.flush; split <;> rfl
    · rfl
  generalize (if idle = true then σ.flushReceiver else σ) = σ0 at h0 ⊢
  have hw : (σ0.write (txFrame cmd data)).1.port.nE = σ0.port.nE := by
    unfold Vd.write Port.write; simp only; split <;> split <;> rfl
  split
  · have := Vd.receiveResponseF_nE ((σ0.write (txFrame cmd data)).1.pending.length + 1) (σ0.write (txFrame cmd data)).1
    unfold Vd.receiveResponse
    rw [hw, h0] at this; exact this
  · simp only; rw [hw, h0]; omega

theorem Vd.attempt_nE (σ : Vd) (idle : Bool) (addr : Nat) : (σ.attempt idle addr).1.port.nE ≤ σ.port.nE + 1 := by
  have h := σ.sendReceive_nE idle 7 (paramFor 7 addr)
  have e : (σ.attempt idle addr).1 = (σ.sendReceive idle 7 (paramFor 7 addr)).1 := by
    unfold Vd.attempt Vd.veCommand
    simp only
    cases (σ.sendReceive idle 7 (paramFor 7 addr)).2 with
    | none => rfl
    | some resp =>
      simp only
      cases parseResponse 7 resp with
      | panic => rfl
      | err e => rfl
      | ok raw => simp only; cases getStep addr raw <;> rfl
  rw [e]; exact h

theorem Vd.veCommandGetL_nE (idles : List Bool) (σ : Vd) (addr : Nat) :
    (Vd.veCommandGetL idles σ addr).1.port.nE ≤ σ.port.nE + idles.length := by
  induction idles generalizing σ with
  | nil => simp [Vd.veCommandGetL]
  | cons i is ih =>
    rw [Vd.veCommandGetL_cons]
    have hn := σ.attempt_nE i addr
    generalize σ.attempt i addr = c at hn
    obtain ⟨σ1, o⟩ := c
    cases o with
    | retry => simp only at hn ⊢; have := ih σ1; simp only [List.length_cons]; omega
    | done r => simp only at hn ⊢; simp only [List.length_cons]; omega

end Victron
