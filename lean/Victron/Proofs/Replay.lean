import Victron.Proofs.Scan
import Victron.Proofs.Logging
import Victron.Proofs.Loop
/-
  The I/O log replays (C18): what a successful exchange appends to the rx capture buffer is exactly the
  prefix of the pending stream it consumed, that prefix has the shape `receiveResponseF_skip` resynchronises
  over, and therefore a fresh driver on a port that answers the logged transmission with the logged
  reception finds the same response body.
-/
namespace Victron

/-- what a successful `recvUntil` appends to the rx capture -/
theorem Vd.recvUntilF_rx (fuel : Nat) (σ σ' : Vd) (needle : Nat) (pre : Bytes)
    (h : Vd.recvUntilF fuel σ needle = (σ', some pre)) :
    σ'.ioLog = σ.ioLog ∧ σ'.rxBuf = (if σ.ioLog then σ.rxBuf ++ pre ++ [needle] else σ.rxBuf) := by
  induction fuel generalizing σ with
  | zero =>
    unfold Vd.recvUntilF at h
    split at h
    · simp at h; obtain ⟨rfl, rfl⟩ := h; simp
    · simp at h
  | succ n ih =>
    unfold Vd.recvUntilF at h
    split at h
    · simp at h; obtain ⟨rfl, rfl⟩ := h; simp
    · simp only at h
      split at h
      · have := ih _ h; simpa using this
      · simp at h

theorem Vd.recvUntil_rx (σ σ' : Vd) (needle : Nat) (pre : Bytes) (h : σ.recvUntil needle = (σ', some pre)) :
    σ'.ioLog = σ.ioLog ∧ σ'.rxBuf = (if σ.ioLog then σ.rxBuf ++ pre ++ [needle] else σ.rxBuf) :=
  Vd.recvUntilF_rx _ σ σ' needle pre h

/-- A successful `receiveResponse`, with the I/O logger on, captured exactly the consumed prefix of the pending
    stream, and that prefix is: asynchronous frames behind noise, then noise, then the frame. -/
theorem Vd.receiveResponseF_consumed (fuel : Nat) (σ σ' : Vd) (body : Bytes) (hio : σ.ioLog = true)
    (h : Vd.receiveResponseF fuel σ = (σ', some body)) :
    ∃ (segs : List (Bytes × Bytes)) (noise : Bytes),
      (∀ s ∈ segs, 58 ∉ s.1 ∧ 10 ∉ s.2) ∧ 58 ∉ noise ∧ 10 ∉ body ∧ ¬ (body.headD 0 = 65 ∧ body ≠ []) ∧
      segs.length < fuel ∧
      σ.pending = ((segs.map asyncSeg).flatten ++ noise ++ 58 :: body ++ [10]) ++ σ'.pending ∧
      σ'.rxBuf = σ.rxBuf ++ ((segs.map asyncSeg).flatten ++ noise ++ 58 :: body ++ [10]) ∧ σ'.ioLog = true := by
  induction fuel generalizing σ with
  | zero => simp [Vd.receiveResponseF] at h
  | succ n ih =>
    unfold Vd.receiveResponseF at h
    simp only at h
    split at h; · simp at h
    rename_i _ pre1 h1
    split at h; · simp at h
    rename_i _ b2 h2
    have e1 := Vd.recvUntil_ok σ (σ.recvUntil 58).1 58 pre1 (by rw [← h1])
    have e2 := Vd.recvUntil_ok (σ.recvUntil 58).1 ((σ.recvUntil 58).1.recvUntil 10).1 10 b2 (by rw [← h2])
    have r1 := Vd.recvUntil_rx σ (σ.recvUntil 58).1 58 pre1 (by rw [← h1])
    have r2 := Vd.recvUntil_rx (σ.recvUntil 58).1 ((σ.recvUntil 58).1.recvUntil 10).1 10 b2 (by rw [← h2])
    generalize (σ.recvUntil 58).1 = σ1 at *
    generalize (σ1.recvUntil 10).1 = σ2 at *
    have io1 : σ1.ioLog = true := r1.1.trans hio
    have io2 : σ2.ioLog = true := r2.1.trans io1
    have rx2 : σ2.rxBuf = σ.rxBuf ++ pre1 ++ [58] ++ b2 ++ [10] := by
      rw [r2.2, io1, if_pos rfl, r1.2, hio, if_pos rfl]
    split at h
    · rename_i hA
      obtain ⟨segs, noise, hs, hn, hb, ha, hl, hp, hr, hi⟩ := ih σ2 io2 h
      -- the skipped frame is an async segment: its body starts with 'A'
      obtain ⟨t, rfl⟩ : ∃ t, b2 = 65 :: t := by
        cases b2 with
        | nil => exact absurd rfl hA.2
        | cons x t => exact ⟨t, by simpa using hA.1⟩
      have ht : 10 ∉ t := fun hm => e2.2 (by simp [hm])
      refine ⟨(pre1, t) :: segs, noise, ?_, hn, hb, ha, by simpa using hl, ?_, ?_, hi⟩
      · intro s hs'
        rcases List.mem_cons.mp hs' with rfl | hs'
        · exact ⟨e1.2, ht⟩
        · exact hs s hs'
      · rw [e1.1, e2.1, hp]; simp [asyncSeg]
      · rw [hr, rx2]; simp [asyncSeg]
    · rename_i hA
      simp at h; obtain ⟨rfl, rfl⟩ := h
      refine ⟨[], pre1, by simp, e1.2, e2.2, hA, by simp, ?_, ?_, io2⟩
      · rw [e1.1, e2.1]; simp
      · rw [rx2]; simp

theorem asyncSegs_length (segs : List (Bytes × Bytes)) : segs.length ≤ ((segs.map asyncSeg).flatten).length := by
  induction segs with
  | nil => simp
  | cons s segs ih =>
    have h1 : 1 ≤ (asyncSeg s).length := by simp [asyncSeg]; omega
    simp only [List.map_cons, List.flatten_cons, List.length_append, List.length_cons]
    omega

/-- a freshly constructed driver on a port that answers the first transmission with `rx` -/
def Vd.replayOf (rx : Bytes) (ioLog dbg : Bool) : Vd := { port := { replies := [[rx]] }, ioLog := ioLog, dbg := dbg }

/-- what matters of a replay driver before its first transmission -/
def Vd.ReplayReady (σ : Vd) (rx : Bytes) : Prop :=
  σ.port.queue = [] ∧ σ.buf = [] ∧ σ.port.nW = 0 ∧ σ.port.replies = [[rx]] ∧ σ.port.wFail = [] ∧ σ.port.rFail = []

theorem Vd.replayOf_ready (rx : Bytes) (io dbg : Bool) : (Vd.replayOf rx io dbg).ReplayReady rx :=
  ⟨rfl, rfl, rfl, rfl, rfl, rfl⟩

theorem Vd.ReplayReady.flush {σ : Vd} {rx : Bytes} (h : σ.ReplayReady rx) : σ.flushReceiver.ReplayReady rx := by
  obtain ⟨h1, h2, h3, h4, h5, h6⟩ := h
  unfold Vd.flushReceiver Port.flush
  split <;> exact ⟨by simp [h1], rfl, by simpa using h3, by simpa using h4, by simpa using h5, by simpa using h6⟩

/-- **Replay of one exchange.** If `sendReceive`, with the I/O logger on and an empty rx capture, obtained the
    response `body`, then a driver whose port answers the next transmission with the captured bytes
    obtains `body` as well — whatever its own logger configuration and idle state. -/
theorem Vd.sendReceive_replay (σ : Vd) (idle : Bool) (cmd : Nat) (data body : Bytes)
    (hio : σ.ioLog = true) (hrx : σ.rxBuf = [])
    (h : (σ.sendReceive idle cmd data).2 = some body) (σr : Vd)
    (hready : σr.ReplayReady (σ.sendReceive idle cmd data).1.rxBuf) (idle' : Bool) :
    (σr.sendReceive idle' cmd data).2 = some body := by
  -- the original run
  have key : ∃ (segs : List (Bytes × Bytes)) (noise : Bytes),
      (∀ s ∈ segs, 58 ∉ s.1 ∧ 10 ∉ s.2) ∧ 58 ∉ noise ∧ 10 ∉ body ∧ ¬ (body.headD 0 = 65 ∧ body ≠ []) ∧
      (σ.sendReceive idle cmd data).1.rxBuf = (segs.map asyncSeg).flatten ++ noise ++ 58 :: body ++ [10] := by
    unfold Vd.sendReceive at h ⊢
    simp only at h ⊢
    generalize hσ0 : (if idle = true then σ.flushReceiver else σ) = σ0 at h ⊢
    have io0 : σ0.ioLog = true := by subst hσ0; split <;> simp [Vd.flushReceiver, hio]
    have rx0 : σ0.rxBuf = [] := by subst hσ0; split <;> simp [Vd.flushReceiver, hrx]
    by_cases hw : (σ0.write (txFrame cmd data)).2 = true
    · rw [if_pos hw] at h ⊢
      have io1 : (σ0.write (txFrame cmd data)).1.ioLog = true := by
        unfold Vd.write; simp only; split <;> simp [io0]
      have rx1 : (σ0.write (txFrame cmd data)).1.rxBuf = [] := by
        unfold Vd.write; simp only; split <;> simp [rx0]
      generalize (σ0.write (txFrame cmd data)).1 = σ1 at h io1 rx1 ⊢
      obtain ⟨segs, noise, hs, hn, hb, ha, _, _, hr, _⟩ :=
        Vd.receiveResponseF_consumed _ σ1 σ1.receiveResponse.1 body io1 (by unfold Vd.receiveResponse at h ⊢; exact Prod.ext rfl h)
      rw [rx1, List.nil_append] at hr
      exact ⟨segs, noise, hs, hn, hb, ha, hr⟩
    · rw [if_neg hw] at h; simp at h
  obtain ⟨segs, noise, hs, hn, hb, ha, hr⟩ := key
  rw [hr] at hready
  generalize hc : (segs.map asyncSeg).flatten ++ noise ++ 58 :: body ++ [10] = consumed at hready
  have hne : consumed ≠ [] := by subst hc; simp
  -- the replay run
  unfold Vd.sendReceive
  simp only
  have hready' : (if idle' = true then σr.flushReceiver else σr).ReplayReady consumed := by
    split
    · exact hready.flush
    · exact hready
  generalize (if idle' = true then σr.flushReceiver else σr) = σa at hready'
  obtain ⟨q0, b0, w0, rp, wf, rf⟩ := hready'
  have hwr : (σa.write (txFrame cmd data)).2 = true ∧ (σa.write (txFrame cmd data)).1.pending = consumed ∧
      (σa.write (txFrame cmd data)).1.port.rFail = [] := by
    unfold Vd.write Port.write
    cases consumed with
    | nil => exact absurd rfl hne
    | cons c cs => simp [wf, w0, rp, q0, b0, rf, Vd.pending]
  rw [if_pos hwr.1]
  generalize (σa.write (txFrame cmd data)).1 = σb at hwr
  have hpr : σb.pending = (segs.map asyncSeg).flatten ++ noise ++ 58 :: body ++ 10 :: [] := by
    rw [hwr.2.1, ← hc]
  have hlen : segs.length < σb.pending.length + 1 := by
    have := asyncSegs_length segs
    rw [hpr]; simp only [List.length_append, List.length_cons]; omega
  obtain ⟨σ', e, _⟩ := Vd.receiveResponseF_skip segs (σb.pending.length + 1) σb noise body [] hwr.2.2 hs hn hb ha hpr hlen
  unfold Vd.receiveResponse
  rw [e]

/-- a successful exchange wrote exactly its command frame (and captured it, with the I/O logger on) -/
theorem Vd.sendReceive_tx_some (σ : Vd) (idle : Bool) (cmd : Nat) (data body : Bytes)
    (h : (σ.sendReceive idle cmd data).2 = some body) :
    σ.TxInv (σ.sendReceive idle cmd data).1 [txFrame cmd data] := by
  obtain ⟨fs, hfs, hinv⟩ := σ.sendReceive_tx idle cmd data
  rcases hfs with rfl | rfl
  · -- nothing written: the write failed, so there was no response
    exfalso
    have hw := hinv.1
    obtain ⟨k, _, hwr, _⟩ := σ.sendReceive_written idle cmd data
    rw [Vd.sendReceive_eq] at h hwr
    by_cases hok : σ.sendOk idle cmd data = true
    · -- the write succeeded, so one frame is in `written`
      rw [if_pos hok] at hwr
      have hweq := (σ.afterSend idle cmd data).receiveResponse_weq
      have hws := (if idle then σ.flushReceiver else σ).write_spec (txFrame cmd data)
      have hfl : (if idle = true then σ.flushReceiver else σ).port.written = σ.port.written := by
        split
        · simp [Vd.flushReceiver, (σ.port.flush_weq).1]
        · rfl
      unfold Vd.sendOk at hok
      rcases hws.2 with ⟨hf, _⟩ | ⟨_, hwt⟩
      · rw [hf] at hok; cases hok
      · have : (σ.sendReceive idle cmd data).1.port.written = txFrame cmd data :: σ.port.written := by
          rw [Vd.sendReceive_eq]
          unfold Vd.sendOk
          rw [if_pos hok, hweq.1]
          unfold Vd.afterSend
          rw [hwt, hfl]
        rw [this] at hw
        simp at hw
    · rw [if_neg hok] at h; simp at h
  · exact hinv

theorem Vd.veCommandGetL_nW_ge (idles : List Bool) (σ : Vd) (addr : Nat) :
    σ.port.nW + min 1 idles.length ≤ (Vd.veCommandGetL idles σ addr).1.port.nW := by
  induction idles generalizing σ with
  | nil => simp [Vd.veCommandGetL]
  | cons i is ih =>
    rw [Vd.veCommandGetL_cons]
    have hn := σ.attempt_nW i addr
    generalize σ.attempt i addr = c at hn
    obtain ⟨σ1, o⟩ := c
    cases o with
    | retry => simp only at hn ⊢; have := ih σ1; simp at this ⊢; omega
    | done r => simp only at hn ⊢; simp; omega

/-- a register access that handed exactly one frame to the port was decided by its first attempt -/
theorem Vd.single_exchange (i : Bool) (is : List Bool) (his : is ≠ []) (σ : Vd) (addr : Nat)
    (h : (Vd.veCommandGetL (i :: is) σ addr).1.port.nW = σ.port.nW + 1) :
    ∃ r, (σ.attempt i addr).2 = .done r ∧ Vd.veCommandGetL (i :: is) σ addr = ((σ.attempt i addr).1, r) := by
  rw [Vd.veCommandGetL_cons] at h ⊢
  have hn := σ.attempt_nW i addr
  generalize σ.attempt i addr = c at hn h ⊢
  obtain ⟨σ1, o⟩ := c
  cases o with
  | retry =>
    exfalso
    simp only at hn h
    have := Vd.veCommandGetL_nW_ge is σ1 addr
    have hl : 1 ≤ is.length := by cases is with | nil => exact absurd rfl his | cons _ _ => simp
    have : min 1 is.length = 1 := by omega
    omega
  | done r => exact ⟨r, rfl, rfl⟩

/-- an attempt that decided the access got a response from the port -/
theorem Vd.attempt_done_some (σ : Vd) (i : Bool) (addr : Nat) (r : R Bytes) (h : (σ.attempt i addr).2 = .done r) :
    ∃ body, (σ.sendReceive i 7 (paramFor 7 addr)).2 = some body ∧
      (σ.attempt i addr).1 = (σ.sendReceive i 7 (paramFor 7 addr)).1 ∧
      (∀ σr : Vd, ∀ i', (σr.sendReceive i' 7 (paramFor 7 addr)).2 = some body → (σr.attempt i' addr).2 = .done r) := by
  unfold Vd.attempt Vd.veCommand at h ⊢
  simp only at h ⊢
  cases hs : (σ.sendReceive i 7 (paramFor 7 addr)).2 with
  | none => rw [hs] at h; simp at h
  | some body =>
    rw [hs] at h
    refine ⟨body, rfl, ?_, ?_⟩
    · simp only
      cases parseResponse 7 body with
      | panic => rfl
      | err e => rfl
      | ok raw => simp only; cases getStep addr raw <;> rfl
    · intro σr i' hr
      rw [hr]
      simp only at h ⊢
      cases hp : parseResponse 7 body with
      | panic => rw [hp] at h; simpa using h
      | err e => rw [hp] at h; simp at h
      | ok raw =>
        rw [hp] at h
        simp only at h ⊢
        cases hg : getStep addr raw <;> rw [hg] at h <;> first | (simp at h; done) | simpa using h

/-- **Replay of a register access.** If `VeCommandGet`, with the I/O logger on and an empty rx capture, was
    decided in a single exchange, then on any driver whose port answers the next transmission with the captured
    bytes the access returns the same result. -/
theorem Vd.veCommandGetL_replay (i : Bool) (is : List Bool) (his : is ≠ []) (σ : Vd) (addr : Nat)
    (hio : σ.ioLog = true) (hrx : σ.rxBuf = [])
    (h : (Vd.veCommandGetL (i :: is) σ addr).1.port.nW = σ.port.nW + 1)
    (σr : Vd) (hready : σr.ReplayReady (Vd.veCommandGetL (i :: is) σ addr).1.rxBuf) (i' : Bool) (is' : List Bool) :
    (Vd.veCommandGetL (i' :: is') σr addr).2 = (Vd.veCommandGetL (i :: is) σ addr).2 ∧
    σ.TxInv (Vd.veCommandGetL (i :: is) σ addr).1 [tx 7 addr] := by
  obtain ⟨r, hdone, heq⟩ := Vd.single_exchange i is his σ addr h
  obtain ⟨body, hsome, hstate, hre⟩ := σ.attempt_done_some i addr r hdone
  rw [heq] at hready ⊢
  simp only at hready ⊢
  rw [hstate] at hready ⊢
  have hr := Vd.sendReceive_replay σ i 7 (paramFor 7 addr) body hio hrx hsome σr hready i'
  have hd := hre σr i' hr
  refine ⟨?_, by simpa [tx] using Vd.sendReceive_tx_some σ i 7 (paramFor 7 addr) body hsome⟩
  rw [Vd.veCommandGetL_cons]
  generalize σr.attempt i' addr = c at hd
  obtain ⟨σ1, o⟩ := c
  simp only at hd
  subst hd
  rfl

theorem idles8_cons (idles : List Bool) : ∃ i is, idles8 idles = i :: is ∧ is ≠ [] := by
  have := idles8_length idles
  match h : idles8 idles with
  | [] => simp [h] at this
  | [_] => simp [h] at this
  | i :: j :: is => exact ⟨i, j :: is, rfl, by simp⟩

end Victron
