import Victron.Model.Proto
/- structural lemmas about the driver model: what each layer does to the port's write side -/
namespace Victron

/-- what a sub-operation that never writes preserves -/
def Port.WEq (p q : Port) : Prop :=
  q.written = p.written ∧ q.nW = p.nW ∧ q.replies = p.replies ∧ q.wFail = p.wFail ∧ q.rFail = p.rFail ∧ q.fFail = p.fFail

theorem Port.WEq.refl (p : Port) : p.WEq p := ⟨rfl, rfl, rfl, rfl, rfl, rfl⟩
theorem Port.WEq.trans {p q r : Port} (h1 : p.WEq q) (h2 : q.WEq r) : p.WEq r := by
  obtain ⟨a1, a2, a3, a4, a5, a6⟩ := h1
  obtain ⟨b1, b2, b3, b4, b5, b6⟩ := h2
  exact ⟨b1.trans a1, b2.trans a2, b3.trans a3, b4.trans a4, b5.trans a5, b6.trans a6⟩

theorem Port.read_weq (p : Port) : p.WEq p.read.1 := by
  unfold Port.read
  split
  · exact ⟨rfl, rfl, rfl, rfl, rfl, rfl⟩
  · split <;> exact ⟨rfl, rfl, rfl, rfl, rfl, rfl⟩

theorem Port.flush_weq (p : Port) : p.WEq p.flush := by
  unfold Port.flush
  split <;> exact ⟨rfl, rfl, rfl, rfl, rfl, rfl⟩

theorem Vd.recvUntilF_weq (fuel : Nat) (σ : Vd) (needle : Nat) :
    σ.port.WEq (Vd.recvUntilF fuel σ needle).1.port := by
  induction fuel generalizing σ with
  | zero =>
    unfold Vd.recvUntilF
    split <;> exact Port.WEq.refl _
  | succ n ih =>
    unfold Vd.recvUntilF
    split
    · exact Port.WEq.refl _
    · simp only
      have hr := σ.port.read_weq
      split
      · rename_i d hd
        exact hr.trans (ih _)
      · exact hr

theorem Vd.recvUntil_weq (σ : Vd) (needle : Nat) : σ.port.WEq (σ.recvUntil needle).1.port :=
  Vd.recvUntilF_weq _ σ needle

theorem Vd.receiveResponseF_weq (fuel : Nat) (σ : Vd) : σ.port.WEq (Vd.receiveResponseF fuel σ).1.port := by
  induction fuel generalizing σ with
  | zero => exact Port.WEq.refl _
  | succ n ih =>
    unfold Vd.receiveResponseF
    simp only
    have h1 := σ.recvUntil_weq 58
    split
    · exact h1
    · have h2 := (σ.recvUntil 58).1.recvUntil_weq 10
      split
      · exact h1.trans h2
      · split
        · exact (h1.trans h2).trans (ih _)
        · exact h1.trans h2

theorem Vd.receiveResponse_weq (σ : Vd) : σ.port.WEq σ.receiveResponse.1.port :=
  Vd.receiveResponseF_weq _ σ

theorem Vd.write_spec (σ : Vd) (b : Bytes) :
    (σ.write b).1.port.nW = σ.port.nW + 1 ∧
    (((σ.write b).2 = false ∧ (σ.write b).1.port.written = σ.port.written) ∨
     ((σ.write b).2 = true ∧ (σ.write b).1.port.written = b :: σ.port.written)) := by
  have hm : σ.port.wFail.contains σ.port.nW = true ↔ σ.port.nW ∈ σ.port.wFail := by simp
  unfold Vd.write Port.write
  by_cases h : σ.port.nW ∈ σ.port.wFail
  · simp [h]
  · simp [h]

/-- `sendReceive` performs exactly one Write call; if it succeeds the frame `txFrame cmd data` is what was written. -/
theorem Vd.sendReceive_written (σ : Vd) (idle : Bool) (cmd : Nat) (data : Bytes) :
    ∃ k, k ≤ 1 ∧ (σ.sendReceive idle cmd data).1.port.written = List.replicate k (txFrame cmd data) ++ σ.port.written ∧
      (σ.sendReceive idle cmd data).1.port.nW = σ.port.nW + 1 := by
  unfold Vd.sendReceive
  simp only
  generalize hσ0 : (if idle = true then σ.flushReceiver else σ) = σ0
  have h0 : σ.port.WEq σ0.port := by
    subst hσ0; split
    · exact σ.port.flush_weq
    · exact Port.WEq.refl _
  obtain ⟨hn, hw⟩ := σ0.write_spec (txFrame cmd data)
  generalize hr : σ0.write (txFrame cmd data) = r at hn hw
  obtain ⟨σ1, ok⟩ := r
  simp only at hn hw ⊢
  rcases hw with ⟨hf, hw⟩ | ⟨ht, hw⟩
  · subst hf
    refine ⟨0, by omega, ?_, ?_⟩
    · simp [hw, h0.1]
    · simp [hn, h0.2.1]
  · subst ht
    have h1 := σ1.receiveResponse_weq
    refine ⟨1, by omega, ?_, ?_⟩
    · simp [h1.1, hw, h0.1]
    · simp [h1.2.1, hn, h0.2.1]

theorem veCommand_written (σ : Vd) (idle : Bool) (cmd addr : Nat) :
    ∃ k, k ≤ 1 ∧ (σ.veCommand idle cmd addr).1.port.written = List.replicate k (tx cmd addr) ++ σ.port.written ∧
      (σ.veCommand idle cmd addr).1.port.nW = σ.port.nW + 1 := by
  obtain ⟨k, hk, hw, hn⟩ := σ.sendReceive_written idle cmd (paramFor cmd addr)
  refine ⟨k, hk, ?_, ?_⟩
  · unfold Vd.veCommand; simp only; split <;> simpa [tx] using hw
  · unfold Vd.veCommand; simp only; split <;> simpa using hn

theorem replicate_append_replicate {α} (a : α) (m n : Nat) (l : List α) :
    List.replicate m a ++ (List.replicate n a ++ l) = List.replicate (m + n) a ++ l := by
  rw [← List.append_assoc, List.replicate_append_replicate]

theorem veCommandGetL_written (idles : List Bool) (σ : Vd) (addr : Nat) :
    ∃ k, k ≤ idles.length ∧
      (Vd.veCommandGetL idles σ addr).1.port.written = List.replicate k (tx 7 addr) ++ σ.port.written ∧
      (Vd.veCommandGetL idles σ addr).1.port.nW ≤ σ.port.nW + idles.length := by
  induction idles generalizing σ with
  | nil => exact ⟨0, by simp, by simp [Vd.veCommandGetL], by simp [Vd.veCommandGetL]⟩
  | cons idle idles ih =>
    obtain ⟨k1, hk1, hw1, hn1⟩ := veCommand_written σ idle 7 addr
    obtain ⟨k2, hk2, hw2, hn2⟩ := ih (σ.veCommand idle 7 addr).1
    have stop : ∃ k, k ≤ (idle :: idles).length ∧
        (σ.veCommand idle 7 addr).1.port.written = List.replicate k (tx 7 addr) ++ σ.port.written ∧
        (σ.veCommand idle 7 addr).1.port.nW ≤ σ.port.nW + (idle :: idles).length :=
      ⟨k1, by simp; omega, hw1, by simp; omega⟩
    have go : ∃ k, k ≤ (idle :: idles).length ∧
        (Vd.veCommandGetL idles (σ.veCommand idle 7 addr).1 addr).1.port.written
          = List.replicate k (tx 7 addr) ++ σ.port.written ∧
        (Vd.veCommandGetL idles (σ.veCommand idle 7 addr).1 addr).1.port.nW ≤ σ.port.nW + (idle :: idles).length := by
      refine ⟨k2 + k1, by simp; omega, ?_, by simp; omega⟩
      rw [hw2, hw1, replicate_append_replicate]
    unfold Vd.veCommandGetL
    simp only
    split
    · exact stop
    · exact go
    · split
      · exact go
      · exact stop
      · exact stop
      · exact stop

theorem idles8_length (idles : List Bool) : (idles8 idles).length = 8 := by
  simp [idles8, numbTries]

theorem veCommandGet_written (σ : Vd) (idles : List Bool) (addr : Nat) :
    ∃ k, k ≤ 8 ∧
      (σ.veCommandGet idles addr).1.port.written = List.replicate k (tx 7 addr) ++ σ.port.written ∧
      (σ.veCommandGet idles addr).1.port.nW ≤ σ.port.nW + 8 := by
  have := veCommandGetL_written (idles8 idles) σ addr
  rw [idles8_length] at this
  exact this

end Victron
