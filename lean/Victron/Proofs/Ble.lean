import Lean
import Victron.Model.Ble
import Victron.Spec.BleLayouts
/- proof infrastructure for the decoder theorems `Gen.Ble.decodeX inp spare = BleSpec.decode layoutX inp` -/
namespace Victron.Ble
open Victron

theorem ite_panic {α} (c : Prop) [Decidable c] (x : R α) (h : ¬ c) : (if c then R.panic else x) = x := if_neg h
theorem ite_short {α} (c : Prop) [Decidable c] (x : R α) (h : ¬ c) : (if c then R.err Err.tooShort else x) = x := if_neg h
/-- a factory that is not an enumeration (a field-list factory) never rejects -/
theorem enumOk_of_none (enums : List EnumTable) (name : String) (v : Int)
    (h : enums.find? (fun T => T.name == name) = none) : enumOk enums name v = true := by
  simp [enumOk, h]

theorem fvnum_congr (a b : Int) (m d : Nat) (o : String) (h : a = b) : FV.num a m d o = FV.num b m d o := by rw [h]

/-- `(if P then num a else nan) = (if Q then nan else num b)`: the not-available test agrees and so does the value -/
theorem fv_ite (P Q : Prop) [Decidable P] [Decidable Q] (a b : Int) (m d : Nat) (o : String)
    (h1 : P ↔ ¬ Q) (h2 : ¬ Q → a = b) :
    (if P then FV.num a m d o else FV.nan) = (if Q then FV.nan else FV.num b m d o) := by
  by_cases hq : Q
  · have : ¬ P := fun hp => (h1.mp hp) hq
    simp [hq, this]
  · have : P := h1.mpr hq
    simp [hq, this, h2 hq]

open Lean Elab Tactic Meta in
/-- drop every hypothesis that mentions a variable the goal does not mention: `omega` degrades badly when the
    context holds bounds for a dozen unrelated bytes -/
elab "clear_unrelated" : tactic =>
  liftMetaTactic fun g => g.withContext do
    let t ← instantiateMVars (← g.getType)
    let gset := (collectFVars {} t).fvarSet
    let mut g := g
    for d in (← getLCtx) do
      if d.isImplementationDetail then continue
      let ty ← instantiateMVars d.type
      if (← isProp ty) then
        let s := (collectFVars {} ty).fvarSet
        if !(s.toList.all gset.contains) then
          g ← g.clear d.fvarId
    return [g]

/-- closes one field goal: both sides are nests of `if`s over linear byte arithmetic -/
macro "ble_field" : tactic => `(tactic| (
  clear_unrelated
  try simp only [List.contains_cons, List.contains_nil, Bool.or_false, Bool.or_eq_true, beq_iff_eq, wrapS, wrapU, sx,
    Nat.reducePow, Nat.reduceSub, Int.reducePow]
  first
    | omega
    | (refine fv_ite _ _ _ _ _ _ _ (by omega) (by intro _; omega))
    | ((repeat' split) <;> first | (exfalso; omega) | (apply fvnum_congr; omega) | omega | (with_reducible rfl))))

theorem exists10 (l : Bytes) (h : ¬ l.length < 10) : ∃ b0 b1 b2 b3 b4 b5 b6 b7 b8 b9 rest, l = b0::b1::b2::b3::b4::b5::b6::b7::b8::b9::rest := by
  match l, h with
  | b0::b1::b2::b3::b4::b5::b6::b7::b8::b9::rest, _ => exact ⟨b0,b1,b2,b3,b4,b5,b6,b7,b8,b9,rest,rfl⟩
  | [], h | [_], h | [_,_], h | [_,_,_], h | [_,_,_,_], h | [_,_,_,_,_], h | [_,_,_,_,_,_], h | [_,_,_,_,_,_,_], h
  | [_,_,_,_,_,_,_,_], h | [_,_,_,_,_,_,_,_,_], h => simp at h

theorem exists11 (l : Bytes) (h : ¬ l.length < 11) : ∃ b0 b1 b2 b3 b4 b5 b6 b7 b8 b9 b10 rest, l = b0::b1::b2::b3::b4::b5::b6::b7::b8::b9::b10::rest := by
  obtain ⟨b0,b1,b2,b3,b4,b5,b6,b7,b8,b9,r,rfl⟩ := exists10 l (by omega)
  match r, h with
  | b10::rest, _ => exact ⟨b0,b1,b2,b3,b4,b5,b6,b7,b8,b9,b10,rest,rfl⟩
  | [], h => simp at h

theorem exists12 (l : Bytes) (h : ¬ l.length < 12) : ∃ b0 b1 b2 b3 b4 b5 b6 b7 b8 b9 b10 b11 rest, l = b0::b1::b2::b3::b4::b5::b6::b7::b8::b9::b10::b11::rest := by
  obtain ⟨b0,b1,b2,b3,b4,b5,b6,b7,b8,b9,b10,r,rfl⟩ := exists11 l (by omega)
  match r, h with
  | b11::rest, _ => exact ⟨b0,b1,b2,b3,b4,b5,b6,b7,b8,b9,b10,b11,rest,rfl⟩
  | [], h => simp at h

theorem exists13 (l : Bytes) (h : ¬ l.length < 13) : ∃ b0 b1 b2 b3 b4 b5 b6 b7 b8 b9 b10 b11 b12 rest, l = b0::b1::b2::b3::b4::b5::b6::b7::b8::b9::b10::b11::b12::rest := by
  obtain ⟨b0,b1,b2,b3,b4,b5,b6,b7,b8,b9,b10,b11,r,rfl⟩ := exists12 l (by omega)
  match r, h with
  | b12::rest, _ => exact ⟨b0,b1,b2,b3,b4,b5,b6,b7,b8,b9,b10,b11,b12,rest,rfl⟩
  | [], h => simp at h

theorem exists14 (l : Bytes) (h : ¬ l.length < 14) : ∃ b0 b1 b2 b3 b4 b5 b6 b7 b8 b9 b10 b11 b12 b13 rest, l = b0::b1::b2::b3::b4::b5::b6::b7::b8::b9::b10::b11::b12::b13::rest := by
  obtain ⟨b0,b1,b2,b3,b4,b5,b6,b7,b8,b9,b10,b11,b12,r,rfl⟩ := exists13 l (by omega)
  match r, h with
  | b13::rest, _ => exact ⟨b0,b1,b2,b3,b4,b5,b6,b7,b8,b9,b10,b11,b12,b13,rest,rfl⟩
  | [], h => simp at h

theorem exists15 (l : Bytes) (h : ¬ l.length < 15) : ∃ b0 b1 b2 b3 b4 b5 b6 b7 b8 b9 b10 b11 b12 b13 b14 rest, l = b0::b1::b2::b3::b4::b5::b6::b7::b8::b9::b10::b11::b12::b13::b14::rest := by
  obtain ⟨b0,b1,b2,b3,b4,b5,b6,b7,b8,b9,b10,b11,b12,b13,r,rfl⟩ := exists14 l (by omega)
  match r, h with
  | b14::rest, _ => exact ⟨b0,b1,b2,b3,b4,b5,b6,b7,b8,b9,b10,b11,b12,b13,b14,rest,rfl⟩
  | [], h => simp at h

theorem exists16 (l : Bytes) (h : ¬ l.length < 16) : ∃ b0 b1 b2 b3 b4 b5 b6 b7 b8 b9 b10 b11 b12 b13 b14 b15 rest, l = b0::b1::b2::b3::b4::b5::b6::b7::b8::b9::b10::b11::b12::b13::b14::b15::rest := by
  obtain ⟨b0,b1,b2,b3,b4,b5,b6,b7,b8,b9,b10,b11,b12,b13,b14,r,rfl⟩ := exists15 l (by omega)
  match r, h with
  | b15::rest, _ => exact ⟨b0,b1,b2,b3,b4,b5,b6,b7,b8,b9,b10,b11,b12,b13,b14,b15,rest,rfl⟩
  | [], h => simp at h

end Victron.Ble
