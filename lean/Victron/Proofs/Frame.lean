import Victron.Model.Frame
import Victron.Proofs.Hex
/- pure facts about `parseResponse` and `getStep` -/
namespace Victron

/-- Exactly what `VeCommand` accepts: a body `c :: digits` of at least 7 characters whose first character
    parses (as a hex nibble, anything else counting as 0) to the expected response type, followed by an
    even number of hex digits decoding to `values ++ [ck]` with type, values and check byte summing to 0x55. -/
structure ValidBody (cmd : Nat) (resp : Bytes) (values : Bytes) (ck : Nat) : Prop where
  len : 7 ≤ resp.length
  nibble : (unhexDigit (resp.headD 0)).getD 0 = responseFor cmd
  even : resp.tail.length % 2 = 0
  hex : unhex resp.tail = some (values ++ [ck])
  sum : checksum (responseFor cmd) values = ck

theorem unhexDigit_lt {c x : Nat} (h : unhexDigit c = some x) : x < 16 := by
  unfold unhexDigit at h
  split at h
  · simp at h; omega
  · split at h
    · simp at h; omega
    · split at h
      · simp at h; omega
      · simp at h

theorem unhex_length : ∀ {ds bs : Bytes}, unhex ds = some bs → ds.length = 2 * bs.length
  | [], bs, h => by simp [unhex] at h; subst h; rfl
  | [_], bs, h => by simp [unhex] at h
  | a :: b :: rest, bs, h => by
    simp only [unhex] at h
    cases hx : unhexDigit a <;> cases hy : unhexDigit b <;> cases hr : unhex rest <;> simp [hx, hy, hr] at h
    subst h
    have := unhex_length hr
    simp; omega

theorem unhex_isBytes : ∀ {ds bs : Bytes}, unhex ds = some bs → IsBytes bs
  | [], bs, h => by simp [unhex] at h; subst h; exact IsBytes.nil
  | [_], bs, h => by simp [unhex] at h
  | a :: b :: rest, bs, h => by
    simp only [unhex] at h
    cases hx : unhexDigit a <;> cases hy : unhexDigit b <;> cases hr : unhex rest <;> simp [hx, hy, hr] at h
    subst h
    have h1 := unhexDigit_lt hx
    have h2 := unhexDigit_lt hy
    exact IsBytes.cons (by omega) (unhex_isBytes hr)

theorem dropLast_append_of_getLast? {l : Bytes} {ck : Nat} (h : l.getLast? = some ck) : l.dropLast ++ [ck] = l := by
  obtain ⟨ys, rfl⟩ := List.getLast?_eq_some_iff.mp h
  simp

/-- `parseResponse` accepts exactly the valid bodies and returns their payload (check byte in the spare capacity). -/
theorem parseResponse_ok_iff (cmd : Nat) (resp : Bytes) (s : Slice) :
    parseResponse cmd resp = .ok s ↔ ∃ ck, s = ⟨s.data, [ck]⟩ ∧ ValidBody cmd resp s.data ck := by
  unfold parseResponse
  constructor
  · intro h
    split at h; · simp at h
    rename_i hlen
    simp only at h
    split at h; · simp at h
    rename_i hnib
    split at h; · simp at h
    rename_i heven
    split at h; · simp at h
    rename_i bin hbin
    split at h; · simp at h
    rename_i ck hlast
    split at h; · simp at h
    rename_i hck
    have hnib' : (unhexDigit (resp.headD 0)).getD 0 = responseFor cmd := (Decidable.of_not_not hnib).symm
    have hck' : checksum ((unhexDigit (resp.headD 0)).getD 0) bin.dropLast = ck := Decidable.of_not_not hck
    have hbin' : bin.dropLast ++ [ck] = bin := dropLast_append_of_getLast? hlast
    injection h with h
    refine ⟨ck, ?_, ⟨by omega, hnib', by omega, ?_, ?_⟩⟩
    · rw [← h]
    · rw [← h]; simp only; rw [hbin']; exact hbin
    · rw [← h]; simp only; rw [← hnib']; exact hck'
  · rintro ⟨ck, hs, hv⟩
    have h1 : ¬ resp.length < 7 := by have := hv.len; omega
    have h2 : ¬ responseFor cmd ≠ (unhexDigit (resp.headD 0)).getD 0 := by
      intro hne; exact hne hv.nibble.symm
    have h3 : ¬ resp.tail.length % 2 ≠ 0 := by
      intro hne; exact hne hv.even
    rw [if_neg h1]
    simp only
    rw [if_neg h2, if_neg h3, hv.hex]
    simp only
    have hl : (s.data ++ [ck]).getLast? = some ck := by simp
    rw [hl]
    simp only
    have hd : (s.data ++ [ck]).dropLast = s.data := by simp
    rw [hd, hv.nibble]
    have h4 : ¬ checksum (responseFor cmd) s.data ≠ ck := by
      intro hne; exact hne hv.sum
    rw [if_neg h4, hs]

theorem responseFor_lt (cmd : Nat) : responseFor cmd < 16 := by
  unfold responseFor
  repeat (first | omega | split)

/-- with a body of at least 7 characters `parseResponse` never panics -/
theorem parseResponse_ne_panic (cmd : Nat) (resp : Bytes) : parseResponse cmd resp ≠ .panic := by
  unfold parseResponse
  split; · simp
  rename_i hlen
  simp only
  split; · simp
  split; · simp
  split; · simp
  rename_i bin hbin
  have hl := unhex_length hbin
  have : bin ≠ [] := by
    intro hb; subst hb
    simp at hl
    have : resp.length ≤ 1 := by
      cases resp with
      | nil => simp
      | cons a t => simp at hl; simp [hl]
    omega
  split
  · rename_i hnone
    simp [List.getLast?_eq_none_iff] at hnone
    exact absurd hnone this
  · split <;> simp

/-- an accepted body has at least two payload bytes -/
theorem ValidBody.two_le {cmd : Nat} {resp values : Bytes} {ck : Nat} (h : ValidBody cmd resp values ck) :
    2 ≤ values.length := by
  have h1 := unhex_length h.hex
  have h2 := h.len
  have : resp.tail.length = resp.length - 1 := by simp
  simp at h1; omega

theorem ValidBody.isBytes {cmd : Nat} {resp values : Bytes} {ck : Nat} (h : ValidBody cmd resp values ck) :
    IsBytes values ∧ ck < 256 := by
  have := unhex_isBytes h.hex
  exact ⟨this.of_append_left, (this.of_append_right).head⟩

/-- command type, payload and check byte of an accepted body sum to 0x55 -/
theorem ValidBody.sum55 {cmd : Nat} {resp values : Bytes} {ck : Nat} (h : ValidBody cmd resp values ck) :
    (responseFor cmd + values.sum + ck) % 256 = 0x55 := by
  have hb := h.isBytes.1
  have := checksum_sum (responseFor cmd) values hb
  rw [h.sum] at this
  have hr : responseFor cmd < 256 := by have := responseFor_lt cmd; omega
  rw [Nat.mod_eq_of_lt hr] at this
  exact this

/-! `getStep` -/

theorem leUint_two (a b : Nat) : leUint [a, b] = a + 256 * b := by simp [leUint, leNat]
theorem leUint_one (a : Nat) : leUint [a] = a := by simp [leUint, leNat]

/-- `getStep` on a payload of at least three bytes (spare capacity irrelevant) -/
theorem getStep_cons (addr a b f : Nat) (v spare : Bytes) :
    getStep addr ⟨a :: b :: f :: v, spare⟩ =
      if addr ≠ (a + 256 * b) % 65536 then .retry else
      match flagError (f % 256) with
      | some e => .fail e
      | none => .value v := by
  have h1 : ¬ (List.length (a :: b :: f :: v) < 3) := by simp
  have h2 : (0 ≤ 2 ∧ 2 ≤ (a :: b :: f :: v).length + spare.length) := by simp; omega
  have h3 : (2 ≤ 3 ∧ 3 ≤ (a :: b :: f :: v).length + spare.length) := by simp; omega
  have h4 : 3 ≤ (a :: b :: f :: v).length := by simp
  unfold getStep Slice.slice Slice.sliceFrom
  simp only [h1, h2, h3, h4, if_true, if_false, and_self]
  have e1 : (List.take 2 (a :: b :: f :: v ++ spare)).drop 0 = [a, b] := by simp
  have e2 : (List.take 3 (a :: b :: f :: v ++ spare)).drop 2 = [f] := by simp
  have e3 : List.drop 3 (a :: b :: f :: v) = v := by simp
  simp only [e1, e2, e3, leUint_two, leUint_one]
  split
  · rfl
  · split <;> (rename_i hq; rw [hq])

theorem getStep_short (addr : Nat) (raw : Slice) (h : raw.data.length < 3) : getStep addr raw = .retry := by
  unfold getStep; simp [h]

theorem flagError_none_iff (f : Nat) : flagError f = none ↔ f = 0 := by
  unfold flagError
  constructor
  · intro h
    split at h; · assumption
    split at h; · simp at h
    split at h; · simp at h
    split at h <;> simp at h
  · intro h; simp [h]

/-- a value comes only from payload `addr_lo addr_hi 00 value` -/
theorem getStep_value (addr : Nat) (haddr : addr < 65536) (raw : Slice) (hb : IsBytes raw.data) (v : Bytes)
    (h : getStep addr raw = .value v) : raw.data = [addr % 256, addr / 256 % 256, 0] ++ v := by
  obtain ⟨data, spare⟩ := raw
  match data, hb with
  | [], _ => simp [getStep] at h
  | [_], _ => simp [getStep] at h
  | [_, _], _ => simp [getStep] at h
  | a :: b :: f :: rest, hb =>
    have ha : a < 256 := hb a (by simp)
    have hb' : b < 256 := hb b (by simp)
    have hf : f < 256 := hb f (by simp)
    rw [getStep_cons addr a b f rest spare, Nat.mod_eq_of_lt hf] at h
    split at h; · simp at h
    rename_i haddr'
    split at h; · simp at h
    rename_i hflag
    simp at h; subst h
    have hf0 := (flagError_none_iff f).mp hflag
    simp at haddr'
    simp; omega

/-- never a panic, whatever the payload (the length guard comes first) -/
theorem getStep_ne_panic (addr : Nat) (raw : Slice) : getStep addr raw ≠ .panic := by
  obtain ⟨data, spare⟩ := raw
  match data with
  | [] => simp [getStep]
  | [_] => simp [getStep]
  | [_, _] => simp [getStep]
  | a :: b :: f :: rest =>
    rw [getStep_cons]
    split; · simp
    split <;> simp

theorem wire_flag' (addr : Nat) (haddr : addr < 65536) (flag : Nat) (hflag : flag < 256) (payload : Bytes) (hp : IsBytes payload) :
    ∃ ck, parseResponse 7 (getResponseBody addr flag payload) = .ok ⟨[addr % 256, addr / 256 % 256, flag] ++ payload, [ck]⟩ ∧
      getStep addr ⟨[addr % 256, addr / 256 % 256, flag] ++ payload, [ck]⟩ =
        (match flagError flag with | some e => .fail e | none => .value payload) := by
  refine ⟨checksum 7 ([addr % 256, addr / 256 % 256, flag] ++ payload), ?_, ?_⟩
  · rw [parseResponse_ok_iff]
    refine ⟨_, rfl, ?_⟩
    have hv : IsBytes ([addr % 256, addr / 256 % 256, flag] ++ payload) :=
      IsBytes.append (by intro b hb; simp at hb; omega) hp
    have hall : IsBytes (([addr % 256, addr / 256 % 256, flag] ++ payload) ++ [checksum 7 ([addr % 256, addr / 256 % 256, flag] ++ payload)]) :=
      hv.append (IsBytes.cons (checksum_lt _ _) IsBytes.nil)
    have hbody : getResponseBody addr flag payload =
        hexDigit 7 :: hexBytes (([addr % 256, addr / 256 % 256, flag] ++ payload) ++ [checksum 7 ([addr % 256, addr / 256 % 256, flag] ++ payload)]) := by
      simp [getResponseBody, hexBytes_append, hexBytes, List.flatMap_cons]
    refine ⟨?_, ?_, ?_, ?_, ?_⟩
    · rw [hbody]; simp [hexBytes_length]; omega
    · rw [hbody]; simp [unhexDigit_hexDigit, responseFor]
    · rw [hbody]; simp [hexBytes_length]
    · rw [hbody]; simp only [List.tail_cons]; exact unhex_hexBytes hall
    · rfl
  · simp only [List.cons_append, List.nil_append]
    rw [getStep_cons]
    have : ¬ addr ≠ (addr % 256 + 256 * (addr / 256 % 256)) % 65536 := by omega
    rw [if_neg this, Nat.mod_eq_of_lt hflag]



theorem wire_roundtrip' (addr : Nat) (haddr : addr < 65536) (payload : Bytes) (hp : IsBytes payload) :
    ∃ ck, parseResponse 7 (getResponseBody addr 0 payload) = .ok ⟨[addr % 256, addr / 256 % 256, 0] ++ payload, [ck]⟩ ∧
      getStep addr ⟨[addr % 256, addr / 256 % 256, 0] ++ payload, [ck]⟩ = .value payload := by
  obtain ⟨ck, h1, h2⟩ := wire_flag' addr haddr 0 (by omega) payload hp
  exact ⟨ck, h1, by rw [h2]; rfl⟩

end Victron
