import Victron.Model.Text
/- strings.TrimSpace (Model/Text.lean) removes exactly a string of white-space runes at each end -/
namespace Victron

theorem spaceSeqs_nonempty : ∀ p ∈ spaceSeqs, p ≠ [] := by decide

theorem stripPrefix?_some {p s rest : Bytes} (h : stripPrefix? p s = some rest) : s = p ++ rest := by
  unfold stripPrefix? at h
  split at h
  · rename_i hp
    simp at h; subst h
    exact (List.prefix_iff_eq_append.mp (List.isPrefixOf_iff_prefix.mp hp)).symm
  · simp at h

theorem stripPrefix?_none {p s : Bytes} (h : stripPrefix? p s = none) : ¬ p <+: s := by
  unfold stripPrefix? at h
  split at h
  · simp at h
  · rename_i hp; intro hh; exact hp (List.isPrefixOf_iff_prefix.mpr hh)

/-- a string of white-space runes -/
def IsSpaces (a : Bytes) : Prop := ∃ ws : List Bytes, (∀ w ∈ ws, w ∈ spaceSeqs) ∧ a = ws.flatten

theorem IsSpaces.nil : IsSpaces [] := ⟨[], by simp, rfl⟩
theorem IsSpaces.cons {p a : Bytes} (hp : p ∈ spaceSeqs) (ha : IsSpaces a) : IsSpaces (p ++ a) := by
  obtain ⟨ws, h1, rfl⟩ := ha
  exact ⟨p :: ws, by intro w hw; rcases List.mem_cons.mp hw with rfl | hw; exact hp; exact h1 w hw, by simp⟩

/-- no white-space rune at the front -/
def NoLeadingSpace (s : Bytes) : Prop := ∀ p ∈ spaceSeqs, ¬ p <+: s

theorem trimLeft_spec (fuel : Nat) (s : Bytes) (hf : s.length ≤ fuel) :
    ∃ a, IsSpaces a ∧ s = a ++ trimLeft fuel s ∧ NoLeadingSpace (trimLeft fuel s) := by
  induction fuel generalizing s with
  | zero =>
    have : s = [] := List.length_eq_zero_iff.mp (by omega)
    subst this
    refine ⟨[], IsSpaces.nil, by simp [trimLeft], ?_⟩
    intro p hp hpre
    have := spaceSeqs_nonempty p hp
    simp [trimLeft] at hpre
    exact this hpre
  | succ n ih =>
    unfold trimLeft
    cases hfs : spaceSeqs.findSome? (fun p => stripPrefix? p s) with
    | some rest =>
      obtain ⟨p, hp, hps⟩ := List.exists_of_findSome?_eq_some hfs
      have hs := stripPrefix?_some hps
      have hne := spaceSeqs_nonempty p hp
      have hlen : rest.length ≤ n := by
        have : s.length = p.length + rest.length := by rw [hs]; simp
        have : 0 < p.length := List.length_pos_iff.mpr hne
        omega
      obtain ⟨a, ha, hr, hno⟩ := ih rest hlen
      refine ⟨p ++ a, IsSpaces.cons hp ha, ?_, hno⟩
      simp only
      rw [List.append_assoc, ← hr]; exact hs
    | none =>
      refine ⟨[], IsSpaces.nil, by simp, ?_⟩
      intro p hp
      have := List.findSome?_eq_none_iff.mp hfs p hp
      exact stripPrefix?_none this

end Victron

namespace Victron

theorem IsSpaces.append {a b : Bytes} (ha : IsSpaces a) (hb : IsSpaces b) : IsSpaces (a ++ b) := by
  obtain ⟨wa, h1, rfl⟩ := ha
  obtain ⟨wb, h2, rfl⟩ := hb
  exact ⟨wa ++ wb, by intro w hw; rcases List.mem_append.mp hw with hw | hw; exact h1 w hw; exact h2 w hw, by simp⟩

/-- no white-space rune at the end -/
def NoTrailingSpace (s : Bytes) : Prop := ∀ p ∈ spaceSeqs, ¬ p <:+ s

theorem trimGo_spec (fuel : Nat) (t : Bytes) (hf : t.length ≤ fuel) :
    ∃ a, IsSpaces a ∧ t = a.reverse ++ trimSpace.go fuel t ∧ (∀ p ∈ spaceSeqs, ¬ p.reverse <+: trimSpace.go fuel t) := by
  induction fuel generalizing t with
  | zero =>
    have : t = [] := List.length_eq_zero_iff.mp (by omega)
    subst this
    refine ⟨[], IsSpaces.nil, by simp [trimSpace.go], ?_⟩
    intro p hp hpre
    have := spaceSeqs_nonempty p hp
    simp [trimSpace.go] at hpre
    exact this hpre
  | succ n ih =>
    unfold trimSpace.go
    cases hfs : spaceSeqs.findSome? (fun p => stripPrefix? p.reverse t) with
    | some rest =>
      obtain ⟨p, hp, hps⟩ := List.exists_of_findSome?_eq_some hfs
      have hs := stripPrefix?_some hps
      have hne := spaceSeqs_nonempty p hp
      have hlen : rest.length ≤ n := by
        have : t.length = p.length + rest.length := by rw [hs]; simp
        have : 0 < p.length := List.length_pos_iff.mpr hne
        omega
      obtain ⟨a, ha, hr, hno⟩ := ih rest hlen
      refine ⟨a ++ p, IsSpaces.append ha (by simpa using IsSpaces.cons hp IsSpaces.nil), ?_, hno⟩
      simp only
      rw [List.reverse_append, List.append_assoc, ← hr]; exact hs
    | none =>
      refine ⟨[], IsSpaces.nil, by simp, ?_⟩
      intro p hp
      have := List.findSome?_eq_none_iff.mp hfs p hp
      exact stripPrefix?_none this

/-- **`strings.TrimSpace`.** The result is the input with a string of white-space runes removed at each end,
    and it neither starts nor ends with a white-space rune. -/
theorem trimSpace_spec (s : Bytes) :
    ∃ a b, IsSpaces a ∧ IsSpaces b ∧ s = a ++ trimSpace s ++ b ∧
      NoLeadingSpace (trimSpace s) ∧ NoTrailingSpace (trimSpace s) := by
  obtain ⟨a, ha, hs, hnl⟩ := trimLeft_spec s.length s (Nat.le_refl _)
  obtain ⟨b, hb, hr, hnt⟩ := trimGo_spec (trimLeft s.length s).reverse.length (trimLeft s.length s).reverse (Nat.le_refl _)
  have ht : trimSpace s = (trimSpace.go (trimLeft s.length s).reverse.length (trimLeft s.length s).reverse).reverse := rfl
  have hl : trimLeft s.length s = trimSpace s ++ b := by
    have := congrArg List.reverse hr
    rw [List.reverse_reverse, List.reverse_append, List.reverse_reverse] at this
    rw [ht]; exact this
  refine ⟨a, b, ha, hb, ?_, ?_, ?_⟩
  · rw [List.append_assoc, ← hl]; exact hs
  · intro p hp hpre
    exact hnl p hp (by rw [hl]; exact List.prefix_append_of_prefix hpre)
  · intro p hp hsuf
    apply hnt p hp
    rw [ht] at hsuf
    have := List.reverse_prefix.mpr hsuf
    simpa using this

/-- trimming is idempotent -/
theorem trimSpace_of_clean (s : Bytes) (h1 : NoLeadingSpace s) (h2 : NoTrailingSpace s) : trimSpace s = s := by
  obtain ⟨a, b, ⟨wa, hwa, rfl⟩, ⟨wb, hwb, rfl⟩, hs, _, _⟩ := trimSpace_spec s
  have ha : wa.flatten = [] := by
    cases wa with
    | nil => rfl
    | cons w ws =>
      exfalso
      apply h1 w (hwa w (by simp))
      rw [hs]; simp [List.append_assoc]
  have hb : wb.flatten = [] := by
    rcases List.eq_nil_or_concat wb with rfl | ⟨ws, w, rfl⟩
    · rfl
    · exfalso
      apply h2 w (hwb w (by simp))
      rw [hs]
      exact ⟨wa.flatten ++ trimSpace s ++ ws.flatten, by simp⟩
  rw [ha, hb] at hs
  simpa using hs.symm

theorem trimSpace_idem (s : Bytes) : trimSpace (trimSpace s) = trimSpace s := by
  obtain ⟨_, _, _, _, _, h1, h2⟩ := trimSpace_spec s
  exact trimSpace_of_clean _ h1 h2

end Victron

namespace Victron

theorem dropWhile_zero_spec (r : Bytes) :
    ∃ k, r = List.replicate k 0 ++ r.dropWhile (· == 0) ∧ (r.dropWhile (· == 0)).head? ≠ some 0 := by
  induction r with
  | nil => exact ⟨0, by simp, by simp⟩
  | cons a t ih =>
    by_cases ha : a = 0
    · subst ha
      obtain ⟨k, h1, h2⟩ := ih
      refine ⟨k + 1, ?_, ?_⟩
      · simp only [List.dropWhile_cons, beq_self_eq_true, if_true, List.replicate_succ, List.cons_append]
        rw [← h1]
      · simpa [List.dropWhile_cons] using h2
    · refine ⟨0, by simp [ha], ?_⟩
      simp [ha]

/-- `trimNul` removes exactly the trailing NUL padding -/
theorem trimNul_spec (bs : Bytes) :
    ∃ k, bs = trimNul bs ++ List.replicate k 0 ∧ (trimNul bs).getLast? ≠ some 0 := by
  unfold trimNul
  obtain ⟨k, h1, h2⟩ := dropWhile_zero_spec bs.reverse
  refine ⟨k, ?_, ?_⟩
  · have := congrArg List.reverse h1
    rw [List.reverse_reverse, List.reverse_append, List.reverse_replicate] at this
    exact this
  · rw [List.getLast?_reverse]; exact h2

end Victron
