import Victron.Model.Proto
import Victron.Proofs.Proto
/- logging is transparent: erasing the logger configuration and the log buffers commutes with every operation -/
namespace Victron

/-- forget the logger configuration and everything the loggers accumulated -/
def Vd.erase (σ : Vd) : Vd := { σ with ioLog := false, dbg := false, txBuf := [], rxBuf := [], lines := [] }

@[simp] theorem Vd.erase_port (σ : Vd) : σ.erase.port = σ.port := rfl
@[simp] theorem Vd.erase_buf (σ : Vd) : σ.erase.buf = σ.buf := rfl
@[simp] theorem Vd.erase_erase (σ : Vd) : σ.erase.erase = σ.erase := rfl

theorem Vd.write_erase (σ : Vd) (b : Bytes) : σ.erase.write b = ((σ.write b).1.erase, (σ.write b).2) := by
  unfold Vd.write
  simp only [Vd.erase_port]
  by_cases hok : (σ.port.write b).snd = true
  · simp [hok, Vd.erase]
  · simp [hok, Vd.erase]

theorem Vd.recvUntilF_erase (fuel : Nat) (σ : Vd) (needle : Nat) :
    Vd.recvUntilF fuel σ.erase needle = ((Vd.recvUntilF fuel σ needle).1.erase, (Vd.recvUntilF fuel σ needle).2) := by
  induction fuel generalizing σ with
  | zero =>
    unfold Vd.recvUntilF
    simp only [Vd.erase_buf]
    cases splitFirst needle σ.buf with
    | none => simp [Vd.erase]
    | some pq => simp [Vd.erase]
  | succ n ih =>
    unfold Vd.recvUntilF
    simp only [Vd.erase_buf, Vd.erase_port]
    cases splitFirst needle σ.buf with
    | some pq => simp [Vd.erase]
    | none =>
      simp only
      generalize σ.port.read = r
      obtain ⟨p, d⟩ := r
      cases d with
      | none => simp [Vd.erase]
      | some d =>
        simp only
        have := ih { σ with port := p, buf := σ.buf ++ d }
        simpa [Vd.erase] using this

theorem Vd.recvUntil_erase (σ : Vd) (needle : Nat) :
    σ.erase.recvUntil needle = ((σ.recvUntil needle).1.erase, (σ.recvUntil needle).2) := by
  unfold Vd.recvUntil; simp only [Vd.erase_port]; exact Vd.recvUntilF_erase _ σ needle

theorem Vd.receiveResponseF_erase (fuel : Nat) (σ : Vd) :
    Vd.receiveResponseF fuel σ.erase = ((Vd.receiveResponseF fuel σ).1.erase, (Vd.receiveResponseF fuel σ).2) := by
  induction fuel generalizing σ with
  | zero => simp [Vd.receiveResponseF]
  | succ n ih =>
    unfold Vd.receiveResponseF
    simp only
    rw [Vd.recvUntil_erase]
    generalize σ.recvUntil 58 = r1
    obtain ⟨σ1, o1⟩ := r1
    cases o1 with
    | none => simp
    | some pre =>
      simp only
      rw [Vd.recvUntil_erase]
      generalize σ1.recvUntil 10 = r2
      obtain ⟨σ2, o2⟩ := r2
      cases o2 with
      | none => simp
      | some body =>
        simp only
        split
        · exact ih σ2
        · rfl

theorem Vd.pending_erase (σ : Vd) : σ.erase.pending = σ.pending := rfl

theorem Vd.receiveResponse_erase (σ : Vd) :
    σ.erase.receiveResponse = (σ.receiveResponse.1.erase, σ.receiveResponse.2) := by
  unfold Vd.receiveResponse; rw [Vd.pending_erase]; exact Vd.receiveResponseF_erase _ σ

theorem Vd.flushReceiver_erase (σ : Vd) : σ.erase.flushReceiver = σ.flushReceiver.erase := rfl

theorem Vd.sendReceive_erase (σ : Vd) (idle : Bool) (cmd : Nat) (data : Bytes) :
    σ.erase.sendReceive idle cmd data = ((σ.sendReceive idle cmd data).1.erase, (σ.sendReceive idle cmd data).2) := by
  unfold Vd.sendReceive
  simp only
  have h0 : (if idle = true then σ.erase.flushReceiver else σ.erase) = (if idle = true then σ.flushReceiver else σ).erase := by
    split <;> rfl
  rw [h0, Vd.write_erase]
  generalize (if idle = true then σ.flushReceiver else σ).write (txFrame cmd data) = w
  obtain ⟨σ1, ok⟩ := w
  cases ok with
  | false => simp
  | true => simp only [if_true]; exact Vd.receiveResponse_erase σ1

theorem Vd.veCommand_erase (σ : Vd) (idle : Bool) (cmd addr : Nat) :
    σ.erase.veCommand idle cmd addr = ((σ.veCommand idle cmd addr).1.erase, (σ.veCommand idle cmd addr).2) := by
  unfold Vd.veCommand
  simp only
  rw [Vd.sendReceive_erase]
  generalize σ.sendReceive idle cmd (paramFor cmd addr) = r
  obtain ⟨σ1, o⟩ := r
  cases o <;> rfl

theorem Vd.veCommandGetL_erase (idles : List Bool) (σ : Vd) (addr : Nat) :
    Vd.veCommandGetL idles σ.erase addr = ((Vd.veCommandGetL idles σ addr).1.erase, (Vd.veCommandGetL idles σ addr).2) := by
  induction idles generalizing σ with
  | nil => rfl
  | cons i is ih =>
    unfold Vd.veCommandGetL
    simp only
    rw [Vd.veCommand_erase]
    generalize σ.veCommand i 7 addr = r
    obtain ⟨σ1, o⟩ := r
    cases o with
    | panic => rfl
    | err e => exact ih σ1
    | ok raw =>
      simp only
      cases getStep addr raw with
      | retry => exact ih σ1
      | fail e => rfl
      | value v => rfl
      | panic => rfl

theorem Vd.lineEnd_erase (σ : Vd) : σ.lineEnd.erase = σ.erase := by
  unfold Vd.lineEnd; split <;> rfl

theorem Vd.erase_lineEnd (σ : Vd) : σ.erase.lineEnd = σ.erase := rfl

end Victron

namespace Victron

/-! ### what the I/O logger records -/

/-- the receive side never touches the logger configuration, the tx buffer or the emitted lines -/
theorem Vd.recvUntilF_cfg (fuel : Nat) (σ : Vd) (needle : Nat) :
    let σ' := (Vd.recvUntilF fuel σ needle).1
    σ'.ioLog = σ.ioLog ∧ σ'.dbg = σ.dbg ∧ σ'.txBuf = σ.txBuf ∧ σ'.lines = σ.lines := by
  induction fuel generalizing σ with
  | zero =>
    unfold Vd.recvUntilF
    cases splitFirst needle σ.buf <;> simp
  | succ n ih =>
    unfold Vd.recvUntilF
    cases splitFirst needle σ.buf with
    | some pq => simp
    | none =>
      simp only
      cases hr : σ.port.read.2 with
      | none => simp
      | some d =>
        simp only
        exact ih { σ with port := σ.port.read.1, buf := σ.buf ++ d }

theorem Vd.receiveResponseF_cfg (fuel : Nat) (σ : Vd) :
    let σ' := (Vd.receiveResponseF fuel σ).1
    σ'.ioLog = σ.ioLog ∧ σ'.dbg = σ.dbg ∧ σ'.txBuf = σ.txBuf ∧ σ'.lines = σ.lines := by
  induction fuel generalizing σ with
  | zero => simp [Vd.receiveResponseF]
  | succ n ih =>
    unfold Vd.receiveResponseF
    simp only
    have h1 := Vd.recvUntilF_cfg (σ.port.queue.length + 1) σ 58
    simp only at h1
    cases hr1 : (σ.recvUntil 58).2 with
    | none => simp only; exact h1
    | some pre =>
      simp only
      have h2 := Vd.recvUntilF_cfg ((σ.recvUntil 58).1.port.queue.length + 1) (σ.recvUntil 58).1 10
      simp only at h2
      have h12 : let σ' := ((σ.recvUntil 58).1.recvUntil 10).1
          σ'.ioLog = σ.ioLog ∧ σ'.dbg = σ.dbg ∧ σ'.txBuf = σ.txBuf ∧ σ'.lines = σ.lines :=
        ⟨h2.1.trans h1.1, h2.2.1.trans h1.2.1, h2.2.2.1.trans h1.2.2.1, h2.2.2.2.trans h1.2.2.2⟩
      cases hr2 : ((σ.recvUntil 58).1.recvUntil 10).2 with
      | none => simp only; exact h12
      | some body =>
        simp only
        split
        · have h3 := ih ((σ.recvUntil 58).1.recvUntil 10).1
          simp only at h3 h12
          exact ⟨h3.1.trans h12.1, h3.2.1.trans h12.2.1, h3.2.2.1.trans h12.2.2.1, h3.2.2.2.trans h12.2.2.2⟩
        · exact h12

/-- `frames` were written (oldest first) and, with the I/O logger on, appended to the tx buffer -/
def Vd.TxInv (σ σ' : Vd) (frames : List Bytes) : Prop :=
  σ'.port.written = frames.reverse ++ σ.port.written ∧
  σ'.txBuf = (if σ.ioLog then σ.txBuf ++ frames.flatten else σ.txBuf) ∧
  σ'.ioLog = σ.ioLog ∧ σ'.lines = σ.lines

theorem Vd.TxInv.trans {σ σ' σ'' : Vd} {f g : List Bytes} (h1 : σ.TxInv σ' f) (h2 : σ'.TxInv σ'' g) : σ.TxInv σ'' (f ++ g) := by
  obtain ⟨a1, a2, a3, a4⟩ := h1
  obtain ⟨b1, b2, b3, b4⟩ := h2
  refine ⟨by rw [b1, a1]; simp, ?_, b3.trans a3, b4.trans a4⟩
  rw [b2, a3, a2]
  cases σ.ioLog <;> simp

theorem Vd.sendReceive_tx (σ : Vd) (idle : Bool) (cmd : Nat) (data : Bytes) :
    ∃ fs, (fs = [] ∨ fs = [txFrame cmd data]) ∧ σ.TxInv (σ.sendReceive idle cmd data).1 fs := by
  unfold Vd.sendReceive
  simp only
  have h0 : σ.TxInv (if idle = true then σ.flushReceiver else σ) [] := by
    split
    · refine ⟨by simp [Vd.flushReceiver, (σ.port.flush_weq).1], ?_, rfl, rfl⟩
      cases σ.ioLog <;> simp [Vd.flushReceiver]
    · refine ⟨by simp, ?_, rfl, rfl⟩
      cases σ.ioLog <;> simp
  generalize (if idle = true then σ.flushReceiver else σ) = σ0 at h0
  by_cases hm : σ0.port.nW ∈ σ0.port.wFail
  · have e : σ0.write (txFrame cmd data) = ({ σ0 with port := { σ0.port with nW := σ0.port.nW + 1 } }, false) := by
      unfold Vd.write Port.write; simp [hm]
    rw [e]
    refine ⟨[], Or.inl rfl, ?_⟩
    have h1 : σ0.TxInv { σ0 with port := { σ0.port with nW := σ0.port.nW + 1 } } [] :=
      ⟨by simp, by cases σ0.ioLog <;> simp, rfl, rfl⟩
    simpa using h0.trans h1
  · have hw : σ0.TxInv (σ0.write (txFrame cmd data)).1 [txFrame cmd data] ∧ (σ0.write (txFrame cmd data)).2 = true := by
      unfold Vd.write Port.write
      simp only [List.contains_eq_mem, hm, decide_false, if_false]
      refine ⟨⟨by simp, ?_, rfl, rfl⟩, by simp⟩
      cases σ0.ioLog <;> simp
    rw [hw.2]
    simp only [if_true]
    have hc := Vd.receiveResponseF_cfg ((σ0.write (txFrame cmd data)).1.pending.length + 1) (σ0.write (txFrame cmd data)).1
    have hwq := Vd.receiveResponse_weq (σ0.write (txFrame cmd data)).1
    simp only at hc
    have h2 : (σ0.write (txFrame cmd data)).1.TxInv (σ0.write (txFrame cmd data)).1.receiveResponse.1 [] := by
      refine ⟨by simp [hwq.1], ?_, hc.1, hc.2.2.2⟩
      unfold Vd.receiveResponse
      rw [hc.2.2.1]
      cases (σ0.write (txFrame cmd data)).1.ioLog <;> simp
    refine ⟨[txFrame cmd data], Or.inr rfl, ?_⟩
    simpa using (h0.trans hw.1).trans h2

theorem Vd.veCommand_tx (σ : Vd) (idle : Bool) (cmd addr : Nat) :
    ∃ fs, (fs = [] ∨ fs = [tx cmd addr]) ∧ σ.TxInv (σ.veCommand idle cmd addr).1 fs := by
  obtain ⟨fs, h1, h2⟩ := σ.sendReceive_tx idle cmd (paramFor cmd addr)
  refine ⟨fs, h1, ?_⟩
  unfold Vd.veCommand; simp only
  split <;> exact h2

theorem Vd.veCommandGetL_tx (idles : List Bool) (σ : Vd) (addr : Nat) :
    ∃ k, k ≤ idles.length ∧ σ.TxInv (Vd.veCommandGetL idles σ addr).1 (List.replicate k (tx 7 addr)) := by
  induction idles generalizing σ with
  | nil =>
    refine ⟨0, by simp, ⟨by simp [Vd.veCommandGetL], ?_, rfl, rfl⟩⟩
    cases σ.ioLog <;> simp [Vd.veCommandGetL]
  | cons i is ih =>
    obtain ⟨fs, hfs, h1⟩ := σ.veCommand_tx i 7 addr
    obtain ⟨k2, hk2, h2⟩ := ih (σ.veCommand i 7 addr).1
    have stop : ∃ k, k ≤ (i :: is).length ∧ σ.TxInv (σ.veCommand i 7 addr).1 (List.replicate k (tx 7 addr)) := by
      rcases hfs with rfl | rfl
      · exact ⟨0, by simp, h1⟩
      · exact ⟨1, by simp, h1⟩
    have go : ∃ k, k ≤ (i :: is).length ∧
        σ.TxInv (Vd.veCommandGetL is (σ.veCommand i 7 addr).1 addr).1 (List.replicate k (tx 7 addr)) := by
      rcases hfs with rfl | rfl
      · exact ⟨k2, by simp; omega, by simpa using h1.trans h2⟩
      · refine ⟨1 + k2, by simp; omega, ?_⟩
        have := h1.trans h2
        rw [show [tx 7 addr] = List.replicate 1 (tx 7 addr) from rfl, List.replicate_append_replicate] at this
        exact this
    unfold Vd.veCommandGetL
    simp only
    split
    · exact stop
    · exact go
    · split
      · exact go
      · exact stop
      · exact stop
      · exact stop

end Victron
