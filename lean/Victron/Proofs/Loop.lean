import Victron.Model.Proto
import Victron.Proofs.Frame
import Victron.Proofs.Scan
/- the retry loop of `VeCommandGet` as a fold of attempts -/
namespace Victron

inductive Outcome where
  | retry
  | done (r : R Bytes)
  deriving Repr, DecidableEq

/-- one pass of the loop body -/
def Vd.attempt (σ : Vd) (idle : Bool) (addr : Nat) : Vd × Outcome :=
  match σ.veCommand idle 7 addr with
  | (σ1, .panic) => (σ1, .done .panic)
  | (σ1, .err _) => (σ1, .retry)
  | (σ1, .ok raw) =>
    match getStep addr raw with
    | .retry => (σ1, .retry)
    | .fail e => (σ1, .done (.err e))
    | .value v => (σ1, .done (.ok v))
    | .panic => (σ1, .done .panic)

theorem Vd.veCommandGetL_cons (i : Bool) (is : List Bool) (σ : Vd) (addr : Nat) :
    Vd.veCommandGetL (i :: is) σ addr =
      match σ.attempt i addr with
      | (σ1, .retry) => Vd.veCommandGetL is σ1 addr
      | (σ1, .done r) => (σ1, r) := by
  unfold Vd.attempt
  rw [Vd.veCommandGetL]
  generalize σ.veCommand i 7 addr = c
  obtain ⟨σ1, r⟩ := c
  cases r with
  | panic => rfl
  | err e => rfl
  | ok raw =>
    simp only
    cases getStep addr raw <;> rfl

theorem Vd.attempt_nW (σ : Vd) (idle : Bool) (addr : Nat) : (σ.attempt idle addr).1.port.nW = σ.port.nW + 1 := by
  obtain ⟨k, _, _, hn⟩ := veCommand_written σ idle 7 addr
  unfold Vd.attempt
  generalize σ.veCommand idle 7 addr = c at hn
  obtain ⟨σ1, r⟩ := c
  cases r with
  | panic => exact hn
  | err e => exact hn
  | ok raw => simp only; cases getStep addr raw <;> exact hn

/-- the state right after an attempt's command frame was handed to the port -/
def Vd.afterSend (σ : Vd) (idle : Bool) (cmd : Nat) (data : Bytes) : Vd :=
  ((if idle then σ.flushReceiver else σ).write (txFrame cmd data)).1

def Vd.sendOk (σ : Vd) (idle : Bool) (cmd : Nat) (data : Bytes) : Bool :=
  ((if idle then σ.flushReceiver else σ).write (txFrame cmd data)).2

theorem Vd.sendReceive_eq (σ : Vd) (idle : Bool) (cmd : Nat) (data : Bytes) :
    σ.sendReceive idle cmd data =
      if σ.sendOk idle cmd data then (σ.afterSend idle cmd data).receiveResponse else (σ.afterSend idle cmd data, none) := by
  unfold Vd.sendReceive Vd.sendOk Vd.afterSend
  simp only

theorem flatten_asyncSeg_length (segs : List (Bytes × Bytes)) : segs.length ≤ ((segs.map asyncSeg).flatten).length := by
  induction segs with
  | nil => simp
  | cons s t ih =>
    simp only [List.map_cons, List.flatten_cons, List.length_append, List.length_cons]
    have : 0 < (asyncSeg s).length := by simp [asyncSeg]; omega
    omega

theorem getResponseBody_no_newline (addr flag : Nat) (payload : Bytes) (haddr : addr < 65536) (hf : flag < 256) (hp : IsBytes payload) :
    10 ∉ getResponseBody addr flag payload ∧ (getResponseBody addr flag payload).headD 0 = 55 := by
  have hv : IsBytes ([addr % 256, addr / 256 % 256, flag] ++ payload) :=
    IsBytes.append (by intro b hb; simp at hb; omega) hp
  constructor
  · unfold getResponseBody
    simp only
    intro hm
    rcases List.mem_append.mp hm with h | h
    · rcases List.mem_append.mp h with h | h
      · simp [hexDigit] at h
      · exact not_mem_hexBytes hv (x := 10) (by decide) h
    · have := not_mem_hexBytes (bs := [checksum 7 ([addr % 256, addr / 256 % 256, flag] ++ payload)])
        (IsBytes.cons (checksum_lt _ _) IsBytes.nil) (x := 10) (by decide)
      exact this (by simpa [hexBytes] using h)
  · simp [getResponseBody, hexDigit]

theorem Port.flush_rFail (p : Port) : p.flush.rFail = p.rFail := (p.flush_weq).2.2.2.2.1

theorem Vd.write_ok (σ0 : Vd) (b : Bytes) (h : (σ0.write b).2 = true) :
    (σ0.write b).1.pending = σ0.pending ++ ((σ0.port.replies.getD σ0.port.nW []).filter (fun c => !c.isEmpty)).flatten ∧
    (σ0.write b).1.port.rFail = σ0.port.rFail := by
  unfold Vd.write Port.write at h ⊢
  by_cases hm : σ0.port.nW ∈ σ0.port.wFail
  · simp [hm] at h
  · simp [hm, Vd.pending]

theorem Vd.afterSend_rFail (σ : Vd) (idle : Bool) (cmd : Nat) (data : Bytes) :
    (σ.afterSend idle cmd data).port.rFail = σ.port.rFail := by
  have h0 : σ.port.WEq (if idle = true then σ.flushReceiver else σ).port := by
    split
    · exact σ.port.flush_weq
    · exact Port.WEq.refl _
  unfold Vd.afterSend
  have : ∀ σ0 : Vd, (σ0.write (txFrame cmd data)).1.port.rFail = σ0.port.rFail := by
    intro σ0; unfold Vd.write Port.write
    by_cases hm : σ0.port.nW ∈ σ0.port.wFail <;> simp [hm]
  rw [this]; exact h0.2.2.2.2.1

/-- **A valid matching frame ends the call.** If, after the command of an attempt was sent, the pending bytes
    are noise and async frames, then a valid Get response for `addr` with flag `flag`, then `rest`, the attempt
    returns the frame's payload (flag 0) or the device error (any other flag) — it is not retried — and leaves
    exactly `rest` pending. -/
theorem Vd.attempt_frame (σ : Vd) (idle : Bool) (addr : Nat) (haddr : addr < 65536) (flag : Nat) (hflag : flag < 256)
    (payload : Bytes) (hp : IsBytes payload)
    (segs : List (Bytes × Bytes)) (noise rest : Bytes)
    (hok : σ.sendOk idle 7 (paramFor 7 addr) = true) (hrf : σ.port.rFail = [])
    (hsegs : ∀ s ∈ segs, 58 ∉ s.1 ∧ 10 ∉ s.2) (hnoise : 58 ∉ noise)
    (hpend : (σ.afterSend idle 7 (paramFor 7 addr)).pending =
      (segs.map asyncSeg).flatten ++ noise ++ frameOf (getResponseBody addr flag payload) ++ rest) :
    ∃ σ', σ.attempt idle addr = (σ', .done (match flagError flag with | some e => .err e | none => .ok payload)) ∧
      σ'.pending = rest := by
  obtain ⟨hnl, hhead⟩ := getResponseBody_no_newline addr flag payload haddr hflag hp
  have hA : ¬ ((getResponseBody addr flag payload).headD 0 = 65 ∧ getResponseBody addr flag payload ≠ []) := by
    rw [hhead]; simp
  have hpend' : (σ.afterSend idle 7 (paramFor 7 addr)).pending =
      (segs.map asyncSeg).flatten ++ noise ++ 58 :: getResponseBody addr flag payload ++ 10 :: rest := by
    rw [hpend]; simp [frameOf]
  obtain ⟨σ', hrr, hp', _, _, _⟩ := Vd.receiveResponseF_skip segs ((σ.afterSend idle 7 (paramFor 7 addr)).pending.length + 1)
    (σ.afterSend idle 7 (paramFor 7 addr)) noise _ rest (by rw [Vd.afterSend_rFail]; exact hrf) hsegs hnoise hnl hA hpend'
    (by rw [hpend']; have := flatten_asyncSeg_length segs
        simp only [List.length_append, List.append_assoc]; omega)
  obtain ⟨ck, hparse, hstep⟩ := wire_flag' addr haddr flag hflag payload hp
  refine ⟨σ', ?_, hp'⟩
  unfold Vd.attempt Vd.veCommand
  rw [Vd.sendReceive_eq, hok]
  simp only [if_true]
  have : (σ.afterSend idle 7 (paramFor 7 addr)).receiveResponse = (σ', some (getResponseBody addr flag payload)) := hrr
  rw [this]
  simp only [hparse, hstep]
  cases flagError flag <;> rfl

/-- **The good frame is accepted.** -/
theorem Vd.attempt_good (σ : Vd) (idle : Bool) (addr : Nat) (haddr : addr < 65536) (payload : Bytes) (hp : IsBytes payload)
    (segs : List (Bytes × Bytes)) (noise rest : Bytes)
    (hok : σ.sendOk idle 7 (paramFor 7 addr) = true) (hrf : σ.port.rFail = [])
    (hsegs : ∀ s ∈ segs, 58 ∉ s.1 ∧ 10 ∉ s.2) (hnoise : 58 ∉ noise)
    (hpend : (σ.afterSend idle 7 (paramFor 7 addr)).pending =
      (segs.map asyncSeg).flatten ++ noise ++ frameOf (getResponseBody addr 0 payload) ++ rest) :
    ∃ σ', σ.attempt idle addr = (σ', .done (.ok payload)) ∧ σ'.pending = rest :=
  Vd.attempt_frame σ idle addr haddr 0 (by omega) payload hp segs noise rest hok hrf hsegs hnoise hpend

/-! the loop as a fold -/

/-- run attempts that must all end in `retry`; the state after them -/
def Vd.afterRetries : List Bool → Vd → Nat → Option Vd
  | [], σ, _ => some σ
  | i :: is, σ, addr =>
    match σ.attempt i addr with
    | (σ1, .retry) => Vd.afterRetries is σ1 addr
    | (_, .done _) => none

theorem Vd.veCommandGetL_afterRetries (pre post : List Bool) (σ σk : Vd) (addr : Nat)
    (h : Vd.afterRetries pre σ addr = some σk) :
    Vd.veCommandGetL (pre ++ post) σ addr = Vd.veCommandGetL post σk addr ∧ σk.port.nW = σ.port.nW + pre.length := by
  induction pre generalizing σ with
  | nil => simp [Vd.afterRetries] at h; subst h; simp
  | cons i is ih =>
    simp only [List.cons_append]
    rw [Vd.veCommandGetL_cons]
    unfold Vd.afterRetries at h
    have hn := σ.attempt_nW i addr
    generalize σ.attempt i addr = a at h hn
    obtain ⟨σ1, o⟩ := a
    cases o with
    | retry =>
      simp only at h ⊢
      obtain ⟨h1, h2⟩ := ih σ1 h
      exact ⟨h1, by rw [h2]; simp at hn ⊢; omega⟩
    | done r => simp at h

end Victron
