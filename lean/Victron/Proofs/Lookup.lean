import Victron.Model.Tables
/- lookup lemmas: a fact decided for every row of a table holds for every key -/
namespace Victron

theorem productRow_cases (tbl : List ProductRow) (id : Nat) :
    productRow tbl id = defaultProduct id ∨ (productRow tbl id ∈ tbl ∧ (productRow tbl id).id = id) := by
  unfold productRow
  cases h : tbl.find? (·.id == id) with
  | none => left; rfl
  | some r =>
    right
    have := List.find?_some h
    exact ⟨List.mem_of_find?_eq_some h, by simpa using this⟩

theorem typeRow_cases (tbl : List TypeRow) (t : Nat) :
    typeRow tbl t = defaultType t ∨ (typeRow tbl t ∈ tbl ∧ (typeRow tbl t).t = t) := by
  unfold typeRow
  cases h : tbl.find? (·.t == t) with
  | none => left; rfl
  | some r =>
    right
    have := List.find?_some h
    exact ⟨List.mem_of_find?_eq_some h, by simpa using this⟩

end Victron
