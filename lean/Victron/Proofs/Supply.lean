import Victron.Proofs.Loop
/-
  Where pending bytes come from: the receive side only ever drops bytes from the front of the pending stream
  (or all of it), a successful write appends the reply scripted for it. Hence whatever is pending after any
  number of attempts is a subsequence (order kept) of what was pending at the start followed by the replies
  the port delivers for the writes performed since — the bytes received from the device.
-/
namespace Victron

theorem Port.read_none {p p' : Port} (h : p.read = (p', none)) : p'.queue = p.queue := by
  unfold Port.read at h
  split at h
  · have := congrArg Prod.fst h; simp only at this; rw [← this]
  · split at h
    · rename_i hq
      have := congrArg Prod.fst h; simp only at this; rw [← this]
    · have := congrArg Prod.snd h; simp at this

/-- the receive side leaves a suffix of the pending stream -/
theorem Vd.recvUntilF_suffix (fuel : Nat) (σ : Vd) (needle : Nat) :
    (Vd.recvUntilF fuel σ needle).1.pending <:+ σ.pending := by
  induction fuel generalizing σ with
  | zero =>
    unfold Vd.recvUntilF
    cases hs : splitFirst needle σ.buf with
    | some pq =>
      obtain ⟨h1, _⟩ := splitFirst_some hs
      simp only [Vd.pending, h1]
      exact ⟨pq.1 ++ [needle], by simp⟩
    | none => simp only [Vd.pending]; exact ⟨σ.buf, by simp⟩
  | succ n ih =>
    unfold Vd.recvUntilF
    cases hs : splitFirst needle σ.buf with
    | some pq =>
      obtain ⟨h1, _⟩ := splitFirst_some hs
      simp only [Vd.pending, h1]
      exact ⟨pq.1 ++ [needle], by simp⟩
    | none =>
      simp only
      cases hr : σ.port.read with
      | mk p r =>
        cases r with
        | none =>
          simp only [Vd.pending]
          -- the failed read leaves the queue (or it was empty); the buffer is dropped
          rw [Port.read_none hr]; exact ⟨σ.buf, by simp⟩
        | some d =>
          simp only
          have hq := Port.read_some (p := σ.port) (p' := p) (d := d) hr
          have := ih { σ with port := p, buf := σ.buf ++ d }
          refine this.trans ?_
          simp only [Vd.pending, hq]
          exact ⟨[], by simp⟩

theorem Vd.recvUntil_suffix (σ : Vd) (needle : Nat) : (σ.recvUntil needle).1.pending <:+ σ.pending :=
  Vd.recvUntilF_suffix _ σ needle

theorem Vd.receiveResponseF_suffix (fuel : Nat) (σ : Vd) : (Vd.receiveResponseF fuel σ).1.pending <:+ σ.pending := by
  induction fuel generalizing σ with
  | zero => exact List.suffix_refl _
  | succ n ih =>
    unfold Vd.receiveResponseF
    simp only
    have h1 := σ.recvUntil_suffix 58
    split
    · exact h1
    · have h2 := (σ.recvUntil 58).1.recvUntil_suffix 10
      split
      · exact h2.trans h1
      · split
        · exact ((ih _).trans h2).trans h1
        · exact h2.trans h1

/-- the bytes the port will still deliver: the replies scripted for the writes to come -/
def Port.future (p : Port) : Bytes := ((p.replies.drop p.nW).map List.flatten).flatten

theorem filter_nonempty_flatten (l : List Bytes) : (l.filter (fun c => !c.isEmpty)).flatten = l.flatten := by
  induction l with
  | nil => rfl
  | cons a t ih => cases a <;> simp [ih]

theorem Port.future_step (p : Port) : p.future = (p.replies.getD p.nW []).flatten ++ ((p.replies.drop (p.nW + 1)).map List.flatten).flatten := by
  unfold Port.future
  by_cases h : p.nW < p.replies.length
  · rw [List.drop_eq_getElem_cons h]
    simp only [List.map_cons, List.flatten_cons]
    congr 1
    simp [List.getD_eq_getElem?_getD, List.getElem?_eq_getElem h]
  · have h' : p.replies.length ≤ p.nW := by omega
    simp [List.drop_eq_nil_of_le h', List.drop_eq_nil_of_le (by omega : p.replies.length ≤ p.nW + 1),
      List.getD_eq_getElem?_getD, List.getElem?_eq_none h']

theorem Vd.write_supply (σ0 : Vd) (b : Bytes) :
    ((σ0.write b).1.pending ++ (σ0.write b).1.port.future).Sublist (σ0.pending ++ σ0.port.future) := by
  rw [Port.future_step σ0.port]
  by_cases hm : σ0.port.nW ∈ σ0.port.wFail
  · have e : σ0.write b = ({ σ0 with port := { σ0.port with nW := σ0.port.nW + 1 } }, false) := by
      unfold Vd.write Port.write; simp [hm]
    rw [e]
    simp only [Vd.pending, Port.future]
    exact List.Sublist.append (List.Sublist.refl _) (List.sublist_append_right _ _)
  · have e : (σ0.write b).1.pending = σ0.pending ++ ((σ0.port.replies.getD σ0.port.nW []).filter (fun c => !c.isEmpty)).flatten ∧
        (σ0.write b).1.port.future = ((σ0.port.replies.drop (σ0.port.nW + 1)).map List.flatten).flatten := by
      unfold Vd.write Port.write; simp [hm, Vd.pending, Port.future]
    rw [e.1, e.2, filter_nonempty_flatten, List.append_assoc]
    exact List.Sublist.refl _

/-- one exchange: what is pending afterwards, followed by what the port will still deliver, is a subsequence of
    the same before -/
theorem Vd.sendReceive_supply (σ : Vd) (idle : Bool) (cmd : Nat) (data : Bytes) :
    ((σ.sendReceive idle cmd data).1.pending ++ (σ.sendReceive idle cmd data).1.port.future).Sublist
      (σ.pending ++ σ.port.future) := by
  unfold Vd.sendReceive
  simp only
  -- the optional flush drops everything pending and keeps the script
  have h0 : ((if idle = true then σ.flushReceiver else σ).pending ++ (if idle = true then σ.flushReceiver else σ).port.future).Sublist
      (σ.pending ++ σ.port.future) := by
    split
    · have hw := σ.port.flush_weq
      have hf : σ.flushReceiver.port.future = σ.port.future := by
        simp only [Port.future, Vd.flushReceiver, hw.2.1, hw.2.2.1]
      rw [hf]
      have hsub : σ.flushReceiver.pending.Sublist σ.pending := by
        unfold Vd.flushReceiver Port.flush Vd.pending
        split
        · simp
        · simp
      exact List.Sublist.append hsub (List.Sublist.refl _)
    · exact List.Sublist.refl _
  generalize (if idle = true then σ.flushReceiver else σ) = σ0 at h0 ⊢
  refine List.Sublist.trans ?_ h0
  have hwr := σ0.write_supply (txFrame cmd data)
  cases hok : (σ0.write (txFrame cmd data)).2 with
  | false => simpa [hok] using hwr
  | true =>
    simp only [if_true]
    refine List.Sublist.trans ?_ hwr
    have hs := (σ0.write (txFrame cmd data)).1.receiveResponseF_suffix ((σ0.write (txFrame cmd data)).1.pending.length + 1)
    have hw := (σ0.write (txFrame cmd data)).1.receiveResponse_weq
    have hf : (σ0.write (txFrame cmd data)).1.receiveResponse.1.port.future = (σ0.write (txFrame cmd data)).1.port.future := by
      simp only [Port.future, hw.2.1, hw.2.2.1]
    rw [hf]
    exact List.Sublist.append hs.sublist (List.Sublist.refl _)

theorem Vd.attempt_supply (σ : Vd) (idle : Bool) (addr : Nat) :
    ((σ.attempt idle addr).1.pending ++ (σ.attempt idle addr).1.port.future).Sublist (σ.pending ++ σ.port.future) := by
  have h := σ.sendReceive_supply idle 7 (paramFor 7 addr)
  have e : (σ.attempt idle addr).1 = (σ.sendReceive idle 7 (paramFor 7 addr)).1 := by
    unfold Vd.attempt Vd.veCommand
    simp only
    cases (σ.sendReceive idle 7 (paramFor 7 addr)).2 with
    | none => rfl
    | some resp =>
      simp only
      cases parseResponse 7 resp with
      | panic => rfl
      | err e => rfl
      | ok raw => simp only; cases getStep addr raw <;> rfl
  rw [e]; exact h

/-- after any number of retried attempts -/
theorem Vd.afterRetries_supply (pre : List Bool) (σ σa : Vd) (addr : Nat) (h : Vd.afterRetries pre σ addr = some σa) :
    (σa.pending ++ σa.port.future).Sublist (σ.pending ++ σ.port.future) := by
  induction pre generalizing σ with
  | nil => simp [Vd.afterRetries] at h; subst h; exact List.Sublist.refl _
  | cons i is ih =>
    unfold Vd.afterRetries at h
    have hs := σ.attempt_supply i addr
    generalize σ.attempt i addr = a at h hs
    obtain ⟨σ1, o⟩ := a
    cases o with
    | retry => exact (ih σ1 h).trans hs
    | done r => simp at h

/-- the state right after an attempt's command was sent -/
theorem Vd.afterSend_supply (σ : Vd) (idle : Bool) (cmd : Nat) (data : Bytes) :
    ((σ.afterSend idle cmd data).pending).Sublist (σ.pending ++ σ.port.future) := by
  unfold Vd.afterSend
  have h0 : ((if idle = true then σ.flushReceiver else σ).pending ++ (if idle = true then σ.flushReceiver else σ).port.future).Sublist
      (σ.pending ++ σ.port.future) := by
    split
    · have hw := σ.port.flush_weq
      have hf : σ.flushReceiver.port.future = σ.port.future := by
        simp only [Port.future, Vd.flushReceiver, hw.2.1, hw.2.2.1]
      rw [hf]
      have hsub : σ.flushReceiver.pending.Sublist σ.pending := by
        unfold Vd.flushReceiver Port.flush Vd.pending
        split
        · simp
        · simp
      exact List.Sublist.append hsub (List.Sublist.refl _)
    · exact List.Sublist.refl _
  generalize (if idle = true then σ.flushReceiver else σ) = σ0 at h0 ⊢
  exact ((List.sublist_append_left _ _).trans (σ0.write_supply (txFrame cmd data))).trans h0

end Victron
