import Victron.Model.Proto
import Victron.Proofs.Frame
import Victron.Proofs.Scan
import Victron.Proofs.Loop
import Victron.Proofs.Supply
/- the retry loop against a whole device stream: one rejected frame is consumed per attempt -/
namespace Victron

/-- a body the Get loop does not accept: `VeCommand` fails on it, or the loop `continue`s -/
def Rejected (addr : Nat) (body : Bytes) : Prop :=
  match parseResponse 7 body with
  | .ok raw => getStep addr raw = .retry
  | .err _ => True
  | .panic => False

instance (addr : Nat) (body : Bytes) : Decidable (Rejected addr body) := by
  unfold Rejected; split <;> infer_instance

/-- what one attempt consumes without success: noise and async frames, then one complete non-async frame -/
structure Junk where
  segs  : List (Bytes × Bytes) := []
  noise : Bytes := []
  body  : Bytes

def Junk.bytes (j : Junk) : Bytes := (j.segs.map asyncSeg).flatten ++ j.noise ++ 58 :: j.body ++ [10]

structure Junk.Ok (addr : Nat) (j : Junk) : Prop where
  segs  : ∀ s ∈ j.segs, 58 ∉ s.1 ∧ 10 ∉ s.2
  noise : 58 ∉ j.noise
  body  : 10 ∉ j.body
  notA  : ¬ (j.body.headD 0 = 65 ∧ j.body ≠ [])
  rej   : Rejected addr j.body

/-- the bytes the device supplies in answer to the Write with index `k` -/
def Port.reply (p : Port) (k : Nat) : Bytes := (p.replies.getD k []).flatten

/-- what an attempt can use up without success: a rejected complete frame, or — silence — pending bytes that
    hold no complete non-async frame (nothing at all, text noise, async frames, the beginning of a frame) -/
inductive Waste where
  | frame (j : Junk)
  | silence (segs : List (Bytes × Bytes)) (tail : Bytes)

def Waste.bytes : Waste → Bytes
  | .frame j => j.bytes
  | .silence segs tail => (segs.map asyncSeg).flatten ++ tail

/-- `tail` holds no complete frame: no ':' at all, or a ':' with no '\n' behind it -/
def Partial (tail : Bytes) : Prop :=
  58 ∉ tail ∨ ∃ noise part, tail = noise ++ 58 :: part ∧ 58 ∉ noise ∧ 10 ∉ part

def Waste.Ok (addr : Nat) : Waste → Prop
  | .frame j => j.Ok addr
  | .silence segs tail => (∀ s ∈ segs, 58 ∉ s.1 ∧ 10 ∉ s.2) ∧ Partial tail

/-- after silence the reader's buffer is discarded: nothing is left over -/
def Waste.Leaves : Waste → Bytes → Prop
  | .frame _, _ => True
  | .silence _ _, x => x = []

/-- `Feeds rep k pend ws i fin`: with `pend` pending before the command of attempt `k` is written (dropped
    if that attempt comes after 100 ms of idleness: the receiver is flushed) and `rep k` arriving in answer to
    it, the stream splits as one wasted unit per attempt, then `fin` at an attempt with idle flag `i`. -/
def Feeds (rep : Nat → Bytes) : Nat → Bytes → List (Bool × Waste) → Bool → Bytes → Prop
  | k, pend, [], i, fin => (if i then [] else pend) ++ rep k = fin
  | k, pend, w :: ws, i, fin =>
    ∃ x, (if w.1 then [] else pend) ++ rep k = w.2.bytes ++ x ∧ w.2.Leaves x ∧ Feeds rep (k + 1) x ws i fin

/-- a port on which no operation fails -/
def Port.Clean (p : Port) : Prop := p.wFail = [] ∧ p.rFail = [] ∧ p.fFail = []

/-- the delimiter is not pending: every chunk is read, then the read at the end of data fails and the
    buffered bytes are dropped -/
theorem Vd.recvUntilF_missing (fuel : Nat) (σ : Vd) (needle : Nat)
    (hrf : σ.port.rFail = []) (hn : needle ∉ σ.pending) (hf : σ.port.queue.length < fuel) :
    ∃ σ', Vd.recvUntilF fuel σ needle = (σ', none) ∧ σ'.pending = [] ∧ σ.port.WEq σ'.port := by
  induction fuel generalizing σ with
  | zero => omega
  | succ n ih =>
    unfold Vd.recvUntilF
    cases hs : splitFirst needle σ.buf with
    | some pq =>
      obtain ⟨p, q⟩ := pq
      obtain ⟨h1, _⟩ := splitFirst_some hs
      exact absurd (by simp [Vd.pending, h1]) hn
    | none =>
      simp only
      cases hq : σ.port.queue with
      | nil =>
        have hread : σ.port.read = ({ σ.port with nR := σ.port.nR + 1, nE := σ.port.nE + 1 }, none) := by
          unfold Port.read; simp [hrf, hq]
        rw [hread]
        exact ⟨_, rfl, by simp [Vd.pending, hq], ⟨rfl, rfl, rfl, rfl, rfl, rfl⟩⟩
      | cons c cs =>
        have hread : σ.port.read = ({ σ.port with nR := σ.port.nR + 1, queue := cs }, some c) := by
          unfold Port.read; simp [hrf, hq]
        rw [hread]
        simp only
        have := ih { σ with port := { σ.port with nR := σ.port.nR + 1, queue := cs }, buf := σ.buf ++ c }
          (by simpa using hrf) (by simpa [Vd.pending, hq] using hn) (by simp [hq] at hf; simpa using hf)
        obtain ⟨σ', e, hpend, hw⟩ := this
        exact ⟨σ', e, hpend, ⟨hw.1, hw.2.1, hw.2.2.1, hw.2.2.2.1, hw.2.2.2.2.1, hw.2.2.2.2.2⟩⟩

theorem Vd.recvUntil_missing (σ : Vd) (needle : Nat) (hrf : σ.port.rFail = []) (hn : needle ∉ σ.pending) :
    ∃ σ', σ.recvUntil needle = (σ', none) ∧ σ'.pending = [] ∧ σ.port.WEq σ'.port :=
  Vd.recvUntilF_missing _ σ needle hrf hn (by omega)

/-- **Silence.** Async frames and then no complete frame: the scanner reports failure with nothing left pending. -/
theorem Vd.receiveResponseF_silence (segs : List (Bytes × Bytes)) (fuel : Nat) (σ : Vd) (tail : Bytes)
    (hrf : σ.port.rFail = []) (hsegs : ∀ s ∈ segs, 58 ∉ s.1 ∧ 10 ∉ s.2) (ht : Partial tail)
    (hp : σ.pending = (segs.map asyncSeg).flatten ++ tail) (hf : segs.length < fuel) :
    ∃ σ', Vd.receiveResponseF fuel σ = (σ', none) ∧ σ'.pending = [] ∧ σ.port.WEq σ'.port := by
  induction segs generalizing σ fuel with
  | nil =>
    cases fuel with
    | zero => omega
    | succ n =>
      unfold Vd.receiveResponseF
      simp only
      simp only [List.map_nil, List.flatten_nil, List.nil_append] at hp
      rcases ht with h58 | ⟨noise, part, e, hn, hpt⟩
      · obtain ⟨σ1, e1, p1, w1⟩ := σ.recvUntil_missing 58 hrf (by rw [hp]; exact h58)
        rw [e1]
        exact ⟨σ1, rfl, p1, w1⟩
      · obtain ⟨σ1, e1, p1, w1, _, _⟩ := σ.recvUntil_complete 58 noise part hrf (by rw [hp, e]) hn
        rw [e1]; simp only
        obtain ⟨σ2, e2, p2, w2⟩ := σ1.recvUntil_missing 10 (by rw [w1.2.2.2.2.1]; exact hrf) (by rw [p1]; exact hpt)
        rw [e2]
        exact ⟨σ2, rfl, p2, w1.trans w2⟩
  | cons s segs ih =>
    cases fuel with
    | zero => simp at hf
    | succ n =>
      obtain ⟨hs1, hs2⟩ := hsegs s (by simp)
      unfold Vd.receiveResponseF
      simp only
      have hp' : σ.pending = s.1 ++ 58 :: ((65 :: s.2) ++ 10 :: ((segs.map asyncSeg).flatten ++ tail)) := by
        rw [hp]; simp [asyncSeg]
      obtain ⟨σ1, e1, p1, w1, _, _⟩ := σ.recvUntil_complete 58 s.1 _ hrf hp' hs1
      rw [e1]; simp only
      obtain ⟨σ2, e2, p2, w2, _, _⟩ := σ1.recvUntil_complete 10 (65 :: s.2) _ (by rw [w1.2.2.2.2.1]; exact hrf) p1
        (by intro hm; simp at hm; exact hs2 hm)
      rw [e2]; simp only
      rw [if_pos (by simp)]
      obtain ⟨σ3, e3, p3, w3⟩ := ih n σ2 (by rw [w2.2.2.2.2.1, w1.2.2.2.2.1]; exact hrf)
        (fun t ht => hsegs t (by simp [ht])) p2 (by simp at hf; omega)
      exact ⟨σ3, e3, p3, (w1.trans w2).trans w3⟩

/-- a send on a fault-free port: an idle attempt flushes first -/
theorem Vd.afterSend_clean (σ : Vd) (idle : Bool) (cmd : Nat) (data : Bytes) (hc : σ.port.Clean) :
    σ.sendOk idle cmd data = true ∧
    (σ.afterSend idle cmd data).pending = (if idle then [] else σ.pending) ++ σ.port.reply σ.port.nW ∧
    (σ.afterSend idle cmd data).port.replies = σ.port.replies ∧
    (σ.afterSend idle cmd data).port.nW = σ.port.nW + 1 ∧
    (σ.afterSend idle cmd data).port.Clean := by
  obtain ⟨hw, hr, hf⟩ := hc
  unfold Vd.sendOk Vd.afterSend Vd.write Port.write Port.reply Port.Clean
  cases idle
  · simp [hw, hr, hf, Vd.pending, filter_nonempty_flatten]
  · simp [hw, hr, hf, Vd.pending, filter_nonempty_flatten, Vd.flushReceiver, Port.flush]

theorem Port.Clean.of_weq {p q : Port} (hc : p.Clean) (h : p.WEq q) : q.Clean := by
  obtain ⟨_, _, _, w4, w5, w6⟩ := h
  exact ⟨by rw [w4]; exact hc.1, by rw [w5]; exact hc.2.1, by rw [w6]; exact hc.2.2⟩

/-- **A rejected frame costs exactly one attempt.** -/
theorem Vd.attempt_junk (σ : Vd) (idle : Bool) (addr : Nat) (j : Junk) (hj : j.Ok addr) (rest : Bytes)
    (hc : σ.port.Clean)
    (hpend : (if idle then [] else σ.pending) ++ σ.port.reply σ.port.nW = j.bytes ++ rest) :
    ∃ σ', σ.attempt idle addr = (σ', .retry) ∧ σ'.pending = rest ∧ σ'.port.replies = σ.port.replies ∧
      σ'.port.nW = σ.port.nW + 1 ∧ σ'.port.Clean := by
  obtain ⟨hok, hp, hrep, hnW, hc'⟩ := σ.afterSend_clean idle 7 (paramFor 7 addr) hc
  have hpend' : (σ.afterSend idle 7 (paramFor 7 addr)).pending =
      (j.segs.map asyncSeg).flatten ++ j.noise ++ 58 :: j.body ++ 10 :: rest := by
    rw [hp, hpend]; simp [Junk.bytes]
  obtain ⟨σ', hrr, hp', hweq, _, _⟩ := Vd.receiveResponseF_skip j.segs ((σ.afterSend idle 7 (paramFor 7 addr)).pending.length + 1)
    (σ.afterSend idle 7 (paramFor 7 addr)) j.noise j.body rest hc'.2.1 hj.segs hj.noise hj.body hj.notA hpend'
    (by rw [hpend']; have := flatten_asyncSeg_length j.segs
        simp only [List.length_append, List.append_assoc]; omega)
  refine ⟨σ', ?_, hp', by rw [hweq.2.2.1, hrep], by rw [hweq.2.1, hnW], hc'.of_weq hweq⟩
  unfold Vd.attempt Vd.veCommand
  rw [Vd.sendReceive_eq, hok]
  simp only [if_true]
  have : (σ.afterSend idle 7 (paramFor 7 addr)).receiveResponse = (σ', some j.body) := hrr
  rw [this]
  have hr := hj.rej
  unfold Rejected at hr
  simp only
  cases hpr : parseResponse 7 j.body with
  | panic => rw [hpr] at hr; exact hr.elim
  | err e => rfl
  | ok raw => rw [hpr] at hr; simp only at hr ⊢; rw [hr]

/-- **Silence costs exactly one attempt** and leaves nothing pending. -/
theorem Vd.attempt_silence (σ : Vd) (idle : Bool) (addr : Nat) (segs : List (Bytes × Bytes)) (tail : Bytes)
    (hsegs : ∀ s ∈ segs, 58 ∉ s.1 ∧ 10 ∉ s.2) (ht : Partial tail) (hc : σ.port.Clean)
    (hpend : (if idle then [] else σ.pending) ++ σ.port.reply σ.port.nW = (segs.map asyncSeg).flatten ++ tail) :
    ∃ σ', σ.attempt idle addr = (σ', .retry) ∧ σ'.pending = [] ∧ σ'.port.replies = σ.port.replies ∧
      σ'.port.nW = σ.port.nW + 1 ∧ σ'.port.Clean := by
  obtain ⟨hok, hp, hrep, hnW, hc'⟩ := σ.afterSend_clean idle 7 (paramFor 7 addr) hc
  obtain ⟨σ', hrr, hp', hweq⟩ := Vd.receiveResponseF_silence segs ((σ.afterSend idle 7 (paramFor 7 addr)).pending.length + 1)
    (σ.afterSend idle 7 (paramFor 7 addr)) tail hc'.2.1 hsegs ht (by rw [hp, hpend])
    (by rw [hp, hpend]; have := flatten_asyncSeg_length segs
        simp only [List.length_append]; omega)
  refine ⟨σ', ?_, hp', by rw [hweq.2.2.1, hrep], by rw [hweq.2.1, hnW], hc'.of_weq hweq⟩
  unfold Vd.attempt Vd.veCommand
  rw [Vd.sendReceive_eq, hok]
  simp only [if_true]
  have : (σ.afterSend idle 7 (paramFor 7 addr)).receiveResponse = (σ', none) := hrr
  rw [this]

/-- every wasted unit costs exactly one attempt -/
theorem Vd.attempt_waste (σ : Vd) (idle : Bool) (addr : Nat) (w : Waste) (hwo : w.Ok addr) (x : Bytes) (hl : w.Leaves x)
    (hc : σ.port.Clean)
    (hpend : (if idle then [] else σ.pending) ++ σ.port.reply σ.port.nW = w.bytes ++ x) :
    ∃ σ', σ.attempt idle addr = (σ', .retry) ∧ σ'.pending = x ∧ σ'.port.replies = σ.port.replies ∧
      σ'.port.nW = σ.port.nW + 1 ∧ σ'.port.Clean := by
  cases w with
  | frame j => exact σ.attempt_junk idle addr j hwo x hc hpend
  | silence segs tail =>
    simp only [Waste.Leaves] at hl
    subst hl
    exact σ.attempt_silence idle addr segs tail hwo.1 hwo.2 hc (by simpa [Waste.bytes] using hpend)

/-- **Completeness against a stream.** Rejected frames — each behind any amount of noise and async frames — and
    silences cost one attempt each; the valid matching frame behind `ws.length` of them ends the call at attempt
    `ws.length + 1` — with its payload (flag 0) or the device error — whatever follows, with exactly that
    many frames written. -/
theorem Vd.veCommandGetL_streamF (ws : List (Bool × Waste)) (i : Bool) (σ : Vd) (addr : Nat) (haddr : addr < 65536)
    (flag : Nat) (hflag : flag < 256) (payload : Bytes) (hpl : IsBytes payload) (hws : ∀ w ∈ ws, w.2.Ok addr)
    (segs : List (Bytes × Bytes)) (noise rest : Bytes)
    (hsegs : ∀ s ∈ segs, 58 ∉ s.1 ∧ 10 ∉ s.2) (hnoise : 58 ∉ noise) (hc : σ.port.Clean)
    (hfeed : Feeds σ.port.reply σ.port.nW σ.pending ws i
      ((segs.map asyncSeg).flatten ++ noise ++ frameOf (getResponseBody addr flag payload) ++ rest))
    (post : List Bool) :
    ∃ σ', Vd.veCommandGetL (ws.map (·.1) ++ i :: post) σ addr =
        (σ', match flagError flag with | some e => .err e | none => .ok payload) ∧
      σ'.port.nW = σ.port.nW + ws.length + 1 ∧ σ'.pending = rest := by
  induction ws generalizing σ with
  | nil =>
    simp only [Feeds] at hfeed
    obtain ⟨hok, hp, _, hnW, hc'⟩ := σ.afterSend_clean i 7 (paramFor 7 addr) hc
    obtain ⟨σ', ha, hp'⟩ := Vd.attempt_frame σ i addr haddr flag hflag payload hpl segs noise rest hok hc.2.1 hsegs hnoise
      (by rw [hp, hfeed])
    refine ⟨σ', ?_, ?_, hp'⟩
    · simp only [List.map_nil, List.nil_append]
      rw [Vd.veCommandGetL_cons, ha]
      cases flagError flag <;> rfl
    · have := σ.attempt_nW i addr
      rw [ha] at this; simpa using this
  | cons w ws ih =>
    simp only [Feeds] at hfeed
    obtain ⟨x, hx, hl, hfeed'⟩ := hfeed
    obtain ⟨σ1, ha, hp1, hrep1, hnW1, hc1⟩ := σ.attempt_waste w.1 addr w.2 (hws w (by simp)) x hl hc hx
    have hreply : σ1.port.reply = σ.port.reply := by
      funext k; unfold Port.reply; rw [hrep1]
    obtain ⟨σ', h, hn, hp'⟩ := ih σ1 (fun t ht => hws t (by simp [ht])) hc1
      (by rw [hreply, hnW1, hp1]; exact hfeed')
    refine ⟨σ', ?_, by rw [hn, hnW1]; simp only [List.length_cons]; omega, hp'⟩
    simp only [List.map_cons, List.cons_append]
    rw [Vd.veCommandGetL_cons, ha]
    exact h

/-- anything `VeCommand` does not parse is rejected -/
theorem rejected_of_not_ok (addr : Nat) (body : Bytes) (h : ∀ s, parseResponse 7 body ≠ .ok s) : Rejected addr body := by
  unfold Rejected
  cases hp : parseResponse 7 body with
  | panic => exact absurd hp (parseResponse_ne_panic 7 body)
  | err e => trivial
  | ok raw => exact absurd hp (h raw)

/-- a frame of another response type (Done, Unknown, Error, Ping, Set, the unassigned nibbles), intact or not, is rejected -/
theorem rejected_wrong_type (addr : Nat) (body : Bytes) (h : (unhexDigit (body.headD 0)).getD 0 ≠ responseFor 7) :
    Rejected addr body := by
  apply rejected_of_not_ok
  intro s hp
  obtain ⟨ck, _, hv⟩ := (parseResponse_ok_iff 7 body s).mp hp
  exact h hv.nibble

/-- a valid response for another register (whatever its flag and payload) is rejected -/
theorem rejected_other_register (addr other : Nat) (hother : other < 65536) (hne : addr ≠ other)
    (flag : Nat) (hflag : flag < 256) (payload : Bytes) (hp : IsBytes payload) :
    Rejected addr (getResponseBody other flag payload) := by
  obtain ⟨ck, hparse, _⟩ := wire_flag' other hother flag hflag payload hp
  unfold Rejected
  rw [hparse]
  simp only [List.cons_append, List.nil_append]
  rw [getStep_cons]
  have : (other % 256 + 256 * (other / 256 % 256)) % 65536 = other := by omega
  rw [this]; simp [hne]

/-- a complete valid response for another register makes a well-formed junk unit -/
theorem Junk.ok_other_register (addr other : Nat) (hother : other < 65536) (hne : addr ≠ other)
    (flag : Nat) (hflag : flag < 256) (payload : Bytes) (hp : IsBytes payload)
    (segs : List (Bytes × Bytes)) (noise : Bytes) (hsegs : ∀ s ∈ segs, 58 ∉ s.1 ∧ 10 ∉ s.2) (hnoise : 58 ∉ noise) :
    Junk.Ok addr ⟨segs, noise, getResponseBody other flag payload⟩ := by
  obtain ⟨hnl, hhead⟩ := getResponseBody_no_newline other flag payload hother hflag hp
  exact ⟨hsegs, hnoise, hnl, by rw [hhead]; simp, rejected_other_register addr other hother hne flag hflag payload hp⟩

/-- the state after the wasted units were consumed, one attempt each -/
theorem Vd.afterRetries_stream (ws : List (Bool × Waste)) (i : Bool) (σ : Vd) (addr : Nat) (hws : ∀ w ∈ ws, w.2.Ok addr)
    (fin : Bytes) (hc : σ.port.Clean) (hfeed : Feeds σ.port.reply σ.port.nW σ.pending ws i fin) :
    ∃ σk, Vd.afterRetries (ws.map (·.1)) σ addr = some σk ∧
      (if i then [] else σk.pending) ++ σk.port.reply σk.port.nW = fin ∧ σk.port.nW = σ.port.nW + ws.length := by
  induction ws generalizing σ with
  | nil => exact ⟨σ, rfl, by simpa [Feeds] using hfeed, rfl⟩
  | cons w ws ih =>
    simp only [Feeds] at hfeed
    obtain ⟨x, hx, hl, hfeed'⟩ := hfeed
    obtain ⟨σ1, ha, hp1, hrep1, hnW1, hc1⟩ := σ.attempt_waste w.1 addr w.2 (hws w (by simp)) x hl hc hx
    have hreply : σ1.port.reply = σ.port.reply := by
      funext k; unfold Port.reply; rw [hrep1]
    obtain ⟨σk, h, hp, hn⟩ := ih σ1 (fun t ht => hws t (by simp [ht])) hc1
      (by rw [hreply, hnW1, hp1]; exact hfeed')
    refine ⟨σk, ?_, hp, by rw [hn, hnW1]; simp only [List.length_cons]; omega⟩
    simp only [List.map_cons]
    unfold Vd.afterRetries
    rw [ha]
    exact h

/-! ### Ping and the device-id query against a stream (the two exchanges of a connect) -/

/-- body of a well-formed response of type `n` carrying `values` -/
def respBody (n : Nat) (values : Bytes) : Bytes := hexDigit n :: hexBytes (values ++ [checksum n values])

/-- any command: a well-formed response of the awaited type with at least two payload bytes is parsed to exactly its payload -/
theorem parseResponse_respBody (cmd : Nat) (values : Bytes) (hv : IsBytes values) (hl : 2 ≤ values.length)
    (hn : responseFor cmd < 16) :
    parseResponse cmd (respBody (responseFor cmd) values) = .ok ⟨values, [checksum (responseFor cmd) values]⟩ := by
  rw [parseResponse_ok_iff]
  refine ⟨_, rfl, ?_⟩
  have hall : IsBytes (values ++ [checksum (responseFor cmd) values]) :=
    hv.append (IsBytes.cons (checksum_lt _ _) IsBytes.nil)
  refine ⟨?_, ?_, ?_, ?_, rfl⟩
  · simp [respBody, hexBytes_length]; omega
  · simp [respBody, unhexDigit_hexDigit hn]
  · simp [respBody, hexBytes_length]
  · simp only [respBody, List.tail_cons]; exact unhex_hexBytes hall

theorem respBody_shape (n : Nat) (hn : n < 16) (values : Bytes) (hv : IsBytes values) :
    10 ∉ respBody n values ∧ ¬ ((respBody n values).headD 0 = 65 ∧ respBody n values ≠ []) ∨ n = 10 := by
  by_cases h10 : n = 10
  · exact Or.inr h10
  · left
    have hall : IsBytes (values ++ [checksum n values]) := hv.append (IsBytes.cons (checksum_lt _ _) IsBytes.nil)
    constructor
    · intro hm
      simp only [respBody, List.mem_cons] at hm
      rcases hm with h | h
      · unfold hexDigit at h; split at h <;> omega
      · exact not_mem_hexBytes hall (x := 10) (by decide) h
    · simp only [respBody, List.headD_cons]
      intro ⟨h, _⟩
      unfold hexDigit at h; split at h <;> omega

/-- **Ping behind noise and async frames.** Any complete non-async frame answers a ping. -/
theorem Vd.ping_stream (σ : Vd) (idle : Bool) (segs : List (Bytes × Bytes)) (noise body rest : Bytes) (hc : σ.port.Clean)
    (hsegs : ∀ s ∈ segs, 58 ∉ s.1 ∧ 10 ∉ s.2) (hnoise : 58 ∉ noise) (hbody : 10 ∉ body) (hA : ¬ (body.headD 0 = 65 ∧ body ≠ []))
    (hp : (if idle then [] else σ.pending) ++ σ.port.reply σ.port.nW = (segs.map asyncSeg).flatten ++ noise ++ 58 :: body ++ 10 :: rest) :
    ∃ σ', σ.ping idle = (σ', .ok ()) ∧ σ'.pending = rest ∧ σ'.port.replies = σ.port.replies ∧
      σ'.port.nW = σ.port.nW + 1 ∧ σ'.port.Clean := by
  obtain ⟨hok, hpend, hrep, hnW, hc'⟩ := σ.afterSend_clean idle 1 [] hc
  obtain ⟨σ', hrr, hp', hweq, _, _⟩ := Vd.receiveResponseF_skip segs ((σ.afterSend idle 1 []).pending.length + 1)
    (σ.afterSend idle 1 []) noise body rest hc'.2.1 hsegs hnoise hbody hA (by rw [hpend, hp])
    (by rw [hpend, hp]; have := flatten_asyncSeg_length segs
        simp only [List.length_append, List.append_assoc]; omega)
  have hr : (σ.afterSend idle 1 []).receiveResponse = (σ', some body) := hrr
  refine ⟨σ'.lineEnd, ?_, ?_, ?_, ?_, ?_⟩
  · unfold Vd.ping
    rw [Vd.sendReceive_eq, hok]
    simp only [if_true, hr]
  · unfold Vd.lineEnd; split <;> simpa [Vd.pending] using hp'
  · have : σ'.lineEnd.port = σ'.port := by unfold Vd.lineEnd; split <;> rfl
    rw [this, hweq.2.2.1, hrep]
  · have : σ'.lineEnd.port = σ'.port := by unfold Vd.lineEnd; split <;> rfl
    rw [this, hweq.2.1, hnW]
  · have : σ'.lineEnd.port = σ'.port := by unfold Vd.lineEnd; split <;> rfl
    rw [this]; exact hc'.of_weq hweq

/-- **The device id behind noise and async frames.** -/
theorem Vd.getDeviceId_stream (σ : Vd) (idle : Bool) (id : Nat) (hid : id < 65536)
    (segs : List (Bytes × Bytes)) (noise rest : Bytes) (hc : σ.port.Clean)
    (hsegs : ∀ s ∈ segs, 58 ∉ s.1 ∧ 10 ∉ s.2) (hnoise : 58 ∉ noise)
    (hp : (if idle then [] else σ.pending) ++ σ.port.reply σ.port.nW =
      (segs.map asyncSeg).flatten ++ noise ++ frameOf (respBody 1 [id % 256, id / 256 % 256]) ++ rest) :
    ∃ σ', σ.getDeviceId idle = (σ', .ok id) ∧ σ'.pending = rest ∧ σ'.port.nW = σ.port.nW + 1 := by
  have hv : IsBytes [id % 256, id / 256 % 256] := by intro b hb; simp at hb; omega
  obtain ⟨hok, hpend, hrep, hnW, hc'⟩ := σ.afterSend_clean idle 4 (paramFor 4 0) hc
  have ⟨hnl, hA⟩ : 10 ∉ respBody 1 [id % 256, id / 256 % 256] ∧
      ¬ ((respBody 1 [id % 256, id / 256 % 256]).headD 0 = 65 ∧ respBody 1 [id % 256, id / 256 % 256] ≠ []) := by
    rcases respBody_shape 1 (by omega) [id % 256, id / 256 % 256] hv with h | h
    · exact h
    · omega
  obtain ⟨σ', hrr, hp', hweq, _, _⟩ := Vd.receiveResponseF_skip segs ((σ.afterSend idle 4 (paramFor 4 0)).pending.length + 1)
    (σ.afterSend idle 4 (paramFor 4 0)) noise _ rest hc'.2.1 hsegs hnoise hnl hA (by rw [hpend, hp]; simp [frameOf])
    (by rw [hpend, hp]; have := flatten_asyncSeg_length segs
        simp only [List.length_append, List.append_assoc]; omega)
  have hr : (σ.afterSend idle 4 (paramFor 4 0)).receiveResponse = (σ', some (respBody 1 [id % 256, id / 256 % 256])) := hrr
  have hparse := parseResponse_respBody 4 [id % 256, id / 256 % 256] hv (by simp) (by decide)
  have h41 : responseFor 4 = 1 := by decide
  rw [h41] at hparse
  refine ⟨σ'.lineEnd, ?_, ?_, ?_⟩
  · unfold Vd.getDeviceId Vd.veCommand
    rw [Vd.sendReceive_eq, hok]
    simp only [if_true, hr, hparse]
    have hle : leNat [id % 256, id / 256 % 256] = id := by
      show id % 256 + 256 * (id / 256 % 256 + 256 * 0) = id
      omega
    simp [hle]
  · unfold Vd.lineEnd; split <;> simpa [Vd.pending] using hp'
  · have : σ'.lineEnd.port = σ'.port := by unfold Vd.lineEnd; split <;> rfl
    rw [this, hweq.2.1, hnW]

end Victron
