import Victron.Basic.Bytes
/- helper lemmas about hex encoding, little-endian numbers and the checksum -/
namespace Victron

theorem hexDigit_upper {n : Nat} (h : n < 16) : isUpperHexDigit (hexDigit n) = true := by
  unfold isUpperHexDigit hexDigit
  split <;> simp <;> omega

theorem unhexDigit_hexDigit {n : Nat} (h : n < 16) : unhexDigit (hexDigit n) = some n := by
  unfold unhexDigit hexDigit
  split
  · rw [if_pos (by omega)]; congr 1; omega
  · rw [if_neg (by omega), if_pos (by omega)]; congr 1; omega

theorem unhex_hexByte_cons {b : Nat} (hb : b < 256) (rest : Bytes) :
    unhex (hexByte b ++ rest) = (unhex rest).map (b :: ·) := by
  have h1 : b / 16 < 16 := by omega
  have h2 : b % 16 < 16 := by omega
  simp only [hexByte, List.cons_append, List.nil_append, unhex, unhexDigit_hexDigit h1, unhexDigit_hexDigit h2]
  cases unhex rest with
  | none => rfl
  | some r => simp; omega

theorem unhex_hexBytes {bs : Bytes} (h : IsBytes bs) : unhex (hexBytes bs) = some bs := by
  induction bs with
  | nil => rfl
  | cons b bs ih =>
    have : hexBytes (b :: bs) = hexByte b ++ hexBytes bs := by simp [hexBytes, List.flatMap_cons]
    rw [this, unhex_hexByte_cons h.head, ih h.tail]; rfl

theorem hexBytes_append (a b : Bytes) : hexBytes (a ++ b) = hexBytes a ++ hexBytes b := by
  simp [hexBytes, List.flatMap_append]

theorem hexBytes_length (bs : Bytes) : (hexBytes bs).length = 2 * bs.length := by
  induction bs with
  | nil => rfl
  | cons b bs ih =>
    have : hexBytes (b :: bs) = hexByte b ++ hexBytes bs := by simp [hexBytes, List.flatMap_cons]
    rw [this, List.length_append, ih]; simp [hexByte]; omega

theorem hexBytes_upper {bs : Bytes} (h : IsBytes bs) : ∀ d ∈ hexBytes bs, isUpperHexDigit d = true := by
  induction bs with
  | nil => intro d hd; cases hd
  | cons b bs ih =>
    intro d hd
    have : hexBytes (b :: bs) = hexByte b ++ hexBytes bs := by simp [hexBytes, List.flatMap_cons]
    rw [this] at hd
    have hb := h.head
    rcases List.mem_append.mp hd with h1 | h1
    · simp [hexByte] at h1
      rcases h1 with rfl | rfl
      · exact hexDigit_upper (by omega)
      · exact hexDigit_upper (by omega)
    · exact ih h.tail d h1

theorem hexByte_ne (b x : Nat) (hx : isUpperHexDigit x = false) : x ∉ hexByte b ∨ ¬ b < 256 := by
  by_cases hb : b < 256
  · left; intro hm
    have := hexBytes_upper (bs := [b]) (IsBytes.cons hb IsBytes.nil) x (by simpa [hexBytes] using hm)
    simp [this] at hx
  · right; exact hb

/-- no newline / colon inside hex text -/
theorem not_mem_hexBytes {bs : Bytes} (h : IsBytes bs) {x : Nat} (hx : isUpperHexDigit x = false) : x ∉ hexBytes bs := by
  intro hm; have := hexBytes_upper h x hm; simp [this] at hx

/-! little endian -/

theorem leNat_lt (bs : Bytes) (h : IsBytes bs) : leNat bs < 256 ^ bs.length := by
  induction bs with
  | nil => simp [leNat]
  | cons b bs ih =>
    have hb := h.head
    have := ih h.tail
    simp only [leNat, List.length_cons, Nat.pow_succ]
    omega

theorem leNat_encodeLE (w v : Nat) : leNat (encodeLE w v) = v % 256 ^ w := by
  induction w generalizing v with
  | zero => simp [encodeLE, leNat, Nat.mod_one]
  | succ w ih =>
    simp only [encodeLE, leNat, ih, Nat.pow_succ]
    rw [Nat.mul_comm (256 ^ w) 256, Nat.mod_mul]

theorem encodeLE_length (w v : Nat) : (encodeLE w v).length = w := by
  induction w generalizing v with
  | zero => rfl
  | succ w ih => simp [encodeLE, ih]

theorem encodeLE_isBytes (w v : Nat) : IsBytes (encodeLE w v) := by
  induction w generalizing v with
  | zero => exact IsBytes.nil
  | succ w ih => exact IsBytes.cons (by omega) (ih _)

/-! checksum -/

theorem sum_map_mod_le (data : Bytes) : (data.map (· % 256)).sum ≤ 255 * data.length := by
  induction data with
  | nil => simp
  | cons b bs ih => simp only [List.map_cons, List.sum_cons, List.length_cons]; omega

theorem map_mod_of_isBytes {data : Bytes} (h : IsBytes data) : data.map (· % 256) = data := by
  induction data with
  | nil => rfl
  | cons b bs ih => simp [List.map_cons, ih h.tail, Nat.mod_eq_of_lt h.head]

theorem checksum_lt (cmd : Nat) (data : Bytes) : checksum cmd data < 256 := by
  unfold checksum; omega

/-- command, payload and check byte sum to 0x55 modulo 256 -/
theorem checksum_sum (cmd : Nat) (data : Bytes) (h : IsBytes data) :
    (cmd % 256 + data.sum + checksum cmd data) % 256 = 0x55 := by
  unfold checksum
  rw [map_mod_of_isBytes h]
  have := sum_map_mod_le data
  rw [map_mod_of_isBytes h] at this
  omega

/-- the check byte is the only byte that makes the sum come out -/
theorem checksum_unique (cmd : Nat) (data : Bytes) (h : IsBytes data) (c : Nat) (hc : c < 256)
    (hs : (cmd % 256 + data.sum + c) % 256 = 0x55) : c = checksum cmd data := by
  have := checksum_sum cmd data h
  have := checksum_lt cmd data
  omega

end Victron
