import Victron.Gen.Tables
import Victron.Model.Api
import Victron.Model.Proto
import Victron.Proofs.Proto
import Victron.Props.C12
import Victron.Proofs.Stream
/-
  C11 — Connecting identifies the product correctly for every device id.
  Model: `connect` (NewRegisterApi) over an abstract transport + the regenerated tables; `connectVd`, the same
  two calls on the driver model, for the order of the frames. Compared with the real NewRegisterApi for all
  65536 device ids on a healthy simulated device and for the failure shapes (T3, exhaustive over ids).
-/
namespace Victron.C11
open Victron ListSpec

def conn (tr : Transport) : R (Nat × RegList) := connect tr Gen.products Gen.types C12.fam

/-- **An object is returned iff** the device answers the ping and the id query and the id denotes a known
    product of a supported class — for every id the device may report. -/
theorem connect_iff (tr : Transport) :
    (conn tr).isOk = true ↔ tr.ping = .ok () ∧ ∃ id, tr.devid = .ok id ∧ classOf (C12.row id) ≠ none := by
  unfold conn connect
  cases hp : tr.ping with
  | panic => simp [R.isOk]
  | err e => simp [R.isOk]
  | ok u =>
    cases hd : tr.devid with
    | panic => simp [R.isOk]
    | err e => simp [R.isOk]
    | ok id =>
      have hl := C12.list_by_class id
      simp only [C12.sel] at hl
      simp only
      rw [hl]
      by_cases hc : classOf (C12.row id) = none
      · have hne : ∀ id', R.ok id = R.ok id' → classOf (C12.row id') = none := by
          intro id' h; injection h with h; subst h; exact hc
        simp only [specOf, hc]
        split <;> simp [R.isOk, hc]
      · obtain ⟨c, hc'⟩ := Option.ne_none_iff_exists'.mp hc
        have hex : (productRow Gen.products id).exists_ = true := by
          have : classOf (C12.row id) ≠ none := hc
          unfold classOf at this
          by_cases he : (C12.row id).exists_ = true
          · exact he
          · simp [he] at this
        simp [specOf, hc', hex, R.isOk]

/-- in which case the object's product equals the id and its register list is the list defined for that product -/
theorem connect_product (tr : Transport) (id : Nat) (rl : RegList) (h : conn tr = .ok (id, rl)) :
    tr.devid = .ok id ∧ rl = (C12.sel id).1 ∧ (C12.sel id).2 = none := by
  unfold conn connect at h
  cases hp : tr.ping with
  | panic => simp [hp] at h
  | err e => simp [hp] at h
  | ok u =>
    cases hd : tr.devid with
    | panic => simp [hp, hd] at h
    | err e => simp [hp, hd] at h
    | ok id' =>
      simp only [hp, hd] at h
      split at h
      · simp at h
      · split at h
        · simp at h
        · rename_i rl' hs
          simp at h
          obtain ⟨rfl, rfl⟩ := h
          exact ⟨rfl, by simp [C12.sel, hs], by simp [C12.sel, hs]⟩

/-- in every other case an error and no object are returned (the result type carries no object on `err`) -/
theorem connect_err_no_object (tr : Transport) (h : (conn tr).isOk = false) : ∃ e, conn tr = .err e ∨ conn tr = .panic := by
  cases hc : conn tr with
  | ok v => rw [hc] at h; simp [R.isOk] at h
  | err e => exact ⟨e, Or.inl rfl⟩
  | panic => exact ⟨.other, Or.inr rfl⟩

/-- never a panic from the connect logic itself -/
theorem connect_no_panic (tr : Transport) (hp : tr.ping ≠ .panic) (hd : tr.devid ≠ .panic) : conn tr ≠ .panic := by
  unfold conn connect
  cases h1 : tr.ping with
  | panic => exact absurd h1 hp
  | err e => simp
  | ok u =>
    cases h2 : tr.devid with
    | panic => exact absurd h2 hd
    | err e => simp
    | ok id =>
      simp only
      split
      · simp
      · split <;> simp

/-- the two calls on the driver model -/
def connectVd (σ : Vd) (i1 i2 : Bool) : Vd × R Nat :=
  match σ.ping i1 with
  | (σ1, .ok ()) => σ1.getDeviceId i2
  | (σ1, .err e) => (σ1, .err e)
  | (σ1, .panic) => (σ1, .panic)

theorem lineEnd_port (σ : Vd) : σ.lineEnd.port = σ.port := by
  unfold Vd.lineEnd; split <;> rfl

/-- **Order.** Connecting pings first and then asks the device id: the frames written are `:154\n` and then —
    only if the ping was answered — `:451\n`; nothing else is written. -/
theorem connect_order (σ : Vd) (i1 i2 : Bool) :
    ∃ a b, a ≤ 1 ∧ b ≤ 1 ∧
      (connectVd σ i1 i2).1.port.written = List.replicate b (tx 4 0) ++ List.replicate a (tx 1 0) ++ σ.port.written ∧
      ((σ.ping i1).2 ≠ .ok () → b = 0) := by
  obtain ⟨a, ha, hw, _⟩ := σ.sendReceive_written i1 1 []
  have hping : (σ.ping i1).1.port.written = List.replicate a (tx 1 0) ++ σ.port.written := by
    unfold Vd.ping; simp only [lineEnd_port]; simpa [tx, paramFor] using hw
  unfold connectVd
  cases hp : σ.ping i1 with
  | mk σ1 r =>
    rw [hp] at hping
    cases r with
    | ok u =>
      obtain ⟨b, hb, hw2, _⟩ := veCommand_written σ1 i2 4 0
      refine ⟨a, b, ha, hb, ?_, by simp⟩
      simp only
      unfold Vd.getDeviceId
      simp only [lineEnd_port]
      rw [hw2, hping]; simp
    | err e => exact ⟨a, 0, ha, by omega, by simpa using hping, by simp⟩
    | panic => exact ⟨a, 0, ha, by omega, by simpa using hping, by simp⟩

/-- **A device that answers both is connected** (driver level, fault-free port): whatever amount of text-protocol
    noise and asynchronous frames the device sends in front of its answers — a burst of any length, also left over from
    before the connect when the ping is not the first command after an idle period — the ping is answered by any
    complete non-async frame and the id query by the Done frame carrying `id`; the two exchanges yield `id` with exactly
    two frames written (`:154\n` then `:451\n`, `connect_order`). Whether `id` then gives an object is `connect_iff`. -/
theorem connect_answers_both (σ : Vd) (i1 i2 : Bool) (id : Nat) (hid : id < 65536)
    (segs1 segs2 : List (Bytes × Bytes)) (noise1 noise2 body rest1 rest2 : Bytes) (hc : σ.port.Clean)
    (hs1 : ∀ s ∈ segs1, 58 ∉ s.1 ∧ 10 ∉ s.2) (hn1 : 58 ∉ noise1) (hb : 10 ∉ body) (hA : ¬ (body.headD 0 = 65 ∧ body ≠ []))
    (hs2 : ∀ s ∈ segs2, 58 ∉ s.1 ∧ 10 ∉ s.2) (hn2 : 58 ∉ noise2)
    (hping : (if i1 then [] else σ.pending) ++ σ.port.reply σ.port.nW =
      (segs1.map asyncSeg).flatten ++ noise1 ++ 58 :: body ++ 10 :: rest1)
    (hdev : (if i2 then [] else rest1) ++ σ.port.reply (σ.port.nW + 1) =
      (segs2.map asyncSeg).flatten ++ noise2 ++ frameOf (respBody 1 [id % 256, id / 256 % 256]) ++ rest2) :
    ∃ σ', connectVd σ i1 i2 = (σ', .ok id) ∧ σ'.pending = rest2 ∧ σ'.port.nW = σ.port.nW + 2 := by
  obtain ⟨σ1, h1, hp1, hrep1, hnW1, hc1⟩ := σ.ping_stream i1 segs1 noise1 body rest1 hc hs1 hn1 hb hA hping
  have hreply : σ1.port.reply = σ.port.reply := by funext k; unfold Port.reply; rw [hrep1]
  obtain ⟨σ2, h2, hp2, hnW2⟩ := σ1.getDeviceId_stream i2 id hid segs2 noise2 rest2 hc1 hs2 hn2
    (by rw [hreply, hnW1, hp1]; exact hdev)
  refine ⟨σ2, ?_, hp2, by rw [hnW2, hnW1]⟩
  unfold connectVd
  rw [h1]
  exact h2

/-- non-vacuity: a pong behind a burst of 40 asynchronous frames, the id behind text output -/
example : (connectVd { port := { replies := [[(List.replicate 40 (asyncSeg ([], hexBytes [1, 2]))).flatten ++ frameOf (respBody 5 [0x16, 0x41])],
      ["\r\nV\t12800".toList.map Char.toNat ++ frameOf (respBody 1 [0x56, 0xA0])]] } } true false).2 = .ok 0xA056 := by decide +kernel

example : tx 1 0 = ":154\n".toList.map Char.toNat ∧ tx 4 0 = ":451\n".toList.map Char.toNat := by decide

/-- non-vacuity: a SmartSolar 100|30 is connected; an IP43 charger, an unknown id and a silent device are not -/
example : (conn ⟨.ok (), .ok 0xA056, fun _ => .err .other⟩).isOk = true := by decide +kernel
example : conn ⟨.ok (), .ok 0xA340, fun _ => .err .other⟩ = .err .unsupportedType := by decide +kernel
example : conn ⟨.ok (), .ok 0x1234, fun _ => .err .other⟩ = .err .other := by decide +kernel
example : conn ⟨.err .other, .ok 0xA056, fun _ => .err .other⟩ = .err .other := by decide +kernel

end Victron.C11
