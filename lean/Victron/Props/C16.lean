import Victron.Model.Tables
/-
  C16 — A register list behaves as four ordered sequences under any operation history.
  Model = spec: `RegList` (registerList.go, filter.go) *is* four lists with `List.append`, `List.filter` and
  core's stable `List.mergeSort`; the tie to the Go container (slices, generics, sort.SliceStable) is the
  correspondence on operation sequences (T3, exhaustive for short sequences over a small alphabet).
-/
namespace Victron.C16
open Victron

inductive Op where
  | appendN (rs : List Reg) | appendT (rs : List Reg) | appendE (rs : List Reg) | appendF (rs : List Reg)
  | filter (p : Reg → Bool)
  | filterByName (names : List String)

def step (rl : RegList) : Op → RegList
  | .appendN rs => rl.appendN rs
  | .appendT rs => rl.appendT rs
  | .appendE rs => rl.appendE rs
  | .appendF rs => rl.appendF rs
  | .filter p => rl.filter p
  | .filterByName ns => rl.filterByName ns

def run (ops : List Op) (rl : RegList) : RegList := ops.foldl step rl

/-- what one plain ordered sequence of kind `k` (1..4) does under an operation -/
def seqStep (k : Nat) (l : List Reg) : Op → List Reg
  | .appendN rs => if k = 1 then l ++ rs else l
  | .appendT rs => if k = 2 then l ++ rs else l
  | .appendE rs => if k = 3 then l ++ rs else l
  | .appendF rs => if k = 4 then l ++ rs else l
  | .filter p => l.filter p
  | .filterByName ns => l.filter (fun r => !ns.contains r.name)

/-- **Refinement.** After any sequence of appends and filters the list equals what four plain ordered
    sequences would hold: appends add at the end of the matching sequence and leave the others alone, a
    filter keeps exactly the elements satisfying the predicate in their original order, a name filter drops
    exactly the named registers. -/
theorem run_refines (ops : List Op) (rl : RegList) :
    run ops rl = ⟨ops.foldl (seqStep 1) rl.n, ops.foldl (seqStep 2) rl.t, ops.foldl (seqStep 3) rl.e, ops.foldl (seqStep 4) rl.f⟩ := by
  induction ops generalizing rl with
  | nil => rfl
  | cons op ops ih =>
    simp only [run, List.foldl_cons] at ih ⊢
    rw [ih]
    cases op <;> rfl

theorem filter_keeps_order (l : List Reg) (p : Reg → Bool) : (l.filter p).Sublist l ∧ ∀ r, r ∈ l.filter p ↔ r ∈ l ∧ p r = true :=
  ⟨List.filter_sublist, fun r => List.mem_filter⟩

theorem name_filter_drops_named (l : List Reg) (ns : List String) (r : Reg) :
    r ∈ l.filter (fun r => !ns.contains r.name) ↔ r ∈ l ∧ r.name ∉ ns := by
  simp [List.mem_filter]

/-- the length is the total count -/
theorem len_total (rl : RegList) : rl.len = rl.all.length := by
  simp [RegList.len, RegList.all]; omega

/-- the combined view holds exactly the elements of the four sequences … -/
theorem getRegisters_perm (rl : RegList) : rl.getRegisters.Perm rl.all := List.mergeSort_perm _ _

/-- … in non-decreasing sort-key order … -/
theorem getRegisters_sorted (rl : RegList) : rl.getRegisters.Pairwise (fun a b => a.sort ≤ b.sort) := by
  have := List.pairwise_mergeSort (le := fun (a b : Reg) => decide (a.sort ≤ b.sort))
    (by intro a b c h1 h2; simp at h1 h2 ⊢; omega) (by intro a b; simp; omega) rl.all
  simpa [RegList.getRegisters] using this

/-- … and stably: elements with equal sort keys keep the order numbers, texts, enums, field lists and their
    order within each sequence (every sorted sublist of the concatenation survives as a sublist) -/
theorem getRegisters_stable (rl : RegList) (c : List Reg) (hc : c.Sublist rl.all)
    (hs : c.Pairwise (fun a b => a.sort ≤ b.sort)) : c.Sublist rl.getRegisters := by
  apply List.sublist_mergeSort (le := fun (a b : Reg) => decide (a.sort ≤ b.sort))
    (by intro a b c h1 h2; simp at h1 h2 ⊢; omega) (by intro a b; simp; omega) _ hc
  simpa using hs

/-- non-vacuity: a concrete history -/
def r (k : Nat) (n : String) (s : Int) : Reg := ⟨k, "", n, "", s, 0, false, false, false, 1, "0", "", ""⟩
def demo : RegList := run [.appendN [r 1 "a" 5, r 1 "b" 1], .appendT [r 2 "c" 1], .filterByName ["a"], .appendN [r 1 "d" 1]] {}
example : demo.n.map (·.name) = ["b", "d"] ∧ demo.t.map (·.name) = ["c"] ∧ demo.len = 3 := by decide +kernel
example : [r 1 "b" 1, r 2 "c" 1].Sublist demo.all ∧ [r 1 "b" 1, r 2 "c" 1].Pairwise (fun a b => a.sort ≤ b.sort) := by
  refine ⟨by decide +kernel, by simp [r]⟩

end Victron.C16
