import Victron.Model.Proto
import Victron.Proofs.Frame
import Victron.Proofs.Scan
import Victron.Proofs.Supply
/-
  C01 — Receive integrity: only valid, matching Get responses are ever accepted.
  Model: `parseResponse`, `getStep` (vecommand.go), `Vd.*` (driver on the scripted port).
-/
namespace Victron.C01
open Victron

/-- the state right after attempt's command frame was handed to the port (idle flush done, reply queued) -/
def afterSend (σ : Vd) (idle : Bool) (cmd : Nat) (data : Bytes) : Vd :=
  ((if idle then σ.flushReceiver else σ).write (txFrame cmd data)).1

/-- `VeCommand` returns a payload only if the bytes pending after the command was sent contain a complete
    frame `':' body '\n'` (no newline inside `body`) whose body is valid for the command: ≥ 7 characters,
    the expected response type, an even number of hex digits, correct check byte — and the payload returned
    is exactly the decoding of that body. -/
theorem veCommand_sound (σ σ' : Vd) (idle : Bool) (cmd addr : Nat) (s : Slice)
    (h : σ.veCommand idle cmd addr = (σ', .ok s)) :
    ∃ body skipped ck,
      (afterSend σ idle cmd (paramFor cmd addr)).pending = skipped ++ 58 :: body ++ 10 :: σ'.pending ∧
      10 ∉ body ∧ ValidBody cmd body s.data ck := by
  unfold Vd.veCommand at h
  generalize hsr : σ.sendReceive idle cmd (paramFor cmd addr) = sr at h
  obtain ⟨σ1, r⟩ := sr
  cases r with
  | none => simp at h
  | some resp =>
    simp at h
    obtain ⟨rfl, hp⟩ := h
    obtain ⟨ck, _, hv⟩ := (parseResponse_ok_iff cmd resp s).mp hp
    unfold Vd.sendReceive at hsr
    simp only at hsr
    generalize hw : (if idle = true then σ.flushReceiver else σ).write (txFrame cmd (paramFor cmd addr)) = w at hsr
    obtain ⟨σs, ok⟩ := w
    cases ok with
    | false => simp at hsr
    | true =>
      simp at hsr
      obtain ⟨sk, hs, hn, _⟩ := Vd.receiveResponse_ok _ _ _ hsr
      have ha : afterSend σ idle cmd (paramFor cmd addr) = σs := by simp [afterSend, hw]
      exact ⟨resp, sk, ck, by rw [ha]; exact hs, hn, hv⟩

/-- **C01 for register reads.** `VeCommandGet addr` returns a value `v` only if, after some attempt's
    command was sent, the pending bytes contained a complete frame that is a Get response (type 7) with a
    correct check byte whose payload is `addr_lo addr_hi 00 v` — requested address, flag 0 — and `v` is
    exactly the rest of that payload. Holds for every port script, fault plan, pending stream and idle pattern. -/
theorem get_sound (idles : List Bool) (σ σ' : Vd) (addr : Nat) (haddr : addr < 65536) (v : Bytes)
    (h : Vd.veCommandGetL idles σ addr = (σ', .ok v)) :
    ∃ (σa : Vd) (idle : Bool) (σr : Vd) (body skipped : Bytes) (ck : Nat),
      (afterSend σa idle 7 (paramFor 7 addr)).pending = skipped ++ 58 :: body ++ 10 :: σr.pending ∧
      10 ∉ body ∧ ValidBody 7 body ([addr % 256, addr / 256 % 256, 0] ++ v) ck := by
  induction idles generalizing σ with
  | nil => simp [Vd.veCommandGetL] at h
  | cons idle idles ih =>
    unfold Vd.veCommandGetL at h
    simp only at h
    split at h
    · simp at h
    · exact ih _ h
    · rename_i σ1 raw hc
      split at h
      · exact ih _ h
      · simp at h
      · rename_i v' hg
        simp at h; obtain ⟨rfl, rfl⟩ := h
        obtain ⟨body, sk, ck, hp, hn, hv⟩ := veCommand_sound σ _ idle 7 addr raw (by rw [← hc])
        have := getStep_value addr haddr raw hv.isBytes.1 _ hg
        rw [this] at hv
        exact ⟨σ, idle, _, body, sk, ck, hp, hn, hv⟩
      · simp at h

/-- **…and that frame was received from the device.** The accepting attempt is preceded by attempts that all
    retried, starting from the state the call was made in; the state `σa` in which the accepted frame was
    pending is the state those attempts lead to (not just any state), what stays pending afterwards is what
    followed the frame, and everything that was pending then — the frame included — is a subsequence, order
    kept, of what was pending when the call was made followed by the replies the port delivers for the writes
    since: bytes are only ever dropped (flush, failed read), never invented or reordered. -/
theorem get_sound_received (idles : List Bool) (σ σ' : Vd) (addr : Nat) (haddr : addr < 65536) (v : Bytes)
    (h : Vd.veCommandGetL idles σ addr = (σ', .ok v)) :
    ∃ (pre : List Bool) (idle : Bool) (post : List Bool) (σa : Vd) (body skipped : Bytes) (ck : Nat),
      idles = pre ++ idle :: post ∧ Vd.afterRetries pre σ addr = some σa ∧
      (σa.afterSend idle 7 (paramFor 7 addr)).pending = skipped ++ 58 :: body ++ 10 :: σ'.pending ∧
      10 ∉ body ∧ ValidBody 7 body ([addr % 256, addr / 256 % 256, 0] ++ v) ck ∧
      (skipped ++ 58 :: body ++ 10 :: σ'.pending).Sublist (σ.pending ++ σ.port.future) := by
  induction idles generalizing σ with
  | nil => simp [Vd.veCommandGetL] at h
  | cons idle idles ih =>
    rw [Vd.veCommandGetL_cons] at h
    cases ha : σ.attempt idle addr with
    | mk σ1 o =>
      rw [ha] at h
      cases o with
      | retry =>
        simp only at h
        obtain ⟨pre, i, post, σa, body, sk, ck, hi, hr, hp, hn, hv, hs⟩ := ih σ1 h
        refine ⟨idle :: pre, i, post, σa, body, sk, ck, by simp [hi], ?_, hp, hn, hv, ?_⟩
        · unfold Vd.afterRetries; rw [ha]; exact hr
        · have := σ.attempt_supply idle addr
          rw [ha] at this
          exact hs.trans this
      | done r =>
        simp only at h
        obtain ⟨rfl, rfl⟩ := Prod.mk.inj h
        -- the attempt that decided: unfold it
        have hv : ∃ raw, σ.veCommand idle 7 addr = (σ1, .ok raw) ∧ getStep addr raw = .value v := by
          unfold Vd.attempt at ha
          cases hc : σ.veCommand idle 7 addr with
          | mk σc rc =>
            rw [hc] at ha
            cases rc with
            | panic => simp at ha
            | err e => simp at ha
            | ok raw =>
              simp only at ha
              cases hg : getStep addr raw with
              | retry => rw [hg] at ha; simp at ha
              | fail e => rw [hg] at ha; simp at ha
              | panic => rw [hg] at ha; simp at ha
              | value w =>
                rw [hg] at ha
                simp only [Prod.mk.injEq, Outcome.done.injEq, R.ok.injEq] at ha
                exact ⟨raw, by rw [ha.1], by rw [hg, ha.2]⟩
        obtain ⟨raw, hc, hg⟩ := hv
        obtain ⟨body, sk, ck, hp, hn, hvb⟩ := veCommand_sound σ σ1 idle 7 addr raw hc
        have := getStep_value addr haddr raw hvb.isBytes.1 _ hg
        rw [this] at hvb
        have hp' : (σ.afterSend idle 7 (paramFor 7 addr)).pending = sk ++ 58 :: body ++ 10 :: σ1.pending := hp
        refine ⟨[], idle, idles, σ, body, sk, ck, rfl, rfl, hp', hn, hvb, ?_⟩
        rw [← hp']
        exact σ.afterSend_supply idle 7 (paramFor 7 addr)

theorem getRaw_sound (idles : List Bool) (σ σ' : Vd) (addr : Nat) (haddr : addr < 65536) (v : Bytes)
    (h : σ.veCommandGet idles addr = (σ', .ok v)) :
    ∃ (σa : Vd) (idle : Bool) (σr : Vd) (body skipped : Bytes) (ck : Nat),
      (afterSend σa idle 7 (paramFor 7 addr)).pending = skipped ++ 58 :: body ++ 10 :: σr.pending ∧
      10 ∉ body ∧ ValidBody 7 body ([addr % 256, addr / 256 % 256, 0] ++ v) ck :=
  get_sound _ σ σ' addr haddr v h

/-- the typed accessors return the decoding of that same payload, or an error; never anything else -/
theorem uint_sound (σ : Vd) (idles : List Bool) (addr n : Nat) (h : (σ.getUint idles addr).2 = .ok n) :
    ∃ v, (σ.veCommandGet idles addr).2 = .ok v ∧ n = leUint v := by
  unfold Vd.getUint at h
  simp only at h
  cases hr : (σ.veCommandGet idles addr).2 with
  | ok v => rw [hr] at h; simp [R.map'] at h; exact ⟨v, rfl, h.symm⟩
  | err e => rw [hr] at h; simp [R.map'] at h
  | panic => rw [hr] at h; simp [R.map'] at h

theorem int_sound (σ : Vd) (idles : List Bool) (addr : Nat) (n : Int) (h : (σ.getInt idles addr).2 = .ok n) :
    ∃ v, (σ.veCommandGet idles addr).2 = .ok v ∧ leInt v = .ok n := by
  unfold Vd.getInt at h
  simp only at h
  cases hr : (σ.veCommandGet idles addr).2 with
  | ok v => rw [hr] at h; exact ⟨v, rfl, h⟩
  | err e => rw [hr] at h; simp [R.bind] at h
  | panic => rw [hr] at h; simp [R.bind] at h

theorem string_sound (σ : Vd) (idles : List Bool) (addr : Nat) (t : Bytes) (h : (σ.getString idles addr).2 = .ok t) :
    ∃ v, (σ.veCommandGet idles addr).2 = .ok v ∧ t = trimNul v := by
  unfold Vd.getString at h
  simp only at h
  cases hr : (σ.veCommandGet idles addr).2 with
  | ok v => rw [hr] at h; simp [R.map'] at h; exact ⟨v, rfl, h.symm⟩
  | err e => rw [hr] at h; simp [R.map'] at h
  | panic => rw [hr] at h; simp [R.map'] at h

/-- **C01 for the device-id query**: an id is returned only for a complete valid Done (type 1) frame, and it
    is the little-endian value of the first two payload bytes of that frame. -/
theorem deviceId_sound (σ : Vd) (idle : Bool) (id : Nat) (h : (σ.getDeviceId idle).2 = .ok id) :
    ∃ (σr : Vd) (body skipped : Bytes) (ck : Nat) (payload : Bytes),
      (afterSend σ idle 4 []).pending = skipped ++ 58 :: body ++ 10 :: σr.pending ∧
      10 ∉ body ∧ ValidBody 4 body payload ck ∧ responseFor 4 = 1 ∧ id = leNat (payload.take 2) := by
  unfold Vd.getDeviceId at h
  simp only at h
  cases hr : σ.veCommand idle 4 0 with
  | mk σ1 r =>
    rw [hr] at h
    cases r with
    | ok raw =>
      simp only at h
      split at h; · simp at h
      simp at h
      obtain ⟨body, sk, ck, hp, hn, hv⟩ := veCommand_sound σ σ1 idle 4 0 raw hr
      exact ⟨σ1, body, sk, ck, raw.data, by simpa [paramFor] using hp, hn, hv, rfl, h.symm⟩
    | err e => simp at h
    | panic => simp at h

/-! Corruption classes named by the property: none of them is accepted. -/

theorem reject_truncated (cmd : Nat) (body : Bytes) (h : body.length < 7) (s : Slice) : parseResponse cmd body ≠ .ok s := by
  intro hp; obtain ⟨ck, _, hv⟩ := (parseResponse_ok_iff cmd body s).mp hp
  have := hv.len; omega

theorem reject_wrong_type (cmd : Nat) (body : Bytes) (h : (unhexDigit (body.headD 0)).getD 0 ≠ responseFor cmd) (s : Slice) :
    parseResponse cmd body ≠ .ok s := by
  intro hp; obtain ⟨ck, _, hv⟩ := (parseResponse_ok_iff cmd body s).mp hp
  exact h hv.nibble

theorem reject_odd_length (cmd : Nat) (body : Bytes) (h : body.tail.length % 2 = 1) (s : Slice) : parseResponse cmd body ≠ .ok s := by
  intro hp; obtain ⟨ck, _, hv⟩ := (parseResponse_ok_iff cmd body s).mp hp
  have := hv.even; omega

theorem reject_non_hex (cmd : Nat) (body : Bytes) (h : unhex body.tail = none) (s : Slice) : parseResponse cmd body ≠ .ok s := by
  intro hp; obtain ⟨ck, _, hv⟩ := (parseResponse_ok_iff cmd body s).mp hp
  rw [hv.hex] at h; simp at h

theorem reject_bad_check_byte (cmd : Nat) (body values : Bytes) (ck : Nat)
    (hx : unhex body.tail = some (values ++ [ck])) (h : ck ≠ checksum (responseFor cmd) values) (s : Slice) :
    parseResponse cmd body ≠ .ok s := by
  intro hp; obtain ⟨ck', _, hv⟩ := (parseResponse_ok_iff cmd body s).mp hp
  rw [hv.hex] at hx
  have := List.append_inj' (Option.some.inj hx) rfl
  simp at this
  obtain ⟨h1, h2⟩ := this
  rw [h1, h2] at hv
  exact h hv.sum.symm

/-- a frame for another register (or with a non-zero flag) never yields a value -/
theorem reject_foreign_address (addr a b f : Nat) (v spare : Bytes) (h : addr ≠ (a + 256 * b) % 65536) :
    getStep addr ⟨a :: b :: f :: v, spare⟩ = .retry := by
  rw [getStep_cons]; simp [h]

theorem reject_nonzero_flag (addr a b f : Nat) (v spare w : Bytes) (hf : f % 256 ≠ 0) :
    getStep addr ⟨a :: b :: f :: v, spare⟩ ≠ .value w := by
  rw [getStep_cons]
  split; · simp
  split; · simp
  rename_i hnone
  exact absurd ((flagError_none_iff _).mp hnone) hf

/-- non-vacuity: a silent first attempt, then the good frame for `Get 0x0100` (value 0x2A) behind noise and
    an async frame — the model returns the value; and `get_sound`'s hypothesis is met by this run. -/
def demoPort : Port := { replies := [[], ["xy\r\n".toList.map Char.toNat, frameOf (getResponseBody 0x0A 0 [1]) , frameOf (getResponseBody 0x0100 0 [0x2A, 0])]] }
example : ((Vd.veCommandGet { port := demoPort } [true] 0x0100).2) = .ok [0x2A, 0] := by decide

end Victron.C01
