import Victron.Gen.Tables
import Victron.Model.Tables
/-
  C15 — Field lists expose exactly the documented bits and render deterministically.
  `Gen.fieldLists`: the three index-to-name maps regenerated from /repo (T1). `EnumTable.fields` and
  `EnumTable.commaString` model `NewFieldList(raw).Fields()` and `FieldListValue.CommaString()`; they are
  tied to the real functions by the correspondence (16-bit type exhaustively; all combinations of the
  documented bits x settings of the other bits incl. bits >= 32; every value rendered repeatedly) (T3).
  In the model rendering is a function of (table, raw): determinism is functionality.
-/
namespace Victron.C15
open Victron

def docIdx (T : EnumTable) : List Int := T.entries.map (·.1)

/-- the decoded field set has exactly the documented indices as keys, in table order -/
theorem fields_keys (T : EnumTable) (raw : Nat) : (T.fields raw).map (·.1) = docIdx T := by
  simp [EnumTable.fields, docIdx, List.map_map, Function.comp_def]

/-- field i is marked set iff bit i of the raw value is set — for every raw value of any size -/
theorem fields_bit (T : EnumTable) (raw : Nat) (i : Int) (b : Bool) (h : (i, b) ∈ T.fields raw) :
    i ∈ docIdx T ∧ b = raw.testBit i.toNat := by
  simp only [EnumTable.fields, List.mem_map] at h
  obtain ⟨e, he, heq⟩ := h
  injection heq with h1 h2
  subst h1; subst h2
  exact ⟨List.mem_map.mpr ⟨e, he, rfl⟩, rfl⟩

/-- undocumented bits never matter: two raw values that agree on the documented bits decode identically -/
theorem undocumented_bits_irrelevant (T : EnumTable) (raw raw' : Nat)
    (h : ∀ i ∈ docIdx T, raw.testBit i.toNat = raw'.testBit i.toNat) : T.fields raw = T.fields raw' := by
  simp only [EnumTable.fields]
  apply List.map_congr_left
  intro e he
  rw [h e.1 (List.mem_map.mpr ⟨e, he, rfl⟩)]

/-- all documented indices of today's tables are below 16 (warning reasons) resp. 32 (off reasons), are
    non-negative, strictly ascending, and carry non-empty names -/
def tableOk (width : Nat) (T : EnumTable) : Bool :=
  T.entries.all (fun e => 0 ≤ e.1 && e.1 < width && e.2 != "") &&
  (T.entries.zip T.entries.tail).all (fun p => p.1.1 < p.2.1)

theorem tables_ok : tableOk 32 Gen.fieldsInverterOffReasons = true ∧ tableOk 32 Gen.fieldsSolarOffReasons = true ∧
    tableOk 16 Gen.fieldsInverterWarningReasons = true := by decide +kernel

theorem three : Gen.fieldLists = [Gen.fieldsInverterOffReasons, Gen.fieldsSolarOffReasons, Gen.fieldsInverterWarningReasons] := rfl

/-- narrowing the raw value to the type's width (uint32 / uint16 in the code) loses nothing: bits at or
    above the width — bits >= 32 included — have no influence -/
theorem width_truncation (width : Nat) (T : EnumTable) (hT : tableOk width T = true) (raw : Nat) :
    T.fields (raw % 2 ^ width) = T.fields raw := by
  apply undocumented_bits_irrelevant
  intro i hi
  simp only [tableOk, Bool.and_eq_true] at hT
  obtain ⟨e, he, rfl⟩ := List.mem_map.mp hi
  have := List.all_eq_true.mp hT.1 e he
  simp only [Bool.and_eq_true, decide_eq_true_eq] at this
  have hlt : e.1.toNat < width := by omega
  rw [Nat.testBit_mod_two_pow]
  simp [hlt]

/-- the rendering names exactly the set fields, each once, in ascending index order, joined by ", " -/
theorem render_exact (T : EnumTable) (raw : Nat) :
    T.commaString raw = String.intercalate ", " (((T.fields raw).zip T.entries).filterMap (fun p => if p.1.2 then some p.2.2 else none)) := by
  simp only [EnumTable.commaString, EnumTable.fields]
  congr 1
  induction T.entries with
  | nil => rfl
  | cons e t ih =>
    simp only [List.map_cons, List.zip_cons_cons, List.filterMap_cons, List.filter_cons]
    cases h : raw.testBit e.1.toNat <;> simp [h, ih]

/-- the rendering is a function of the value alone: every production of it is identical -/
theorem render_deterministic (T : EnumTable) (raw : Nat) (r₁ r₂ : String)
    (h₁ : r₁ = T.commaString raw) (h₂ : r₂ = T.commaString raw) : r₁ = r₂ := by rw [h₁, h₂]

/-- non-vacuity -/
example : Gen.fieldsSolarOffReasons.commaString 0x205 = "No input power, Soft power switch, Battery temperature too low" := by decide +kernel
example : Gen.fieldsSolarOffReasons.fields (0x205 + 2 ^ 40) = Gen.fieldsSolarOffReasons.fields 0x205 := by decide +kernel

end Victron.C15
