import Victron.Model.Proto
import Victron.Proofs.Frame
import Victron.Proofs.Scan
import Victron.Proofs.Loop
/-
  C04 — Resynchronisation and bounded retry.
  Model: `Vd.receiveResponse` (frame scanner), `Vd.attempt` / `Vd.veCommandGetL` (retry loop), `Vd.flushReceiver`.
  "idle" (more than 100 ms since the last command) is an input of the model; see DESIGN.md for the clock.
-/
namespace Victron.C04
open Victron

/-- **Resynchronisation** (no read faults): text-protocol noise without ':' and any number of asynchronous
    ':A…' frames in front of a complete frame are skipped; the scanner returns that frame's body and leaves
    exactly the bytes behind it pending — however the bytes are cut into chunks by the port. -/
theorem skip (segs : List (Bytes × Bytes)) (σ : Vd) (noise body rest : Bytes)
    (hrf : σ.port.rFail = []) (hsegs : ∀ s ∈ segs, 58 ∉ s.1 ∧ 10 ∉ s.2)
    (hnoise : 58 ∉ noise) (hbody : 10 ∉ body) (hA : ¬ (body.headD 0 = 65 ∧ body ≠ []))
    (hp : σ.pending = (segs.map asyncSeg).flatten ++ noise ++ 58 :: body ++ 10 :: rest) :
    ∃ σ', σ.receiveResponse = (σ', some body) ∧ σ'.pending = rest := by
  obtain ⟨σ', h, hp', _⟩ := Vd.receiveResponseF_skip segs (σ.pending.length + 1) σ noise body rest hrf hsegs hnoise hbody hA hp
    (by rw [hp]; have := flatten_asyncSeg_length segs
        simp only [List.length_append, List.append_assoc]; omega)
  exact ⟨σ', h, hp'⟩

/-- **Success within eight attempts.** If the first `k-1` attempts end in a retry (whatever made them:
    silence, noise, invalid frames, frames for other registers, partial frames, port faults) and at
    attempt `k ≤ 8` the bytes pending after the command was sent are skippable material followed by the
    valid matching frame, the read returns that frame's payload, having written exactly `k` frames. -/
theorem success_within_eight (pre post : List Bool) (i : Bool) (σ σk : Vd) (addr : Nat) (haddr : addr < 65536)
    (payload : Bytes) (hpl : IsBytes payload) (segs : List (Bytes × Bytes)) (noise rest : Bytes)
    (hpre : Vd.afterRetries pre σ addr = some σk)
    (hok : σk.sendOk i 7 (paramFor 7 addr) = true) (hrf : σk.port.rFail = [])
    (hsegs : ∀ s ∈ segs, 58 ∉ s.1 ∧ 10 ∉ s.2) (hnoise : 58 ∉ noise)
    (hpend : (σk.afterSend i 7 (paramFor 7 addr)).pending =
      (segs.map asyncSeg).flatten ++ noise ++ frameOf (getResponseBody addr 0 payload) ++ rest) :
    ∃ σ', Vd.veCommandGetL (pre ++ i :: post) σ addr = (σ', .ok payload) ∧
      σ'.port.nW = σ.port.nW + pre.length + 1 ∧ σ'.pending = rest := by
  obtain ⟨h1, h2⟩ := Vd.veCommandGetL_afterRetries pre (i :: post) σ σk addr hpre
  obtain ⟨σ', ha, hp'⟩ := Vd.attempt_good σk i addr haddr payload hpl segs noise rest hok hrf hsegs hnoise hpend
  refine ⟨σ', ?_, ?_, hp'⟩
  · rw [h1, Vd.veCommandGetL_cons, ha]
  · have := σk.attempt_nW i addr
    rw [ha] at this; simp at this; omega

/-- **Bounded retry.** If every one of the eight attempts ends in a retry, the call fails, having made
    exactly eight Write calls — and in no case more than eight (`C03.get_writes_are_frames`). -/
theorem give_up (idles : List Bool) (σ σ8 : Vd) (addr : Nat)
    (h : Vd.afterRetries (idles8 idles) σ addr = some σ8) :
    σ.veCommandGet idles addr = (σ8, .err .other) ∧ σ8.port.nW = σ.port.nW + 8 := by
  obtain ⟨h1, h2⟩ := Vd.veCommandGetL_afterRetries (idles8 idles) [] σ σ8 addr h
  rw [idles8_length] at h2
  refine ⟨?_, h2⟩
  unfold Vd.veCommandGet
  rw [List.append_nil] at h1
  rw [h1]; rfl

theorem writes_le_eight (σ : Vd) (idles : List Bool) (addr : Nat) :
    (σ.veCommandGet idles addr).1.port.nW ≤ σ.port.nW + 8 :=
  (veCommandGet_written σ idles addr).choose_spec.2.2

/-- **Stale bytes.** When the call comes after ≥ 100 ms of idleness (first attempt idle) and the port's
    flush works, nothing that was pending before the call — in the reader's buffer or in the port, an
    outdated valid response for the same register included — has any influence on the call. -/
theorem idle_flush (σ : Vd) (buf' : Bytes) (queue' : List Bytes) (idles : List Bool) (addr : Nat)
    (hf : σ.port.nF ∉ σ.port.fFail) :
    Vd.veCommandGet { σ with buf := buf', port := { σ.port with queue := queue' } } (true :: idles) addr
      = σ.veCommandGet (true :: idles) addr := by
  have hfl : Vd.flushReceiver { σ with buf := buf', port := { σ.port with queue := queue' } } = σ.flushReceiver := by
    simp [Vd.flushReceiver, Port.flush, hf]
  have hsr : ∀ cmd data, Vd.sendReceive { σ with buf := buf', port := { σ.port with queue := queue' } } true cmd data
      = σ.sendReceive true cmd data := by
    intro cmd data; unfold Vd.sendReceive; simp only [if_true, hfl]
  have hvc : Vd.veCommand { σ with buf := buf', port := { σ.port with queue := queue' } } true 7 addr
      = σ.veCommand true 7 addr := by
    unfold Vd.veCommand; rw [hsr]
  unfold Vd.veCommandGet
  have : idles8 (true :: idles) = true :: (idles8 (true :: idles)).tail := by
    simp [idles8, numbTries, List.take]
  rw [this]
  unfold Vd.veCommandGetL
  rw [hvc]

/-- non-vacuity: silence, then a frame for another register, then the good frame behind noise and an async
    frame — accepted at attempt 3; and eight silent attempts — given up with eight frames written. -/
def good : Bytes := frameOf (getResponseBody 0x0100 0 [7])
def script : Port := { replies := [[], [frameOf (getResponseBody 0x0101 0 [9])],
  ["\r\nV\t12".toList.map Char.toNat, frameOf (65 :: hexBytes [1, 2]), good]] }
example : (Vd.veCommandGet { port := script } [true] 0x0100).2 = .ok [7] := by decide
example : (Vd.veCommandGet { port := script } [true] 0x0100).1.port.nW = 3 := by decide
example : (Vd.veCommandGet { port := {} } [true] 0x0100).2 = .err .other ∧
    (Vd.veCommandGet { port := {} } [true] 0x0100).1.port.nW = 8 := by decide
example : Vd.afterRetries [true, false] { port := script } 0x0100 ≠ none := by decide

end Victron.C04
