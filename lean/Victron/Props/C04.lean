import Victron.Model.Proto
import Victron.Proofs.Frame
import Victron.Proofs.Scan
import Victron.Proofs.Loop
import Victron.Proofs.Stream
/-
  C04 — Resynchronisation and bounded retry.
  Model: `Vd.receiveResponse` (frame scanner), `Vd.attempt` / `Vd.veCommandGetL` (retry loop), `Vd.flushReceiver`.
  "idle" (more than 100 ms since the last command) is an input of the model; see DESIGN.md for the clock.
-/
namespace Victron.C04
open Victron

/-- **Resynchronisation** (no read faults): text-protocol noise without ':' and any number of asynchronous
    ':A…' frames in front of a complete frame are skipped; the scanner returns that frame's body and leaves
    exactly the bytes behind it pending — however the bytes are cut into chunks by the port. -/
theorem skip (segs : List (Bytes × Bytes)) (σ : Vd) (noise body rest : Bytes)
    (hrf : σ.port.rFail = []) (hsegs : ∀ s ∈ segs, 58 ∉ s.1 ∧ 10 ∉ s.2)
    (hnoise : 58 ∉ noise) (hbody : 10 ∉ body) (hA : ¬ (body.headD 0 = 65 ∧ body ≠ []))
    (hp : σ.pending = (segs.map asyncSeg).flatten ++ noise ++ 58 :: body ++ 10 :: rest) :
    ∃ σ', σ.receiveResponse = (σ', some body) ∧ σ'.pending = rest := by
  obtain ⟨σ', h, hp', _⟩ := Vd.receiveResponseF_skip segs (σ.pending.length + 1) σ noise body rest hrf hsegs hnoise hbody hA hp
    (by rw [hp]; have := flatten_asyncSeg_length segs
        simp only [List.length_append, List.append_assoc]; omega)
  exact ⟨σ', h, hp'⟩

/-- **Success within eight attempts.** If the first `k-1` attempts end in a retry (whatever made them:
    silence, noise, invalid frames, frames for other registers, partial frames, port faults) and at
    attempt `k ≤ 8` the bytes pending after the command was sent are skippable material followed by the
    valid matching frame, the read returns that frame's payload, having written exactly `k` frames. -/
theorem success_within_eight (pre post : List Bool) (i : Bool) (σ σk : Vd) (addr : Nat) (haddr : addr < 65536)
    (payload : Bytes) (hpl : IsBytes payload) (segs : List (Bytes × Bytes)) (noise rest : Bytes)
    (hpre : Vd.afterRetries pre σ addr = some σk)
    (hok : σk.sendOk i 7 (paramFor 7 addr) = true) (hrf : σk.port.rFail = [])
    (hsegs : ∀ s ∈ segs, 58 ∉ s.1 ∧ 10 ∉ s.2) (hnoise : 58 ∉ noise)
    (hpend : (σk.afterSend i 7 (paramFor 7 addr)).pending =
      (segs.map asyncSeg).flatten ++ noise ++ frameOf (getResponseBody addr 0 payload) ++ rest) :
    ∃ σ', Vd.veCommandGetL (pre ++ i :: post) σ addr = (σ', .ok payload) ∧
      σ'.port.nW = σ.port.nW + pre.length + 1 ∧ σ'.pending = rest := by
  obtain ⟨h1, h2⟩ := Vd.veCommandGetL_afterRetries pre (i :: post) σ σk addr hpre
  obtain ⟨σ', ha, hp'⟩ := Vd.attempt_good σk i addr haddr payload hpl segs noise rest hok hrf hsegs hnoise hpend
  refine ⟨σ', ?_, ?_, hp'⟩
  · rw [h1, Vd.veCommandGetL_cons, ha]
  · have := σk.attempt_nW i addr
    rw [ha] at this; simp at this; omega

/-- **Bounded retry.** If every one of the eight attempts ends in a retry, the call fails, having made
    exactly eight Write calls — and in no case more than eight (`C03.get_writes_are_frames`). -/
theorem give_up (idles : List Bool) (σ σ8 : Vd) (addr : Nat)
    (h : Vd.afterRetries (idles8 idles) σ addr = some σ8) :
    σ.veCommandGet idles addr = (σ8, .err .other) ∧ σ8.port.nW = σ.port.nW + 8 := by
  obtain ⟨h1, h2⟩ := Vd.veCommandGetL_afterRetries (idles8 idles) [] σ σ8 addr h
  rw [idles8_length] at h2
  refine ⟨?_, h2⟩
  unfold Vd.veCommandGet
  rw [List.append_nil] at h1
  rw [h1]; rfl

theorem writes_le_eight (σ : Vd) (idles : List Bool) (addr : Nat) :
    (σ.veCommandGet idles addr).1.port.nW ≤ σ.port.nW + 8 :=
  (veCommandGet_written σ idles addr).choose_spec.2.2

/-- **Stale bytes.** When the call comes after ≥ 100 ms of idleness (first attempt idle) and the port's
    flush works, nothing that was pending before the call — in the reader's buffer or in the port, an
    outdated valid response for the same register included — has any influence on the call. -/
theorem idle_flush (σ : Vd) (buf' : Bytes) (queue' : List Bytes) (idles : List Bool) (addr : Nat)
    (hf : σ.port.nF ∉ σ.port.fFail) :
    Vd.veCommandGet { σ with buf := buf', port := { σ.port with queue := queue' } } (true :: idles) addr
      = σ.veCommandGet (true :: idles) addr := by
  have hfl : Vd.flushReceiver { σ with buf := buf', port := { σ.port with queue := queue' } } = σ.flushReceiver := by
    simp [Vd.flushReceiver, Port.flush, hf]
  have hsr : ∀ cmd data, Vd.sendReceive { σ with buf := buf', port := { σ.port with queue := queue' } } true cmd data
      = σ.sendReceive true cmd data := by
    intro cmd data; unfold Vd.sendReceive; simp only [if_true, hfl]
  have hvc : Vd.veCommand { σ with buf := buf', port := { σ.port with queue := queue' } } true 7 addr
      = σ.veCommand true 7 addr := by
    unfold Vd.veCommand; rw [hsr]
  unfold Vd.veCommandGet
  have : idles8 (true :: idles) = true :: (idles8 (true :: idles)).tail := by
    simp [idles8, numbTries, List.take]
  rw [this]
  unfold Vd.veCommandGetL
  rw [hvc]

/-- **Success against a whole device stream** (fault-free port). The bytes pending at the call together with
    what the device sends in answer to each command split as: `ws.length ≤ 7` *wasted units* — each either any
    amount of text noise and asynchronous frames followed by one complete frame the call cannot use (invalid,
    or a valid response for another register: `Junk.ok_other_register`), or a silence (nothing, noise, async
    frames or the beginning of a frame, with no complete frame) — then skippable material, the valid response
    for `addr`, and anything. Before an attempt that follows ≥ 100 ms of idleness whatever was pending is
    dropped (`Feeds`), an outdated response for `addr` included. The read returns the awaited response's
    payload, having written exactly one frame per wasted unit plus one, and leaves what follows pending. -/
theorem stream_success (ws : List (Bool × Waste)) (i : Bool) (post idles : List Bool) (σ : Vd) (addr : Nat) (haddr : addr < 65536)
    (payload : Bytes) (hpl : IsBytes payload) (hid : idles8 idles = ws.map (·.1) ++ i :: post)
    (hws : ∀ w ∈ ws, w.2.Ok addr)
    (segs : List (Bytes × Bytes)) (noise rest : Bytes)
    (hsegs : ∀ s ∈ segs, 58 ∉ s.1 ∧ 10 ∉ s.2) (hnoise : 58 ∉ noise) (hc : σ.port.Clean)
    (hfeed : Feeds σ.port.reply σ.port.nW σ.pending ws i
      ((segs.map asyncSeg).flatten ++ noise ++ frameOf (getResponseBody addr 0 payload) ++ rest)) :
    ∃ σ', σ.veCommandGet idles addr = (σ', .ok payload) ∧
      σ'.port.nW = σ.port.nW + ws.length + 1 ∧ σ'.pending = rest := by
  unfold Vd.veCommandGet
  rw [hid]
  exact Vd.veCommandGetL_streamF ws i σ addr haddr 0 (by omega) payload hpl hws segs noise rest hsegs hnoise hc hfeed post

/-- the premise `hid` only says that there are at most seven wasted units -/
theorem stream_success_le_seven (ws : List (Bool × Waste)) (i : Bool) (post idles : List Bool)
    (hid : idles8 idles = ws.map (·.1) ++ i :: post) : ws.length ≤ 7 := by
  have := congrArg List.length hid
  rw [idles8_length] at this
  simp at this; omega

/-- **Giving up against a stream.** Eight wasted units in a row use up the eight attempts: the call fails with
    exactly eight frames written — even if the valid response follows right behind them. -/
theorem stream_give_up (ws : List (Bool × Waste)) (idles : List Bool) (σ : Vd) (addr : Nat)
    (hid : idles8 idles = ws.map (·.1)) (hws : ∀ w ∈ ws, w.2.Ok addr)
    (fin : Bytes) (hc : σ.port.Clean) (hfeed : Feeds σ.port.reply σ.port.nW σ.pending ws false fin) :
    ∃ σ8, σ.veCommandGet idles addr = (σ8, .err .other) ∧ σ8.port.nW = σ.port.nW + 8 ∧
      σ8.pending ++ σ8.port.reply σ8.port.nW = fin := by
  obtain ⟨σk, h, hp, _⟩ := Vd.afterRetries_stream ws false σ addr hws fin hc hfeed
  obtain ⟨h1, h2⟩ := give_up idles σ σk addr (by rw [hid]; exact h)
  exact ⟨σk, h1, h2, by simpa using hp⟩

/-- non-vacuity: silence, then a frame for another register, then the good frame behind noise and an async
    frame — accepted at attempt 3; and eight silent attempts — given up with eight frames written. -/
def good : Bytes := frameOf (getResponseBody 0x0100 0 [7])
def script : Port := { replies := [[], [frameOf (getResponseBody 0x0101 0 [9])],
  ["\r\nV\t12".toList.map Char.toNat, frameOf (65 :: hexBytes [1, 2]), good]] }
example : (Vd.veCommandGet { port := script } [true] 0x0100).2 = .ok [7] := by decide
example : (Vd.veCommandGet { port := script } [true] 0x0100).1.port.nW = 3 := by decide
example : (Vd.veCommandGet { port := {} } [true] 0x0100).2 = .err .other ∧
    (Vd.veCommandGet { port := {} } [true] 0x0100).1.port.nW = 8 := by decide
example : Vd.afterRetries [true, false] { port := script } 0x0100 ≠ none := by decide

/-- non-vacuity of `stream_success`: the device answers the first command with a valid response for another
    register and the second with text noise, an async frame and the awaited response -/
def script2 : Port := { replies := [[frameOf (getResponseBody 0x0101 0 [9])],
  ["\r\nV\t12".toList.map Char.toNat, frameOf (65 :: hexBytes [1, 2]), good]] }
def junk1 : Junk := { body := getResponseBody 0x0101 0 [9] }
example : junk1.Ok 0x0100 := Junk.ok_other_register 0x0100 0x0101 (by decide) (by decide) 0 (by decide) [9] (by decide) [] [] (by simp) (by simp)
example : Feeds script2.reply 0 [] [(false, .frame junk1)] false
    (([(("\r\nV\t12".toList.map Char.toNat), hexBytes [1, 2])].map asyncSeg).flatten ++ [] ++ frameOf (getResponseBody 0x0100 0 [7]) ++ []) :=
  ⟨[], by decide, trivial, by unfold Feeds; decide⟩
/-- the same behind a silent first attempt (`script` above) -/
example : Feeds script.reply 0 [] [(true, .silence [] []), (false, .frame junk1)] false
    (([(("\r\nV\t12".toList.map Char.toNat), hexBytes [1, 2])].map asyncSeg).flatten ++ [] ++ frameOf (getResponseBody 0x0100 0 [7]) ++ []) :=
  ⟨[], by decide, rfl, [], by decide, trivial, by unfold Feeds; decide⟩
example : Waste.Ok 0x0100 (.silence [] []) := ⟨by simp, Or.inl (by simp)⟩
example : (Vd.veCommandGet { port := script2 } [] 0x0100).2 = .ok [7] ∧
    (Vd.veCommandGet { port := script2 } [] 0x0100).1.port.nW = 2 := by decide

end Victron.C04
