import Victron.Gen.Tables
import Victron.Spec.ProductSpec
import Victron.Proofs.Lookup
/-
  C13 — The product table is internally coherent for all ids.
  `Gen.products` / `Gen.types` are the complete graphs of veproduct's functions over all 65536 ids and all
  256 type values, regenerated from /repo by tools/extract on every run (T1): a fact decided by the kernel
  for every row, lifted by the lookup lemma, is a fact about the code's behaviour on its whole domain.
-/
namespace Victron.C13
open Victron ProductSpec

/-- every row of today's table meets the per-row specification (kernel evaluation over the whole table) -/
theorem rows_ok : Gen.products.all (rowOk Gen.types) = true := by decide +kernel

theorem types_ok : Gen.types.all typeOk = true := by decide +kernel

/-- ids are strictly ascending: the lookup is unambiguous and there are no duplicate ids -/
theorem ids_ascending : strictlyAscending (Gen.products.map (·.id)) = true := by decide +kernel

/-- the exported string map has exactly one entry per known product -/
theorem map_size : Gen.stringMapSize = (Gen.products.filter (·.inMap)).length := by decide +kernel

def row (id : Nat) : ProductRow := productRow Gen.products id

theorem row_ok (id : Nat) (h : row id ≠ defaultProduct id) : rowOk Gen.types (row id) = true := by
  rcases productRow_cases Gen.products id with h' | ⟨hm, _⟩
  · exact absurd h' h
  · exact List.all_eq_true.mp rows_ok _ hm

/-- **Known ⇔ non-empty model ⇔ known type ⇔ present in the string map**, for every id. -/
theorem known_iff (id : Nat) :
    ((row id).exists_ = true ↔ (row id).model ≠ "") ∧ ((row id).exists_ = true ↔ (row id).type ≠ 0) ∧
    ((row id).exists_ = true ↔ (row id).inMap = true) := by
  by_cases h : row id = defaultProduct id
  · rw [h]; simp [defaultProduct]
  · have := row_ok id h
    simp only [rowOk, Bool.and_eq_true, bne_iff_ne, ne_eq, decide_eq_true_eq] at this
    obtain ⟨⟨⟨⟨⟨⟨⟨⟨⟨⟨h1, h2⟩, h3⟩, h4⟩, _⟩, _⟩, _⟩, _⟩, _⟩, _⟩, _⟩ := this
    simp [h1, h2, h3, h4]

/-- **Display string** = type name + space + model, and the map's value is that string; unknown ids print "". -/
theorem display_string (id : Nat) :
    ((row id).exists_ = true → (row id).str = (typeRow Gen.types (row id).type).name ++ " " ++ (row id).model ∧
        (row id).mapVal = (row id).str) ∧
    ((row id).exists_ = false → (row id).str = "") := by
  by_cases h : row id = defaultProduct id
  · rw [h]; simp [defaultProduct]
  · have := row_ok id h
    simp only [rowOk, Bool.and_eq_true, bne_iff_ne, ne_eq, decide_eq_true_eq, beq_iff_eq] at this
    obtain ⟨⟨⟨⟨⟨⟨⟨⟨⟨⟨h1, _⟩, _⟩, _⟩, _⟩, _⟩, h7⟩, h8⟩, _⟩, _⟩, _⟩ := this
    exact ⟨fun _ => ⟨h7, h8⟩, fun hf => by rw [h1] at hf; cases hf⟩

/-- **Exactly one category**, the one of the id range (0x02xx, 0xA38x BMV; 0x03xx, 0xA0xx, 0xA1xx solar;
    0xA2xx, 0xA34x inverter). -/
theorem one_category (id : Nat) (hk : (row id).exists_ = true) :
    categoryOf (typeRow Gen.types (row id).type) = some (rangeCategory id) ∧ rangeCategory id ≠ 0 := by
  have h : row id ≠ defaultProduct id := by intro h; rw [h] at hk; simp [defaultProduct] at hk
  have hid : (row id).id = id := by
    rcases productRow_cases Gen.products id with h' | ⟨_, hi⟩
    · exact absurd h' h
    · exact hi
  have := row_ok id h
  simp only [rowOk, Bool.and_eq_true, beq_iff_eq] at this
  obtain ⟨⟨⟨_, h9, _⟩, _⟩, _⟩ := this
  rw [hid] at h9
  refine ⟨h9, ?_⟩
  intro h0; rw [h0] at h9
  unfold categoryOf at h9
  split at h9 <;> simp at h9

/-- …and within the category, the product family (type) is one of those of the id block: 0x02xx BMV; 0xA38x BMV Smart
    or SmartShunt; 0x03xx BlueSolar; 0xA0xx BlueSolar / SmartSolar MPPT; 0xA1xx their VE.Can variants; 0xA2xx Phoenix
    Inverter (Smart); 0xA34x Phoenix Smart IP43 Charger -/
theorem family_of_id_block (id : Nat) (hk : (row id).exists_ = true) : (row id).type ∈ rangeTypes id := by
  have h : row id ≠ defaultProduct id := by intro h; rw [h] at hk; simp [defaultProduct] at hk
  have hid : (row id).id = id := by
    rcases productRow_cases Gen.products id with h' | ⟨_, hi⟩
    · exact absurd h' h
    · exact hi
  have := row_ok id h
  simp only [rowOk, Bool.and_eq_true, beq_iff_eq] at this
  obtain ⟨⟨⟨_, _, h9⟩, _⟩, _⟩ := this
  rw [hid] at h9
  simpa using h9

/-- **Panel numbers**: minus one for both numbers for non-solar products (and unknown ids), else the two numbers of the designation. -/
theorem panel_numbers (id : Nat) :
    if (typeRow Gen.types (row id).type).solar then designation (row id).model = some ((row id).mpv, (row id).mpc)
    else (row id).mpv = -1 ∧ (row id).mpc = -1 := by
  by_cases h : row id = defaultProduct id
  · rw [h]
    have : (typeRow Gen.types 0).solar = false := by decide +kernel
    simp [this, defaultProduct]
  · have := row_ok id h
    simp only [rowOk, Bool.and_eq_true] at this
    obtain ⟨⟨_, h10⟩, _⟩ := this
    split
    · rename_i hs; simpa [hs] using h10
    · rename_i hs; simpa [hs] using h10

/-- **Phoenix inverters**: the model string of every known 0xA2xy product is the string rebuilt from the
    battery-voltage, power and AC-voltage digits of its id. -/
theorem phoenix_model (id : Nat) (hk : (row id).exists_ = true) (hr : id / 256 = 0xA2) :
    phoenixModel id = some (row id).model := by
  have h : row id ≠ defaultProduct id := by intro h; rw [h] at hk; simp [defaultProduct] at hk
  have hid : (row id).id = id := by
    rcases productRow_cases Gen.products id with h' | ⟨_, hi⟩
    · exact absurd h' h
    · exact hi
  have := row_ok id h
  simp only [rowOk, Bool.and_eq_true] at this
  obtain ⟨_, h11⟩ := this
  rw [hid] at h11
  simpa [hr] using h11

/-- **Types**: of the 256 type values exactly those in the table have a name or a category; they lie in
    1..10 and each is in exactly one category. -/
theorem types_partition (t : Nat) :
    (typeRow Gen.types t = defaultType t) ∨
    (1 ≤ t ∧ t ≤ 10 ∧ (typeRow Gen.types t).name ≠ "" ∧ (categoryOf (typeRow Gen.types t)).isSome = true) := by
  rcases typeRow_cases Gen.types t with h | ⟨hm, ht⟩
  · left; exact h
  · right
    have := List.all_eq_true.mp types_ok _ hm
    simp only [typeOk, Bool.and_eq_true, decide_eq_true_eq, bne_iff_ne, ne_eq] at this
    rw [ht] at this
    obtain ⟨⟨⟨h1, h2⟩, h3⟩, h4⟩ := this
    exact ⟨h1, h2, h3, h4⟩

/-- all ten named types are present -/
theorem ten_types : (Gen.types.map (·.t)) = [1, 2, 3, 4, 5, 6, 7, 8, 9, 10] := by decide +kernel

/-- non-vacuity: a known solar charger, a Phoenix inverter, an unknown id -/
example : (row 0xA056).exists_ = true ∧ (row 0xA056).mpv = 100 ∧ (row 0xA056).mpc = 30 := by decide +kernel
example : phoenixModel 0xA2FA = some "24V 1200VA 120Vac 64k HS" := by decide +kernel
example : row 0x1234 = defaultProduct 0x1234 := by decide +kernel

end Victron.C13
