import Victron.Model.Proto
import Victron.Proofs.Frame
import Victron.Proofs.Scan
import Victron.Proofs.Loop
import Victron.Proofs.Stream
import Victron.Props.C09
/-
  C05 — Device-reported errors are surfaced, typed and not retried.
  Model: `flagError` (error.go), `getStep`, `Vd.attempt`, the typed accessors. The register API's wrapping
  (`%w` + register name) is in the Api model (Props/C09.lean `transport_error_wrapped`).
-/
namespace Victron.C05
open Victron

/-- flags 0x01, 0x02, 0x04 map to the three typed errors -/
theorem flag_kinds : flagError 1 = some .unknownId ∧ flagError 2 = some .notSupported ∧ flagError 4 = some .parameterError := by
  decide

/-- a valid response for the requested register with such a flag is a device error — with or without
    trailing payload bytes, whatever they are -/
theorem error_frame_step (addr : Nat) (haddr : addr < 65536) (flag : Nat) (hf : flag = 1 ∨ flag = 2 ∨ flag = 4)
    (payload spare : Bytes) :
    ∃ e, flagError flag = some e ∧ getStep addr ⟨[addr % 256, addr / 256 % 256, flag] ++ payload, spare⟩ = .fail e := by
  have hfl : flag % 256 = flag := by omega
  have hne : ¬ addr ≠ (addr % 256 + 256 * (addr / 256 % 256)) % 65536 := by omega
  simp only [List.cons_append, List.nil_append]
  rw [getStep_cons, if_neg hne, hfl]
  rcases hf with rfl | rfl | rfl <;> exact ⟨_, rfl, rfl⟩

/-- **Not retried.** When attempt `k` (after `k-1` retries) meets a valid matching frame carrying flag
    0x01 / 0x02 / 0x04 — behind any skippable material — `VeCommandGet` returns the typed error at once,
    having written exactly `k` frames (exactly one when the device answers the first attempt). -/
theorem device_error_not_retried (pre post : List Bool) (i : Bool) (σ σk : Vd) (addr : Nat) (haddr : addr < 65536)
    (flag : Nat) (hf : flag = 1 ∨ flag = 2 ∨ flag = 4) (payload : Bytes) (hpl : IsBytes payload)
    (segs : List (Bytes × Bytes)) (noise rest : Bytes)
    (hpre : Vd.afterRetries pre σ addr = some σk)
    (hok : σk.sendOk i 7 (paramFor 7 addr) = true) (hrf : σk.port.rFail = [])
    (hsegs : ∀ s ∈ segs, 58 ∉ s.1 ∧ 10 ∉ s.2) (hnoise : 58 ∉ noise)
    (hpend : (σk.afterSend i 7 (paramFor 7 addr)).pending =
      (segs.map asyncSeg).flatten ++ noise ++ frameOf (getResponseBody addr flag payload) ++ rest) :
    ∃ σ' e, flagError flag = some e ∧ Vd.veCommandGetL (pre ++ i :: post) σ addr = (σ', .err e) ∧
      σ'.port.nW = σ.port.nW + pre.length + 1 := by
  obtain ⟨h1, h2⟩ := Vd.veCommandGetL_afterRetries pre (i :: post) σ σk addr hpre
  obtain ⟨σ', ha, _⟩ := Vd.attempt_frame σk i addr haddr flag (by omega) payload hpl segs noise rest hok hrf hsegs hnoise hpend
  have hn := σk.attempt_nW i addr
  rw [ha] at hn; simp at hn
  rcases hf with rfl | rfl | rfl
  · exact ⟨σ', .unknownId, rfl, by rw [h1, Vd.veCommandGetL_cons, ha]; rfl, by omega⟩
  · exact ⟨σ', .notSupported, rfl, by rw [h1, Vd.veCommandGetL_cons, ha]; rfl, by omega⟩
  · exact ⟨σ', .parameterError, rfl, by rw [h1, Vd.veCommandGetL_cons, ha]; rfl, by omega⟩

/-- every accessor passes the device error on unchanged and returns no value (`R.err` carries none) -/
theorem accessors_surface_error (σ : Vd) (idles : List Bool) (addr : Nat) (e : Err)
    (h : (σ.veCommandGet idles addr).2 = .err e) :
    (σ.getUint idles addr).2 = .err e ∧ (σ.getInt idles addr).2 = .err e ∧ (σ.getString idles addr).2 = .err e := by
  unfold Vd.getUint Vd.getInt Vd.getString
  simp only
  rw [h]
  exact ⟨rfl, rfl, rfl⟩

/-- **Against a whole device stream** (fault-free port): behind at most seven
    wasted units — rejected frames and silences, `Proofs/Stream.lean` — a valid response for `addr` with flag
    1, 2 or 4 ends the call with the typed error, one frame written per wasted unit plus one: the error
    response itself is never retried, whatever follows it. -/
theorem stream_device_error (ws : List (Bool × Waste)) (i : Bool) (post idles : List Bool) (σ : Vd) (addr : Nat) (haddr : addr < 65536)
    (flag : Nat) (hf : flag = 1 ∨ flag = 2 ∨ flag = 4) (payload : Bytes) (hpl : IsBytes payload)
    (hid : idles8 idles = ws.map (·.1) ++ i :: post) (hws : ∀ w ∈ ws, w.2.Ok addr)
    (segs : List (Bytes × Bytes)) (noise rest : Bytes)
    (hsegs : ∀ s ∈ segs, 58 ∉ s.1 ∧ 10 ∉ s.2) (hnoise : 58 ∉ noise) (hc : σ.port.Clean)
    (hfeed : Feeds σ.port.reply σ.port.nW σ.pending ws i
      ((segs.map asyncSeg).flatten ++ noise ++ frameOf (getResponseBody addr flag payload) ++ rest)) :
    ∃ σ' e, flagError flag = some e ∧ e ≠ .other ∧ σ.veCommandGet idles addr = (σ', .err e) ∧
      σ'.port.nW = σ.port.nW + ws.length + 1 ∧ σ'.pending = rest := by
  obtain ⟨σ', h, hn, hp⟩ := Vd.veCommandGetL_streamF ws i σ addr haddr flag (by omega) payload hpl hws segs noise rest
    hsegs hnoise hc hfeed post
  unfold Vd.veCommandGet
  rw [hid, h]
  rcases hf with rfl | rfl | rfl
  · exact ⟨σ', .unknownId, rfl, by simp, rfl, hn, hp⟩
  · exact ⟨σ', .notSupported, rfl, by simp, rfl, hn, hp⟩
  · exact ⟨σ', .parameterError, rfl, by simp, rfl, hn, hp⟩

/-- **API wrapping.** Every register reader of the API returns a device error of the same kind (still
    matchable) together with the register's name. -/
theorem api_wraps (tr : Transport) (r : Reg) (e : Err) (hg : tr.get r.address = .err e) :
    readNumber tr r = .err e r.name ∧ readText tr r = .err e r.name ∧
    readEnum tr Gen.enums r = .err e r.name ∧ readFieldList tr Gen.fieldLists r = .err e r.name :=
  C09.transport_error_wrapped tr r e hg

/-- non-vacuity: flag 0x02 with two trailing payload bytes at the first attempt: one frame written -/
example : (Vd.veCommandGet { port := { replies := [[frameOf (getResponseBody 0xEDF0 2 [1, 2])], [frameOf (getResponseBody 0xEDF0 0 [1, 2])]] } } [true] 0xEDF0).2 = .err .notSupported := by decide
example : (Vd.veCommandGet { port := { replies := [[frameOf (getResponseBody 0xEDF0 2 [1, 2])], [frameOf (getResponseBody 0xEDF0 0 [1, 2])]] } } [true] 0xEDF0).1.port.nW = 1 := by decide

end Victron.C05
