import Victron.Gen.Tables
import Victron.Model.Api
/-
  C10 — Register streaming: ordered, exactly-once, abort on error, stop on cancellation.
  Model: `stream` / `streamL` (StreamRegisterList) and `collect` (ReadRegisterList) over an abstract transport
  and cancellation point; compared with the real functions for every class's list and arbitrary sub-lists, a
  device failure at every register position, a cancellation at every position, every subset of nil handlers (T3).
  A cancellation issued by another goroutine takes effect at the next check: only the positions at which the
  loop can observe it are modelled (`cancelAt`); nothing is claimed about wall-clock latency.
-/
namespace Victron.C10
open Victron

def cbNames : List Ev → List String
  | [] => []
  | .cb n _ :: t => n :: cbNames t
  | .read _ :: t => cbNames t

def readAddrs : List Ev → List Nat
  | [] => []
  | .read a :: t => a :: readAddrs t
  | .cb _ _ :: t => readAddrs t

variable (tr : Transport) (enums fls : List EnumTable)

/-- **Ordered, exactly once, prefix.** Whatever the device does and whenever the context is cancelled: the
    handlers are invoked for exactly a prefix `planned.take k` of the planned registers, in list order, once
    each; the registers read on the wire are that same prefix — or that prefix plus the one register whose
    read failed, in which case the run ended with an error. Nothing after the end is read or reported, and a
    run that ends without error delivered everything. -/
theorem stream_prefix (cancelAt : Option Nat) (l : List Reg) (started : Nat) :
    ∃ k, k ≤ l.length ∧
      cbNames (streamL tr enums fls cancelAt l started).1 = (l.take k).map (·.name) ∧
      (readAddrs (streamL tr enums fls cancelAt l started).1 = (l.take k).map (·.address) ∨
       (k < l.length ∧ readAddrs (streamL tr enums fls cancelAt l started).1 = (l.take (k + 1)).map (·.address) ∧
        (streamL tr enums fls cancelAt l started).2 ≠ none)) ∧
      ((streamL tr enums fls cancelAt l started).2 = none → k = l.length) := by
  induction l generalizing started with
  | nil => exact ⟨0, by simp, by simp [streamL, cbNames], Or.inl (by simp [streamL, readAddrs]), by simp⟩
  | cons r rest ih =>
    by_cases hc : cancelled cancelAt started = true
    · exact ⟨0, by simp, by simp [streamL, hc, cbNames], Or.inl (by simp [streamL, hc, readAddrs]), by simp [streamL, hc]⟩
    · cases hv : readReg tr enums fls r with
      | ok v =>
        obtain ⟨k, hk, h1, h2, h3⟩ := ih (started + 1)
        refine ⟨k + 1, by simp; omega, by simp [streamL, hc, hv, cbNames, h1], ?_, ?_⟩
        · rcases h2 with h2 | ⟨hlt, h2, h4⟩
          · left; simp [streamL, hc, hv, readAddrs, h2]
          · right; exact ⟨by simp; omega, by simp [streamL, hc, hv, readAddrs, h2], by simpa [streamL, hc, hv] using h4⟩
        · intro hn; simp [streamL, hc, hv] at hn ⊢; exact h3 hn
      | err e n =>
        exact ⟨0, by simp, by simp [streamL, hc, hv, cbNames], Or.inr ⟨by simp, by simp [streamL, hc, hv, readAddrs], by simp [streamL, hc, hv]⟩,
          by simp [streamL, hc, hv]⟩
      | panic =>
        exact ⟨0, by simp, by simp [streamL, hc, hv, cbNames], Or.inr ⟨by simp, by simp [streamL, hc, hv, readAddrs], by simp [streamL, hc, hv]⟩,
          by simp [streamL, hc, hv]⟩

/-- **Complete run.** No failing register, no cancellation: every planned register is read and reported,
    in order, with the value `readReg` decodes, and the result is success. -/
theorem stream_complete (l : List Reg) (started : Nat) (vals : Reg → Val)
    (hok : ∀ r ∈ l, readReg tr enums fls r = .ok (vals r)) :
    streamL tr enums fls none l started = (l.flatMap (fun r => [.read r.address, .cb r.name (vals r)]), none) := by
  induction l generalizing started with
  | nil => rfl
  | cons r rest ih =>
    have h1 := hok r (by simp)
    have h2 := ih (started + 1) (fun x hx => hok x (by simp [hx]))
    simp [streamL, cancelled, h1, h2]

/-- **Abort on the first failing register.** Registers before it are delivered, it is read, its error is
    returned, nothing after it is read or reported. -/
theorem stream_abort (pre post : List Reg) (r : Reg) (started : Nat) (vals : Reg → Val) (e : Err) (n : String)
    (hok : ∀ x ∈ pre, readReg tr enums fls x = .ok (vals x)) (hfail : readReg tr enums fls r = .err e n) :
    streamL tr enums fls none (pre ++ r :: post) started =
      (pre.flatMap (fun x => [.read x.address, .cb x.name (vals x)]) ++ [.read r.address], some (e, n)) := by
  induction pre generalizing started with
  | nil => simp [streamL, cancelled, hfail]
  | cons p pre ih =>
    have h1 := hok p (by simp)
    have h2 := ih (started + 1) (fun x hx => hok x (by simp [hx]))
    simp [streamL, cancelled, h1, h2]

/-- **The failing register's error wins over a later cancellation.** If the context ends only after the read of the
    failing register has started — while that register is being read (`k = pre.length + 1`: a poll with a timeout against
    a device that refuses or has died), or any time later — the run still ends with that register's error, not with
    ErrCtxDone; the registers before it are delivered, nothing after it is read. -/
theorem stream_abort_before_cancel (pre post : List Reg) (r : Reg) (k : Nat) (vals : Reg → Val) (e : Err) (n : String)
    (hok : ∀ x ∈ pre, readReg tr enums fls x = .ok (vals x)) (hfail : readReg tr enums fls r = .err e n)
    (hk : pre.length < k) :
    streamL tr enums fls (some k) (pre ++ r :: post) 0 =
      (pre.flatMap (fun x => [.read x.address, .cb x.name (vals x)]) ++ [.read r.address], some (e, n)) := by
  have gen : ∀ (pre : List Reg) (started : Nat), (∀ x ∈ pre, readReg tr enums fls x = .ok (vals x)) → started + pre.length < k →
      streamL tr enums fls (some k) (pre ++ r :: post) started =
        (pre.flatMap (fun x => [.read x.address, .cb x.name (vals x)]) ++ [.read r.address], some (e, n)) := by
    intro pre
    induction pre with
    | nil =>
      intro started _ hk
      have hc : cancelled (some k) started = false := by simp [cancelled]; simp at hk; omega
      simp [streamL, hc, hfail]
    | cons p pre ih =>
      intro started hok hk
      have h1 := hok p (by simp)
      have h2 := ih (started + 1) (fun x hx => hok x (by simp [hx])) (by simp at hk; omega)
      have hc : cancelled (some k) started = false := by simp [cancelled]; simp at hk; omega
      simp [streamL, hc, h1, h2]
  exact gen pre 0 hok (by omega)

/-- **Stop on cancellation.** Once the context is observed cancelled (after `k` reads have started) no
    further register is read; if any remained, ErrCtxDone is returned, otherwise the run had already finished. -/
theorem stream_cancel (pre post : List Reg) (k : Nat) (vals : Reg → Val)
    (hok : ∀ x ∈ pre, readReg tr enums fls x = .ok (vals x)) (hk : k = pre.length) :
    streamL tr enums fls (some k) (pre ++ post) 0 =
      (pre.flatMap (fun x => [.read x.address, .cb x.name (vals x)]), if post = [] then none else some (.ctxDone, "")) := by
  have gen : ∀ (pre : List Reg) (started : Nat), (∀ x ∈ pre, readReg tr enums fls x = .ok (vals x)) → k = started + pre.length →
      streamL tr enums fls (some k) (pre ++ post) started =
        (pre.flatMap (fun x => [.read x.address, .cb x.name (vals x)]), if post = [] then none else some (.ctxDone, "")) := by
    intro pre
    induction pre with
    | nil =>
      intro started _ hk
      cases post with
      | nil => simp [streamL]
      | cons q post => simp [streamL, cancelled, hk]
    | cons p pre ih =>
      intro started hok hk
      have h1 := hok p (by simp)
      have h2 := ih (started + 1) (fun x hx => hok x (by simp [hx])) (by simp at hk; omega)
      have hc : cancelled (some k) started = false := by simp [cancelled]; simp at hk; omega
      simp [streamL, hc, h1, h2]
  exact gen pre 0 hok (by omega)

/-- **No I/O for nil handlers.** Only groups whose handler is set are planned, so nothing else is read. -/
theorem nil_group_no_io (cancelAt : Option Nat) (rl : RegList) (h : Handlers) (a : Nat)
    (ha : a ∈ readAddrs (stream tr enums fls cancelAt rl h).1) : ∃ r ∈ planned rl h, r.address = a := by
  obtain ⟨k, _, _, h2, _⟩ := stream_prefix tr enums fls cancelAt (planned rl h) 0
  unfold stream at ha
  rcases h2 with h2 | ⟨_, h2, _⟩ <;>
  · rw [h2] at ha
    obtain ⟨r, hr, rfl⟩ := List.mem_map.mp ha
    exact ⟨r, List.mem_of_mem_take hr, rfl⟩

theorem all_nil_no_events (cancelAt : Option Nat) (rl : RegList) :
    stream tr enums fls cancelAt rl ⟨false, false, false, false⟩ = ([], none) := by
  simp [stream, planned, streamL]

/-- **Maps.** `ReadRegisterList` holds precisely the delivered values keyed by name: the value delivered last
    for a name is the one stored, and only delivered names are keys. -/
theorem collect_last (evs : List Ev) (n : String) (v : Val) :
    (collect (evs ++ [.cb n v])).find? (·.1 == n) = some (n, v) := by
  simp only [collect, List.foldl_append, List.foldl_cons, List.foldl_nil]
  generalize List.foldl (fun acc ev => match ev with
      | .cb name v => (acc.filter (fun p => p.1 != name)) ++ [(name, v)]
      | .read _ => acc) [] evs = acc
  rw [List.find?_append]
  have : (List.filter (fun p => p.1 != n) acc).find? (·.1 == n) = none := by
    rw [List.find?_eq_none]; intro x hx; simp [List.mem_filter] at hx; simp [hx.2]
  rw [this]; simp

theorem collect_keys_delivered (evs : List Ev) (p : String × Val) (hp : p ∈ collect evs) : p.1 ∈ cbNames evs := by
  have gen : ∀ (acc : List (String × Val)) (evs : List Ev), (p ∈ evs.foldl (fun acc ev => match ev with
      | .cb name v => (acc.filter (fun p => p.1 != name)) ++ [(name, v)]
      | .read _ => acc) acc) → p ∈ acc ∨ p.1 ∈ cbNames evs := by
    intro acc evs
    induction evs generalizing acc with
    | nil => intro h; left; simpa using h
    | cons ev evs ih =>
      intro h
      simp only [List.foldl_cons] at h
      rcases ih _ h with h1 | h1
      · cases ev with
        | read a => left; exact h1
        | cb name v =>
          simp only [List.mem_append, List.mem_filter, List.mem_singleton] at h1
          rcases h1 with h1 | h1
          · left; exact h1.1
          · right; simp [cbNames, h1]
      · right; cases ev <;> simp [cbNames, h1]
  rcases gen [] evs hp with h | h
  · simp at h
  · exact h

/-- non-vacuity: three registers, the second fails -/
def tr0 : Transport := ⟨.ok (), .ok 0, fun a => if a = 2 then .err .notSupported else .ok [a]⟩
def reg (a : Nat) (n : String) : Reg := ⟨1, "", n, "", 0, a, false, false, false, 1, "0", "", ""⟩
example : streamL tr0 [] [] none [reg 1 "a", reg 2 "b", reg 3 "c"] 0 =
    ([.read 1, .cb "a" (.num 1 1 "0"), .read 2], some (.notSupported, "b")) := by decide
example : streamL tr0 [] [] (some 1) [reg 1 "a", reg 3 "c"] 0 = ([.read 1, .cb "a" (.num 1 1 "0")], some (.ctxDone, "")) := by decide

end Victron.C10
