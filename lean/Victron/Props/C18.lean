import Victron.Model.Proto
import Victron.Model.FileLog
import Victron.Proofs.Logging
import Victron.Proofs.Replay
import Victron.Props.C06
/-
  C18 — Logging is transparent and the I/O log replays.
  Model: `Vd` with `ioLog` / `dbg` configuration, the tx/rx capture buffers and emitted lines exactly as
  io.go / logging.go keep them; `FileLog.close` (fileLogger.go). The debug log's text is not modelled —
  only its absence of effect is claimed. The replay clause is a theorem about the model (`*_replay`: the
  lookup port is a port that answers the logged transmission with the logged reception) and is also
  exercised on the real code by the harness (every single-exchange line is replayed), see DESIGN.md.
-/
namespace Victron.C18
open Victron

/-- **Transparency.** Running any typed call on the state with its logger configuration and log buffers
    erased gives the same result and the same state up to erasure — hence the same bytes written, the
    same reads and flushes performed, the same pending bytes. Holds for every port script and fault plan. -/
theorem get_transparent (σ : Vd) (idles : List Bool) (addr : Nat) :
    σ.erase.veCommandGet idles addr = ((σ.veCommandGet idles addr).1.erase, (σ.veCommandGet idles addr).2) :=
  Vd.veCommandGetL_erase _ σ addr

theorem command_transparent (σ : Vd) (idle : Bool) (cmd addr : Nat) :
    σ.erase.veCommand idle cmd addr = ((σ.veCommand idle cmd addr).1.erase, (σ.veCommand idle cmd addr).2) :=
  Vd.veCommand_erase σ idle cmd addr

theorem ping_transparent (σ : Vd) (idle : Bool) :
    σ.erase.ping idle = ((σ.ping idle).1.erase, (σ.ping idle).2) := by
  unfold Vd.ping; simp only
  rw [Vd.sendReceive_erase, Vd.erase_lineEnd, Vd.lineEnd_erase]

theorem deviceId_transparent (σ : Vd) (idle : Bool) :
    σ.erase.getDeviceId idle = ((σ.getDeviceId idle).1.erase, (σ.getDeviceId idle).2) := by
  unfold Vd.getDeviceId; simp only
  rw [Vd.veCommand_erase, Vd.erase_lineEnd, Vd.lineEnd_erase]

theorem uint_transparent (σ : Vd) (idles : List Bool) (addr : Nat) :
    σ.erase.getUint idles addr = ((σ.getUint idles addr).1.erase, (σ.getUint idles addr).2) := by
  unfold Vd.getUint; simp only
  rw [get_transparent, Vd.erase_lineEnd, Vd.lineEnd_erase]

theorem int_transparent (σ : Vd) (idles : List Bool) (addr : Nat) :
    σ.erase.getInt idles addr = ((σ.getInt idles addr).1.erase, (σ.getInt idles addr).2) := by
  unfold Vd.getInt; simp only
  rw [get_transparent, Vd.erase_lineEnd, Vd.lineEnd_erase]

theorem string_transparent (σ : Vd) (idles : List Bool) (addr : Nat) :
    σ.erase.getString idles addr = ((σ.getString idles addr).1.erase, (σ.getString idles addr).2) := by
  unfold Vd.getString; simp only
  rw [get_transparent, Vd.erase_lineEnd, Vd.lineEnd_erase]

/-- the four logger configurations: two drivers that differ only in configuration and log buffers return
    the same result and produce the same traffic (`port` carries bytes written, reads, flushes) -/
theorem config_independent (σ₁ σ₂ : Vd) (h : σ₁.erase = σ₂.erase) (idles : List Bool) (addr : Nat) :
    (σ₁.getUint idles addr).2 = (σ₂.getUint idles addr).2 ∧
    (σ₁.getUint idles addr).1.port = (σ₂.getUint idles addr).1.port ∧
    (σ₁.getUint idles addr).1.buf = (σ₂.getUint idles addr).1.buf := by
  have h1 := uint_transparent σ₁ idles addr
  have h2 := uint_transparent σ₂ idles addr
  rw [h] at h1
  rw [h1] at h2
  have := Prod.ext_iff.mp h2
  refine ⟨this.2, ?_, ?_⟩
  · have := congrArg Vd.port this.1; simpa using this
  · have := congrArg Vd.buf this.1; simpa using this

/-- **One line per typed call.** With the I/O logger on and empty capture buffers, `GetUint` emits exactly
    one line; its tx part is the concatenation of the frames written during the call (`k ≤ 8` copies of
    the Get frame) and the capture buffers are empty again afterwards. -/
theorem uint_emits_one_line (σ : Vd) (idles : List Bool) (addr : Nat) (hio : σ.ioLog = true) (htx : σ.txBuf = []) :
    ∃ k rx, k ≤ 8 ∧
      (σ.getUint idles addr).1.lines = ⟨(List.replicate k (tx 7 addr)).flatten, rx⟩ :: σ.lines ∧
      (σ.getUint idles addr).1.port.written = List.replicate k (tx 7 addr) ++ σ.port.written ∧
      (σ.getUint idles addr).1.txBuf = [] ∧ (σ.getUint idles addr).1.rxBuf = [] := by
  obtain ⟨k, hk, hw, ht, hi, hl⟩ := Vd.veCommandGetL_tx (idles8 idles) σ addr
  rw [idles8_length] at hk
  refine ⟨k, (Vd.veCommandGetL (idles8 idles) σ addr).1.rxBuf, hk, ?_, ?_, ?_, ?_⟩ <;>
    (unfold Vd.getUint Vd.veCommandGet Vd.lineEnd; simp only [hi, hio, if_true])
  · rw [ht, hl, hio, htx]; simp
  · rw [hw]; simp

/-- without the I/O logger no line is ever emitted -/
theorem no_logger_no_line (σ : Vd) (idles : List Bool) (addr : Nat) (hio : σ.ioLog = false) :
    (σ.getUint idles addr).1.lines = σ.lines := by
  obtain ⟨k, hk, hw, ht, hi, hl⟩ := Vd.veCommandGetL_tx (idles8 idles) σ addr
  unfold Vd.getUint Vd.veCommandGet Vd.lineEnd
  simp only [hi, hio]
  exact hl

/-- **The I/O log replays.** A typed register read (I/O logger on, capture buffers empty) that completed in a
    single exchange — exactly one frame handed to the port — emits the line `⟨tx, rx⟩` where `tx` is the Get
    frame of the register, and on *any* driver whose port answers its next transmission with `rx`
    (`ReplayReady`: nothing pending, no faults; in particular a freshly constructed driver on a lookup port
    holding the pair) the same read returns the same result — value or device error alike, whatever that
    driver's logger configuration and idle pattern. Since the replaying driver transmits `tx 7 addr` as well,
    the lookup by transmission hits. -/
theorem get_replay (σ : Vd) (idles : List Bool) (addr : Nat) (hio : σ.ioLog = true) (hrx : σ.rxBuf = [])
    (hone : (σ.veCommandGet idles addr).1.port.nW = σ.port.nW + 1)
    (σr : Vd) (hready : σr.ReplayReady (σ.veCommandGet idles addr).1.rxBuf) (idles' : List Bool) :
    (σr.veCommandGet idles' addr).2 = (σ.veCommandGet idles addr).2 ∧
    σ.TxInv (σ.veCommandGet idles addr).1 [tx 7 addr] := by
  obtain ⟨i, is, hi, his⟩ := idles8_cons idles
  obtain ⟨i', is', hi', _⟩ := idles8_cons idles'
  unfold Vd.veCommandGet at hone hready ⊢
  rw [hi] at hone hready ⊢
  rw [hi']
  exact Vd.veCommandGetL_replay i is his σ addr hio hrx hone σr hready i' is'

/-- the line a single-exchange `GetUint` emits, and its replay -/
theorem uint_replay (σ : Vd) (idles : List Bool) (addr : Nat)
    (hio : σ.ioLog = true) (htx : σ.txBuf = []) (hrx : σ.rxBuf = [])
    (hone : (σ.getUint idles addr).1.port.nW = σ.port.nW + 1) :
    ∃ rx, (σ.getUint idles addr).1.lines = ⟨tx 7 addr, rx⟩ :: σ.lines ∧
      ∀ (σr : Vd) (idles' : List Bool), σr.ReplayReady rx →
        (σr.getUint idles' addr).2 = (σ.getUint idles addr).2 := by
  have hone' : (σ.veCommandGet idles addr).1.port.nW = σ.port.nW + 1 := by
    unfold Vd.getUint Vd.lineEnd at hone; simp only at hone; split at hone <;> exact hone
  refine ⟨(σ.veCommandGet idles addr).1.rxBuf, ?_, ?_⟩
  · obtain ⟨_, ⟨_, ht, hi, hl⟩⟩ := get_replay σ idles addr hio hrx hone' (Vd.replayOf _ false false) (Vd.replayOf_ready _ _ _) []
    unfold Vd.getUint Vd.lineEnd
    simp only [hi, hio, if_true]
    rw [ht, hl, hio, htx]; simp
  · intro σr idles' hready
    have := (get_replay σ idles addr hio hrx hone' σr hready idles').1
    unfold Vd.getUint; simp only; rw [this]

theorem int_replay (σ : Vd) (idles : List Bool) (addr : Nat)
    (hio : σ.ioLog = true) (htx : σ.txBuf = []) (hrx : σ.rxBuf = [])
    (hone : (σ.getInt idles addr).1.port.nW = σ.port.nW + 1) :
    ∃ rx, (σ.getInt idles addr).1.lines = ⟨tx 7 addr, rx⟩ :: σ.lines ∧
      ∀ (σr : Vd) (idles' : List Bool), σr.ReplayReady rx →
        (σr.getInt idles' addr).2 = (σ.getInt idles addr).2 := by
  have hone' : (σ.veCommandGet idles addr).1.port.nW = σ.port.nW + 1 := by
    unfold Vd.getInt Vd.lineEnd at hone; simp only at hone; split at hone <;> exact hone
  refine ⟨(σ.veCommandGet idles addr).1.rxBuf, ?_, ?_⟩
  · obtain ⟨_, ⟨_, ht, hi, hl⟩⟩ := get_replay σ idles addr hio hrx hone' (Vd.replayOf _ false false) (Vd.replayOf_ready _ _ _) []
    unfold Vd.getInt Vd.lineEnd
    simp only [hi, hio, if_true]
    rw [ht, hl, hio, htx]; simp
  · intro σr idles' hready
    have := (get_replay σ idles addr hio hrx hone' σr hready idles').1
    unfold Vd.getInt; simp only; rw [this]

theorem string_replay (σ : Vd) (idles : List Bool) (addr : Nat)
    (hio : σ.ioLog = true) (htx : σ.txBuf = []) (hrx : σ.rxBuf = [])
    (hone : (σ.getString idles addr).1.port.nW = σ.port.nW + 1) :
    ∃ rx, (σ.getString idles addr).1.lines = ⟨tx 7 addr, rx⟩ :: σ.lines ∧
      ∀ (σr : Vd) (idles' : List Bool), σr.ReplayReady rx →
        (σr.getString idles' addr).2 = (σ.getString idles addr).2 := by
  have hone' : (σ.veCommandGet idles addr).1.port.nW = σ.port.nW + 1 := by
    unfold Vd.getString Vd.lineEnd at hone; simp only at hone; split at hone <;> exact hone
  refine ⟨(σ.veCommandGet idles addr).1.rxBuf, ?_, ?_⟩
  · obtain ⟨_, ⟨_, ht, hi, hl⟩⟩ := get_replay σ idles addr hio hrx hone' (Vd.replayOf _ false false) (Vd.replayOf_ready _ _ _) []
    unfold Vd.getString Vd.lineEnd
    simp only [hi, hio, if_true]
    rw [ht, hl, hio, htx]; simp
  · intro σr idles' hready
    have := (get_replay σ idles addr hio hrx hone' σr hready idles').1
    unfold Vd.getString; simp only; rw [this]

/-- `Ping` and the device-id query are single exchanges by construction; when they obtained a response, the
    logged pair replays to the same result -/
theorem deviceId_replay (σ : Vd) (idle : Bool) (hio : σ.ioLog = true) (hrx : σ.rxBuf = [])
    (body : Bytes) (hsome : (σ.sendReceive idle 4 []).2 = some body)
    (σr : Vd) (hready : σr.ReplayReady (σ.sendReceive idle 4 []).1.rxBuf) (idle' : Bool) :
    (σr.getDeviceId idle').2 = (σ.getDeviceId idle).2 := by
  have hr := Vd.sendReceive_replay σ idle 4 [] body hio hrx hsome σr hready idle'
  unfold Vd.getDeviceId Vd.veCommand
  simp only
  have hp : paramFor 4 0 = [] := by decide
  rw [hp, hr, hsome]

theorem ping_replay (σ : Vd) (idle : Bool) (hio : σ.ioLog = true) (hrx : σ.rxBuf = [])
    (body : Bytes) (hsome : (σ.sendReceive idle 1 []).2 = some body)
    (σr : Vd) (hready : σr.ReplayReady (σ.sendReceive idle 1 []).1.rxBuf) (idle' : Bool) :
    (σr.ping idle').2 = (σ.ping idle).2 := by
  have hr := Vd.sendReceive_replay σ idle 1 [] body hio hrx hsome σr hready idle'
  unfold Vd.ping
  simp only
  rw [hr, hsome]

/-- non-vacuity of the replay theorems: a logged single-exchange read and its replay on a fresh driver -/
example :
    let σ : Vd := { port := { replies := [[[1, 2, 3] ++ frameOf (getResponseBody 1 0 [5]) ++ [7]]] }, ioLog := true }
    (σ.getUint [true] 1).1.port.nW = σ.port.nW + 1 ∧
    (σ.getUint [true] 1).1.lines = [⟨tx 7 1, [1, 2, 3] ++ frameOf (getResponseBody 1 0 [5])⟩] ∧
    ((Vd.replayOf ([1, 2, 3] ++ frameOf (getResponseBody 1 0 [5])) false false).getUint [] 1).2 = .ok 5 ∧
    (σ.getUint [true] 1).2 = .ok 5 := by decide

/-- **File logger.** After `Close` the file holds its previous content followed by every line, in order,
    each terminated by a newline. -/
theorem file_append (prev : Bytes) (lines : List Bytes) :
    FileLog.close prev lines = prev ++ (lines.map (· ++ [10])).flatten := rfl

theorem file_append_step (prev : Bytes) (lines : List Bytes) (l : Bytes) :
    FileLog.close prev (lines ++ [l]) = FileLog.close prev lines ++ l ++ [10] := by
  simp [FileLog.close]

/-- non-vacuity: a logged exchange -/
example : ((Vd.getUint { port := { replies := [[frameOf (getResponseBody 1 0 [5])]] }, ioLog := true } [true] 1).1.lines.length) = 1 := by decide

/-! ### Histories: one line per typed call, whatever came before -/

/-- the typed calls are the ones that end with `ioLoggerLineEnd` -/
def isTyped : C06.Call → Bool
  | .ping _ | .deviceId _ | .getUint _ _ | .getInt _ _ | .getString _ _ => true
  | .command _ _ _ | .getRaw _ _ => false

theorem lineEnd_lines (σ : Vd) : σ.lineEnd.ioLog = σ.ioLog ∧
    σ.lineEnd.lines.length = σ.lines.length + (if σ.ioLog then 1 else 0) := by
  unfold Vd.lineEnd; cases h : σ.ioLog <;> simp [h]

/-- one call: the logger switch is untouched and the number of lines grows by one exactly for a typed call with the
    I/O logger on -/
theorem doCall_lines (σ : Vd) (c : C06.Call) :
    (C06.doCall σ c).1.ioLog = σ.ioLog ∧
    (C06.doCall σ c).1.lines.length = σ.lines.length + (if σ.ioLog && isTyped c then 1 else 0) := by
  cases c with
  | ping i =>
    obtain ⟨fs, _, _, _, hi, hl⟩ := σ.sendReceive_tx i 1 []
    have := lineEnd_lines (σ.sendReceive i 1 []).1
    simp only [C06.doCall, Vd.ping, isTyped, Bool.and_true]
    rw [this.1, this.2, hi, hl]; exact ⟨rfl, rfl⟩
  | deviceId i =>
    obtain ⟨fs, _, _, _, hi, hl⟩ := σ.veCommand_tx i 4 0
    have := lineEnd_lines (σ.veCommand i 4 0).1
    simp only [C06.doCall, Vd.getDeviceId, isTyped, Bool.and_true]
    rw [this.1, this.2, hi, hl]; exact ⟨rfl, rfl⟩
  | command i c a =>
    obtain ⟨fs, _, _, _, hi, hl⟩ := σ.veCommand_tx i c a
    simp only [C06.doCall, isTyped, Bool.and_false]
    rw [hi, hl]; exact ⟨rfl, by simp⟩
  | getRaw is a =>
    obtain ⟨k, _, _, _, hi, hl⟩ := Vd.veCommandGetL_tx (idles8 is) σ a
    simp only [C06.doCall, Vd.veCommandGet, isTyped, Bool.and_false]
    rw [hi, hl]; exact ⟨rfl, by simp⟩
  | getUint is a =>
    obtain ⟨k, _, _, _, hi, hl⟩ := Vd.veCommandGetL_tx (idles8 is) σ a
    have := lineEnd_lines (Vd.veCommandGetL (idles8 is) σ a).1
    simp only [C06.doCall, Vd.getUint, Vd.veCommandGet, isTyped, Bool.and_true]
    rw [this.1, this.2, hi, hl]; exact ⟨rfl, rfl⟩
  | getInt is a =>
    obtain ⟨k, _, _, _, hi, hl⟩ := Vd.veCommandGetL_tx (idles8 is) σ a
    have := lineEnd_lines (Vd.veCommandGetL (idles8 is) σ a).1
    simp only [C06.doCall, Vd.getInt, Vd.veCommandGet, isTyped, Bool.and_true]
    rw [this.1, this.2, hi, hl]; exact ⟨rfl, rfl⟩
  | getString is a =>
    obtain ⟨k, _, _, _, hi, hl⟩ := Vd.veCommandGetL_tx (idles8 is) σ a
    have := lineEnd_lines (Vd.veCommandGetL (idles8 is) σ a).1
    simp only [C06.doCall, Vd.getString, Vd.veCommandGet, isTyped, Bool.and_true]
    rw [this.1, this.2, hi, hl]; exact ⟨rfl, rfl⟩

/-- **Exactly one line per typed call over any history on one driver object** (I/O logger on), none without the logger:
    failed, retried, refused and noisy calls included; raw `VeCommand`/`VeCommandGet` calls emit none. -/
theorem history_lines (cs : List C06.Call) (σ : Vd) :
    (C06.history σ cs).1.lines.length = σ.lines.length + (if σ.ioLog then (cs.filter isTyped).length else 0) := by
  have gen : ∀ (cs : List C06.Call) (σ : Vd) (acc : List Bool),
      (cs.foldl C06.histStep (σ, acc)).1.ioLog = σ.ioLog ∧
      (cs.foldl C06.histStep (σ, acc)).1.lines.length = σ.lines.length + (if σ.ioLog then (cs.filter isTyped).length else 0) := by
    intro cs
    induction cs with
    | nil => intro σ acc; simp
    | cons c cs ih =>
      intro σ acc
      obtain ⟨h1, h2⟩ := doCall_lines σ c
      obtain ⟨g1, g2⟩ := ih (C06.doCall σ c).1 (acc ++ [(C06.doCall σ c).2])
      simp only [List.foldl_cons, C06.histStep]
      refine ⟨g1.trans h1, ?_⟩
      rw [g2, h1, h2]
      cases hio : σ.ioLog <;> cases ht : isTyped c <;> simp [List.filter_cons, ht] <;> omega
  exact (gen cs σ []).2

end Victron.C18
