import Victron.Model.Proto
import Victron.Model.FileLog
import Victron.Proofs.Logging
/-
  C18 — Logging is transparent and the I/O log replays.
  Model: `Vd` with `ioLog` / `dbg` configuration, the tx/rx capture buffers and emitted lines exactly as
  io.go / logging.go keep them; `FileLog.close` (fileLogger.go). The debug log's text is not modelled —
  only its absence of effect is claimed. The replay clause is checked on the real code by the harness
  (every single-exchange line is replayed through a lookup port), see DESIGN.md.
-/
namespace Victron.C18
open Victron

/-- **Transparency.** Running any typed call on the state with its logger configuration and log buffers
    erased gives the same result and the same state up to erasure — hence the same bytes written, the
    same reads and flushes performed, the same pending bytes. Holds for every port script and fault plan. -/
theorem get_transparent (σ : Vd) (idles : List Bool) (addr : Nat) :
    σ.erase.veCommandGet idles addr = ((σ.veCommandGet idles addr).1.erase, (σ.veCommandGet idles addr).2) :=
  Vd.veCommandGetL_erase _ σ addr

theorem command_transparent (σ : Vd) (idle : Bool) (cmd addr : Nat) :
    σ.erase.veCommand idle cmd addr = ((σ.veCommand idle cmd addr).1.erase, (σ.veCommand idle cmd addr).2) :=
  Vd.veCommand_erase σ idle cmd addr

theorem ping_transparent (σ : Vd) (idle : Bool) :
    σ.erase.ping idle = ((σ.ping idle).1.erase, (σ.ping idle).2) := by
  unfold Vd.ping; simp only
  rw [Vd.sendReceive_erase, Vd.erase_lineEnd, Vd.lineEnd_erase]

theorem deviceId_transparent (σ : Vd) (idle : Bool) :
    σ.erase.getDeviceId idle = ((σ.getDeviceId idle).1.erase, (σ.getDeviceId idle).2) := by
  unfold Vd.getDeviceId; simp only
  rw [Vd.veCommand_erase, Vd.erase_lineEnd, Vd.lineEnd_erase]

theorem uint_transparent (σ : Vd) (idles : List Bool) (addr : Nat) :
    σ.erase.getUint idles addr = ((σ.getUint idles addr).1.erase, (σ.getUint idles addr).2) := by
  unfold Vd.getUint; simp only
  rw [get_transparent, Vd.erase_lineEnd, Vd.lineEnd_erase]

theorem int_transparent (σ : Vd) (idles : List Bool) (addr : Nat) :
    σ.erase.getInt idles addr = ((σ.getInt idles addr).1.erase, (σ.getInt idles addr).2) := by
  unfold Vd.getInt; simp only
  rw [get_transparent, Vd.erase_lineEnd, Vd.lineEnd_erase]

theorem string_transparent (σ : Vd) (idles : List Bool) (addr : Nat) :
    σ.erase.getString idles addr = ((σ.getString idles addr).1.erase, (σ.getString idles addr).2) := by
  unfold Vd.getString; simp only
  rw [get_transparent, Vd.erase_lineEnd, Vd.lineEnd_erase]

/-- the four logger configurations: two drivers that differ only in configuration and log buffers return
    the same result and produce the same traffic (`port` carries bytes written, reads, flushes) -/
theorem config_independent (σ₁ σ₂ : Vd) (h : σ₁.erase = σ₂.erase) (idles : List Bool) (addr : Nat) :
    (σ₁.getUint idles addr).2 = (σ₂.getUint idles addr).2 ∧
    (σ₁.getUint idles addr).1.port = (σ₂.getUint idles addr).1.port ∧
    (σ₁.getUint idles addr).1.buf = (σ₂.getUint idles addr).1.buf := by
  have h1 := uint_transparent σ₁ idles addr
  have h2 := uint_transparent σ₂ idles addr
  rw [h] at h1
  rw [h1] at h2
  have := Prod.ext_iff.mp h2
  refine ⟨this.2, ?_, ?_⟩
  · have := congrArg Vd.port this.1; simpa using this
  · have := congrArg Vd.buf this.1; simpa using this

/-- **One line per typed call.** With the I/O logger on and empty capture buffers, `GetUint` emits exactly
    one line; its tx part is the concatenation of the frames written during the call (`k ≤ 8` copies of
    the Get frame) and the capture buffers are empty again afterwards. -/
theorem uint_emits_one_line (σ : Vd) (idles : List Bool) (addr : Nat) (hio : σ.ioLog = true) (htx : σ.txBuf = []) :
    ∃ k rx, k ≤ 8 ∧
      (σ.getUint idles addr).1.lines = ⟨(List.replicate k (tx 7 addr)).flatten, rx⟩ :: σ.lines ∧
      (σ.getUint idles addr).1.port.written = List.replicate k (tx 7 addr) ++ σ.port.written ∧
      (σ.getUint idles addr).1.txBuf = [] ∧ (σ.getUint idles addr).1.rxBuf = [] := by
  obtain ⟨k, hk, hw, ht, hi, hl⟩ := Vd.veCommandGetL_tx (idles8 idles) σ addr
  rw [idles8_length] at hk
  refine ⟨k, (Vd.veCommandGetL (idles8 idles) σ addr).1.rxBuf, hk, ?_, ?_, ?_, ?_⟩ <;>
    (unfold Vd.getUint Vd.veCommandGet Vd.lineEnd; simp only [hi, hio, if_true])
  · rw [ht, hl, hio, htx]; simp
  · rw [hw]; simp

/-- without the I/O logger no line is ever emitted -/
theorem no_logger_no_line (σ : Vd) (idles : List Bool) (addr : Nat) (hio : σ.ioLog = false) :
    (σ.getUint idles addr).1.lines = σ.lines := by
  obtain ⟨k, hk, hw, ht, hi, hl⟩ := Vd.veCommandGetL_tx (idles8 idles) σ addr
  unfold Vd.getUint Vd.veCommandGet Vd.lineEnd
  simp only [hi, hio]
  exact hl

/-- **File logger.** After `Close` the file holds its previous content followed by every line, in order,
    each terminated by a newline. -/
theorem file_append (prev : Bytes) (lines : List Bytes) :
    FileLog.close prev lines = prev ++ (lines.map (· ++ [10])).flatten := rfl

theorem file_append_step (prev : Bytes) (lines : List Bytes) (l : Bytes) :
    FileLog.close prev (lines ++ [l]) = FileLog.close prev lines ++ l ++ [10] := by
  simp [FileLog.close]

/-- non-vacuity: a logged exchange -/
example : ((Vd.getUint { port := { replies := [[frameOf (getResponseBody 1 0 [5])]] }, ioLog := true } [true] 1).1.lines.length) = 1 := by decide

end Victron.C18
