import Victron.Gen.Tables
import Victron.Model.Api
import Victron.Proofs.Hex
import Victron.Proofs.Text
import Victron.Props.C14
/-
  C09 — Register values are scaled and decoded exactly as the register defines.
  Model: `readNumber/readText/readEnum/readFieldList` (registerApi.go) over an abstract transport; register
  definitions and enum tables are the regenerated tables (T1); the readers are compared with the real ones for
  every register definition x raw values x widths (T3). A number is the symbolic triple (raw, factor, offset):
  the float `raw/factor + offset` is formed by the comparer exactly as the Go expression forms it.
-/
namespace Victron.C09
open Victron

/-- unsigned register: raw is the little-endian value of the (first eight) bytes, whatever the width -/
theorem number_unsigned (tr : Transport) (r : Reg) (bs : Bytes) (hs : r.signed = false) (hg : tr.get r.address = .ok bs) :
    readNumber tr r = .ok (.num (leUint bs) r.factor r.offset) := by
  simp [readNumber, hs, hg, R.map', wrap]

/-- signed register: raw is the two's complement reading at the width actually sent (1, 2, 4 or 8 bytes) -/
theorem number_signed (tr : Transport) (r : Reg) (bs : Bytes) (hs : r.signed = true) (hg : tr.get r.address = .ok bs)
    (hw : bs.length = 1 ∨ bs.length = 2 ∨ bs.length = 4 ∨ bs.length = 8) :
    readNumber tr r = .ok (.num (toS (8 * bs.length) (leNat bs)) r.factor r.offset) := by
  simp [readNumber, hs, hg, R.map', R.bind, leInt, hw, wrap]

/-- the boundary: the w-byte value 2^(8w-1) is -2^(8w-1) for a signed register and +2^(8w-1) for an unsigned one -/
theorem number_signed_boundary :
    toS 8 128 = -128 ∧ toS 16 32768 = -32768 ∧ toS 32 2147483648 = -2147483648 ∧
    toS 64 9223372036854775808 = -9223372036854775808 ∧ leUint [0, 128] = 32768 := by decide

/-- a width the signed reader cannot interpret is an error carrying the register's name, not a guess -/
theorem number_signed_bad_width (tr : Transport) (r : Reg) (bs : Bytes) (hs : r.signed = true) (hg : tr.get r.address = .ok bs)
    (hw : ¬ (bs.length = 1 ∨ bs.length = 2 ∨ bs.length = 4 ∨ bs.length = 8)) :
    readNumber tr r = .err .other r.name := by
  simp [readNumber, hs, hg, R.map', R.bind, leInt, hw, wrap]

/-- text: trailing NUL padding removed, then surrounding white space -/
theorem text_value (tr : Transport) (r : Reg) (bs : Bytes) (hg : tr.get r.address = .ok bs) :
    readText tr r = .ok (.text (trimSpace (trimNul bs))) := by
  simp [readText, hg, R.map', wrap]

/-- what "trailing NUL padding and then surrounding white space removed" means, exactly: the device bytes are
    `a ++ t ++ b ++ 0…0` with `a`, `b` strings of white-space runes (`unicode.IsSpace`, UTF-8 encoded), the part
    in front of the padding does not end in NUL, and the value `t` neither starts nor ends with a white-space
    rune; reading such a `t` back leaves it unchanged -/
theorem text_shape (tr : Transport) (r : Reg) (bs : Bytes) (hg : tr.get r.address = .ok bs) :
    ∃ t a b k, readText tr r = .ok (.text t) ∧ bs = (a ++ t ++ b) ++ List.replicate k 0 ∧
      (a ++ t ++ b).getLast? ≠ some 0 ∧ IsSpaces a ∧ IsSpaces b ∧ NoLeadingSpace t ∧ NoTrailingSpace t ∧
      trimSpace t = t := by
  obtain ⟨k, hk, hlast⟩ := trimNul_spec bs
  obtain ⟨a, b, ha, hb, hs, hl, ht⟩ := trimSpace_spec (trimNul bs)
  refine ⟨trimSpace (trimNul bs), a, b, k, text_value tr r bs hg, ?_, ?_, ha, hb, hl, ht, trimSpace_idem _⟩
  · rw [← hs]; exact hk
  · rw [← hs]; exact hlast

example : trimSpace (trimNul [32, 9, 72, 81, 32, 50, 0xC2, 0xA0, 0xE2, 0x80, 0x83, 0, 0]) = [72, 81, 32, 50] := by decide

theorem leUint_lt (bs : Bytes) (h : IsBytes bs) : leUint bs < 2 ^ 64 := by
  have h8 : IsBytes (bs.take 8) := fun b hb => h b (List.mem_of_mem_take hb)
  have := leNat_lt (bs.take 8) h8
  have hl : (bs.take 8).length ≤ 8 := by simp; omega
  calc leUint bs = leNat (bs.take 8) := rfl
    _ < 256 ^ (bs.take 8).length := this
    _ ≤ 256 ^ 8 := Nat.pow_le_pow_right (by omega) hl
    _ = 2 ^ 64 := by decide

/-- enum: a raw value that is a key of the register's enumeration yields the constant with that index and
    the mapped name — whatever width the device answered with -/
theorem enum_value (tr : Transport) (r : Reg) (T : EnumTable) (hT : T ∈ Gen.enums)
    (hf : Gen.enums.find? (·.name == r.factory) = some T) (bs : Bytes) (hb : IsBytes bs) (hg : tr.get r.address = .ok bs)
    (hk : (leUint bs : Int) ∈ C14.keys T) :
    ∃ n, T.lookup (leUint bs) = some n ∧ n ≠ "" ∧ readEnum tr Gen.enums r = .ok (.enum (leUint bs) n) := by
  have hr := C14.keys_in_range T hT _ hk
  have hs : toS 64 (leUint bs) = (leUint bs : Int) := by
    unfold toS; simp only [Nat.reducePow, Nat.reduceSub]; split <;> omega
  have hok := (C14.newEnum_iff T hT (leUint bs)).mpr hk
  cases hn : T.newEnum (leUint bs : Int) with
  | ok p =>
    obtain ⟨i, n⟩ := p
    obtain ⟨h1, h2, h3⟩ := C14.newEnum_value T hT _ i n hn
    refine ⟨n, h2, h3, ?_⟩
    simp [readEnum, hg, hf, R.bind, hs, hn, R.map', wrap, h1]
  | err e => rw [hn] at hok; simp [R.isOk] at hok
  | panic => rw [hn] at hok; simp [R.isOk] at hok

/-- an undefined enum code — of any width, including values ≥ 256 and ≥ 2^63 — is an error matching
    ErrInvalidEnumIdx, wrapped with the register's name -/
theorem enum_undefined (tr : Transport) (r : Reg) (T : EnumTable) (hT : T ∈ Gen.enums)
    (hf : Gen.enums.find? (·.name == r.factory) = some T) (bs : Bytes) (hb : IsBytes bs) (hg : tr.get r.address = .ok bs)
    (hk : (leUint bs : Int) ∉ C14.keys T) :
    readEnum tr Gen.enums r = .err .invalidEnum r.name := by
  have hlt := leUint_lt bs hb
  have hnk : toS 64 (leUint bs) ∉ C14.keys T := by
    intro hm
    have hr := C14.keys_in_range T hT _ hm
    have : toS 64 (leUint bs) = (leUint bs : Int) := by
      unfold toS at hr ⊢; simp only [Nat.reducePow, Nat.reduceSub] at hr ⊢; split at hr <;> split <;> omega
    rw [this] at hm; exact hk hm
  have := C14.newEnum_error T hT _ hnk
  simp [readEnum, hg, hf, R.bind, this, R.map', wrap]

/-- field list: the bit set of the raw value over the documented indices, and its rendering -/
theorem fieldlist_value (tr : Transport) (r : Reg) (T : EnumTable)
    (hf : Gen.fieldLists.find? (·.name == r.factory) = some T) (bs : Bytes) (hg : tr.get r.address = .ok bs) :
    readFieldList tr Gen.fieldLists r = .ok (.fields (T.fields (leUint bs)) (T.commaString (leUint bs))) := by
  simp [readFieldList, hg, hf, R.bind, wrap]

/-- **Transport errors are wrapped with the register's name and stay matchable** (C05's API clause): every
    reader passes the error kind on unchanged (`errors.Is` still matches) together with the name. -/
theorem transport_error_wrapped (tr : Transport) (r : Reg) (e : Err) (hg : tr.get r.address = .err e) :
    readNumber tr r = .err e r.name ∧ readText tr r = .err e r.name ∧
    readEnum tr Gen.enums r = .err e r.name ∧ readFieldList tr Gen.fieldLists r = .err e r.name := by
  refine ⟨?_, ?_, ?_, ?_⟩
  · unfold readNumber; rw [hg]; cases r.signed <;> rfl
  · unfold readText; rw [hg]; rfl
  · unfold readEnum; rw [hg]; rfl
  · unfold readFieldList; rw [hg]; rfl

/-- every enum / field-list register of every family names a decoder that exists in the tables -/
theorem decoders_resolve :
    (Gen.bmvAll.e ++ Gen.solarAll.e ++ Gen.inverterAll.e).all (fun r => (Gen.enums.find? (·.name == r.factory)).isSome) = true ∧
    (Gen.bmvAll.f ++ Gen.solarAll.f ++ Gen.inverterAll.f).all (fun r => (Gen.fieldLists.find? (·.name == r.factory)).isSome) = true := by
  decide +kernel

/-- trimming: every listed Unicode space is removed from both ends, interior ones stay -/
example : trimSpace ([0xC2, 0xA0, 32, 65, 32, 66, 0xE3, 0x80, 0x80, 9]) = [65, 32, 66] := by decide
example : trimSpace [0xC2, 32] = [0xC2] ∧ trimSpace [0xA0, 65] = [0xA0, 65] := by decide
/-- non-vacuity -/
example : readNumber ⟨.ok (), .ok 0, fun _ => .ok [0xFE, 0xFF]⟩ ⟨1, "", "X", "", 0, 5, false, false, true, 100, "0", "", ""⟩
    = .ok (.num (-2) 100 "0") := by decide

end Victron.C09
