import Victron.Model.Proto
import Victron.Spec.FrameLang
import Victron.Proofs.Hex
import Victron.Proofs.Proto
import Victron.Props.C06
/-
  C03 — Every transmitted command is a well-formed HEX frame.
  Model: `txFrame` / `tx` (vecommand.go `sendCommand`), `Vd.*` (the driver on a scripted port).
-/
namespace Victron.C03
open Victron

/-- Any command nibble, any payload: the frame built by `sendCommand` is in the frame language and
    decodes to the payload followed by the check byte. -/
theorem txFrame_wellformed (cmd : Nat) (data : Bytes) (hc : cmd < 16) (hd : IsBytes data) :
    WellFormedFrame (txFrame cmd data) cmd (data ++ [checksum cmd data]) := by
  have hck := checksum_lt cmd data
  have hall : IsBytes (data ++ [checksum cmd data]) := hd.append (IsBytes.cons hck IsBytes.nil)
  refine ⟨hexDigit cmd, hexBytes (data ++ [checksum cmd data]), ?_, hexDigit_upper hc, unhexDigit_hexDigit hc,
    hexBytes_upper hall, ?_, unhex_hexBytes hall, by simp, ?_⟩
  · simp [txFrame, hexNoPad, hc, hexBytes_append, hexBytes, List.flatMap_cons]
  · rw [hexBytes_length]; omega
  · have := checksum_sum cmd data hd
    simp only [List.sum_append, List.sum_cons, List.sum_nil]
    rw [Nat.mod_eq_of_lt (by omega : cmd < 256)] at this
    omega

/-- C03, first sentence, for all seven commands and **all** addresses (not only 16-bit ones). -/
theorem tx_wellformed (cmd : Nat) (hc : cmd ∈ commands) (addr : Nat) :
    WellFormedFrame (tx cmd addr) cmd (paramFor cmd addr ++ [checksum cmd (paramFor cmd addr)]) := by
  have hlt : cmd < 16 := by
    simp [commands] at hc; omega
  have hb : IsBytes (paramFor cmd addr) := by
    unfold paramFor; split
    · intro b hb; simp at hb; omega
    · exact IsBytes.nil
  exact txFrame_wellformed cmd _ hlt hb

/-- C03, second sentence: a Get (and a Set) for address `a` carries exactly `a_lo a_hi 00`;
    every other command carries no payload. -/
theorem tx_payload (cmd : Nat) (hc : cmd ∈ commands) (addr : Nat) :
    paramFor cmd addr = if cmd = 7 ∨ cmd = 8 then [addr % 256, addr / 256 % 256, 0] else [] := rfl

theorem ping_and_deviceId_carry_no_payload (addr : Nat) : paramFor 1 addr = [] ∧ paramFor 4 addr = [] := by
  constructor <;> rfl

/-- C03, third sentence, for a register access: whatever the port does (any replies, any faults, any
    pending bytes, any idle pattern), everything the driver writes during `VeCommandGet addr` is a
    sequence of at most eight copies of the one well-formed frame `tx 7 addr` — one per attempt. -/
theorem get_writes_are_frames (σ : Vd) (idles : List Bool) (addr : Nat) :
    ∃ k, k ≤ 8 ∧
      (σ.veCommandGet idles addr).1.port.written = List.replicate k (tx 7 addr) ++ σ.port.written ∧
      (σ.veCommandGet idles addr).1.port.nW ≤ σ.port.nW + 8 :=
  veCommandGet_written σ idles addr

/-- the same for the single-attempt calls: Ping, GetDeviceId, VeCommand -/
theorem command_writes_one_frame (σ : Vd) (idle : Bool) (cmd addr : Nat) :
    ∃ k, k ≤ 1 ∧ (σ.veCommand idle cmd addr).1.port.written = List.replicate k (tx cmd addr) ++ σ.port.written ∧
      (σ.veCommand idle cmd addr).1.port.nW = σ.port.nW + 1 :=
  veCommand_written σ idle cmd addr

/-! ### Histories -/

/-- the one frame a call of the public API hands to the port (once per attempt) -/
def frameOfCall : C06.Call → Bytes
  | .ping _ => tx 1 0
  | .deviceId _ => tx 4 0
  | .command _ c a => tx c a
  | .getRaw _ a | .getUint _ a | .getInt _ a | .getString _ a => tx 7 a

theorem doCall_written (σ : Vd) (c : C06.Call) :
    ∃ k, k ≤ 8 ∧ (C06.doCall σ c).1.port.written = List.replicate k (frameOfCall c) ++ σ.port.written := by
  cases c with
  | ping i =>
    obtain ⟨k, hk, hw, _⟩ := σ.sendReceive_written i 1 []
    exact ⟨k, by omega, by simpa [C06.doCall, Vd.ping, C06.lineEnd_port_eq, frameOfCall, tx, paramFor] using hw⟩
  | deviceId i =>
    obtain ⟨k, hk, hw, _⟩ := veCommand_written σ i 4 0
    exact ⟨k, by omega, by simpa [C06.doCall, Vd.getDeviceId, C06.lineEnd_port_eq, frameOfCall] using hw⟩
  | command i c a =>
    obtain ⟨k, hk, hw, _⟩ := veCommand_written σ i c a
    exact ⟨k, by omega, by simpa [C06.doCall, frameOfCall] using hw⟩
  | getRaw is a =>
    obtain ⟨k, hk, hw, _⟩ := veCommandGet_written σ is a
    exact ⟨k, hk, by simpa [C06.doCall, frameOfCall] using hw⟩
  | getUint is a =>
    obtain ⟨k, hk, hw, _⟩ := veCommandGet_written σ is a
    exact ⟨k, hk, by simpa [C06.doCall, Vd.getUint, C06.lineEnd_port_eq, frameOfCall] using hw⟩
  | getInt is a =>
    obtain ⟨k, hk, hw, _⟩ := veCommandGet_written σ is a
    exact ⟨k, hk, by simpa [C06.doCall, Vd.getInt, C06.lineEnd_port_eq, frameOfCall] using hw⟩
  | getString is a =>
    obtain ⟨k, hk, hw, _⟩ := veCommandGet_written σ is a
    exact ⟨k, hk, by simpa [C06.doCall, Vd.getString, C06.lineEnd_port_eq, frameOfCall] using hw⟩

/-- **Everything the driver writes, over any history of calls on one object**, is a sequence of the calls' own frames:
    what was asked before — how many registers, in which order, with what outcome — has no influence on the frame written
    for a call (the model keeps nothing between calls that a frame could be taken from). With `tx_wellformed`: every one
    of them is a well-formed frame carrying the call's own address. -/
theorem history_writes (cs : List C06.Call) (σ : Vd) :
    ∃ ws, (C06.history σ cs).1.port.written = ws ++ σ.port.written ∧ ∀ w ∈ ws, ∃ c ∈ cs, w = frameOfCall c := by
  have gen : ∀ (cs : List C06.Call) (σ : Vd) (acc : List Bool),
      ∃ ws, (cs.foldl C06.histStep (σ, acc)).1.port.written = ws ++ σ.port.written ∧ ∀ w ∈ ws, ∃ c ∈ cs, w = frameOfCall c := by
    intro cs
    induction cs with
    | nil => intro σ acc; exact ⟨[], by simp, by simp⟩
    | cons c cs ih =>
      intro σ acc
      obtain ⟨k, _, hw⟩ := doCall_written σ c
      obtain ⟨ws, h1, h2⟩ := ih (C06.doCall σ c).1 (acc ++ [(C06.doCall σ c).2])
      refine ⟨ws ++ List.replicate k (frameOfCall c), ?_, ?_⟩
      · simp only [List.foldl_cons, C06.histStep]
        rw [h1, hw]; simp
      · intro w hwm
        rcases List.mem_append.mp hwm with h | h
        · obtain ⟨c', hc', e⟩ := h2 w h
          exact ⟨c', by simp [hc'], e⟩
        · exact ⟨c, by simp, (List.eq_of_mem_replicate h)⟩
  exact gen cs σ []

/-- non-vacuity: a concrete frame, `Get 0x0040`, whose check byte is below 0x10 (the case the `%X` defect broke) -/
example : tx 7 0x0040 = [58, 55, 52, 48, 48, 48, 48, 48, 48, 69, 10] := by decide   -- ":74000000E\n"
example : tx 1 0 = ":154\n".toList.map Char.toNat := by decide
example : tx 4 0 = ":451\n".toList.map Char.toNat := by decide

end Victron.C03
