import Victron.Model.Tables
/-
  C17 — Lookup data handed out by the library cannot be corrupted by callers.
  The property is about Go's reference semantics. Model: a small heap in which the library's tables are
  internal objects; a lookup allocates a fresh object holding a copy and hands out its id; callers can do
  anything to objects they hold. Theorem: internal objects are unreachable for callers, so every later lookup
  returns the original data. That the code allocates as the model says (and does not hand out or cache
  an internal map / slice) is what the correspondence checks: every lookup function x caller mutations x a
  second and third call, compared with the constant table content (T3). Level: proof on the heap model,
  partial with respect to the code.
-/
namespace Victron.C17
open Victron

/-- object contents are abstract (a list of naturals stands for a map or slice) -/
structure Heap where
  objs : List (List Nat)          -- object id = position
  internal : Nat                  -- ids below `internal` belong to the library, all others were handed out
  deriving Repr

inductive Op where
  | lookup (src : Nat)                          -- a lookup function backed by internal object `src`
  | mutate (id : Nat) (f : List Nat → List Nat)  -- the caller does anything to an object it holds

/-- a lookup copies; a mutation is applied only to caller-held objects (a caller has no other ids) -/
def step (h : Heap) : Op → Heap
  | .lookup src => { h with objs := h.objs ++ [h.objs.getD src []] }
  | .mutate id f => if h.internal ≤ id then { h with objs := h.objs.modify id f } else h

def run (ops : List Op) (h : Heap) : Heap := ops.foldl step h

/-- what a lookup returns in heap `h` -/
def result (h : Heap) (src : Nat) : List Nat := h.objs.getD src []

theorem step_internal (h : Heap) (op : Op) (src : Nat) (hs : src < h.internal) (hi : h.internal ≤ h.objs.length) :
    result (step h op) src = result h src ∧ (step h op).internal = h.internal ∧ (step h op).internal ≤ (step h op).objs.length := by
  cases op with
  | lookup s =>
    simp only [step, result]
    refine ⟨?_, by simp, by simp; omega⟩
    simp [List.getD_eq_getElem?_getD, List.getElem?_append_left (show src < h.objs.length by omega)]
  | mutate id f =>
    simp only [step]
    split
    · rename_i hle
      refine ⟨?_, rfl, by simpa using hi⟩
      simp only [result, List.getD_eq_getElem?_getD]
      rw [List.getElem?_modify]
      have : id ≠ src := by omega
      simp [this]
    · exact ⟨rfl, rfl, hi⟩

/-- **Private copies.** After any history of lookups and caller mutations every lookup function still returns
    the original data. -/
theorem lookup_stable (ops : List Op) (h : Heap) (src : Nat) (hs : src < h.internal) (hi : h.internal ≤ h.objs.length) :
    result (run ops h) src = result h src := by
  induction ops generalizing h with
  | nil => rfl
  | cons op ops ih =>
    obtain ⟨h1, h2, h3⟩ := step_internal h op src hs hi
    simp only [run, List.foldl_cons]
    have := ih (step h op) (by rw [h2]; exact hs) h3
    simp only [run] at this
    rw [this, h1]

/-- what a lookup hands out is a copy of the original -/
theorem lookup_returns_original (ops : List Op) (h : Heap) (src : Nat) (hs : src < h.internal) (hi : h.internal ≤ h.objs.length) :
    (step (run ops h) (.lookup src)).objs.getLast? = some (result h src) := by
  have := lookup_stable ops h src hs hi
  simp only [result, List.getD_eq_getElem?_getD] at this
  simp [step, this, result]

/-- the operation edits object `id` -/
def Op.edits (id : Nat) : Op → Prop
  | .mutate j _ => j = id
  | .lookup _ => False

/-- **Private from each other.** A result the caller holds and does not edit itself keeps its contents whatever else
    happens: later lookups (of the same or of other tables) and edits of *other* results — e.g. of a second result of the
    same lookup taken right after it — never reach it. -/
theorem held_result_stable (ops : List Op) (h : Heap) (id : Nat) (hid : id < h.objs.length)
    (hno : ∀ op ∈ ops, ¬ op.edits id) :
    (run ops h).objs.getD id [] = h.objs.getD id [] := by
  induction ops generalizing h with
  | nil => rfl
  | cons op ops ih =>
    simp only [run, List.foldl_cons]
    have hstep : (step h op).objs.getD id [] = h.objs.getD id [] ∧ id < (step h op).objs.length := by
      cases op with
      | lookup s =>
        simp only [step]
        refine ⟨?_, by simp; omega⟩
        simp [List.getD_eq_getElem?_getD, List.getElem?_append_left hid]
      | mutate j f =>
        have hj : j ≠ id := fun e => hno (.mutate j f) (by simp) e
        simp only [step]
        split
        · refine ⟨?_, by simpa using hid⟩
          simp only [List.getD_eq_getElem?_getD]
          rw [List.getElem?_modify]
          simp [hj]
        · exact ⟨rfl, hid⟩
    have := ih (step h op) hstep.2 (fun o ho => hno o (by simp [ho]))
    simp only [run] at this
    rw [this, hstep.1]

/-- two results of the same lookup, the first one edited: the second one still holds the original -/
example : (run [.lookup 0, .lookup 0, .mutate 1 (fun _ => [])] ⟨[[1, 2, 3]], 1⟩).objs.getD 2 [] = [1, 2, 3] := by decide

/-- non-vacuity: the caller empties and overwrites what it got; the next lookup is unaffected -/
example : result (run [.lookup 0, .mutate 1 (fun _ => []), .lookup 0, .mutate 2 (fun l => 9 :: l), .mutate 0 (fun _ => [])]
    ⟨[[1, 2, 3]], 1⟩) 0 = [1, 2, 3] := by decide

end Victron.C17
