import Victron.Gen.Tables
import Victron.Model.Tables
/-
  C14 — Enumerations: construction, index and name agree for every integer.
  `Gen.enums`: for each of the 20 factories the index-to-name map (`IntToStringMap()`) and the complete graph
  of the typed constructor `New(uint8)` over all 256 bytes, regenerated from /repo (T1).
  `EnumTable.newEnum` models `NewEnum(v int)` (range check, then `New(uint8(v))`) and is tied to the real
  `NewEnum` by the correspondence over [-70000, 70000] and extreme integers (T3).
-/
namespace Victron.C14
open Victron

def keys (T : EnumTable) : List Int := T.entries.map (·.1)

/-- one byte of one table: construction succeeds exactly on keys, with index = the byte and the mapped,
    non-empty name; otherwise the error is ErrInvalidEnumIdx -/
def byteOk (T : EnumTable) (b : Nat) : Bool :=
  match T.newEnum b, T.new b with
  | .ok (i, n), .ok (i', n') => i == (b : Int) && T.lookup b == some n && n != "" && i' == i && n' == n && (keys T).contains (b : Int)
  | .err e, .err e' => e == .invalidEnum && e' == .invalidEnum && !(keys T).contains (b : Int)
  | _, _ => false

def tableOk (T : EnumTable) : Bool :=
  (List.range 256).all (byteOk T) && T.entries.all (fun e => 0 ≤ e.1 && e.1 ≤ 255)

/-- kernel evaluation over all 20 tables x all 256 bytes -/
theorem tables_ok : Gen.enums.all tableOk = true := by decide +kernel

theorem twenty : Gen.enums.length = 20 := by decide +kernel

theorem byte_ok (T : EnumTable) (hT : T ∈ Gen.enums) (b : Nat) (hb : b < 256) : byteOk T b = true := by
  have := List.all_eq_true.mp tables_ok T hT
  simp only [tableOk, Bool.and_eq_true] at this
  exact List.all_eq_true.mp this.1 b (List.mem_range.mpr hb)

theorem keys_in_range (T : EnumTable) (hT : T ∈ Gen.enums) (k : Int) (hk : k ∈ keys T) : 0 ≤ k ∧ k ≤ 255 := by
  have := List.all_eq_true.mp tables_ok T hT
  simp only [tableOk, Bool.and_eq_true] at this
  obtain ⟨e, he, rfl⟩ := List.mem_map.mp hk
  have := List.all_eq_true.mp this.2 e he
  simpa using this

/-- **For every enumeration and EVERY integer v**: construction succeeds iff v is a key of the
    index-to-name map. -/
theorem newEnum_iff (T : EnumTable) (hT : T ∈ Gen.enums) (v : Int) : (T.newEnum v).isOk = true ↔ v ∈ keys T := by
  by_cases hr : v < 0 ∨ v > 255
  · constructor
    · intro h; simp [EnumTable.newEnum, hr, R.isOk] at h
    · intro h; have := keys_in_range T hT v h; omega
  · obtain ⟨b, rfl⟩ : ∃ b : Nat, v = (b : Int) := ⟨v.toNat, by omega⟩
    have := byte_ok T hT b (by omega)
    unfold byteOk at this
    split at this
    · rename_i i n i' n' h1 h2
      simp only [Bool.and_eq_true, List.contains_eq_mem, decide_eq_true_eq] at this
      rw [h1]; simp [R.isOk, this.2]
    · rename_i e e' h1 h2
      simp only [Bool.and_eq_true, Bool.not_eq_true', List.contains_eq_mem, decide_eq_false_iff_not] at this
      rw [h1]; simp [R.isOk, this.2]
    · simp at this

/-- the constant then reports index v and the mapped, non-empty name -/
theorem newEnum_value (T : EnumTable) (hT : T ∈ Gen.enums) (v i : Int) (n : String) (h : T.newEnum v = .ok (i, n)) :
    i = v ∧ T.lookup v = some n ∧ n ≠ "" := by
  have hr : ¬ (v < 0 ∨ v > 255) := by
    intro hr; simp [EnumTable.newEnum, hr] at h
  obtain ⟨b, rfl⟩ : ∃ b : Nat, v = (b : Int) := ⟨v.toNat, by omega⟩
  have := byte_ok T hT b (by omega)
  unfold byteOk at this
  rw [h] at this
  split at this
  · rename_i i0 n0 i' n' h1 h2
    simp only [Bool.and_eq_true, beq_iff_eq, bne_iff_ne, ne_eq] at this
    injection h1 with h1; injection h1 with ha hb
    subst ha; subst hb
    exact ⟨this.1.1.1.1.1, this.1.1.1.1.2, this.1.1.1.2⟩
  · rename_i h1 _; cases h1
  · simp at this

/-- otherwise the error matches ErrInvalidEnumIdx (never a panic, never another error) -/
theorem newEnum_error (T : EnumTable) (hT : T ∈ Gen.enums) (v : Int) (h : v ∉ keys T) : T.newEnum v = .err .invalidEnum := by
  by_cases hr : v < 0 ∨ v > 255
  · simp [EnumTable.newEnum, hr]
  · obtain ⟨b, rfl⟩ : ∃ b : Nat, v = (b : Int) := ⟨v.toNat, by omega⟩
    have := byte_ok T hT b (by omega)
    unfold byteOk at this
    split at this
    · simp only [Bool.and_eq_true, List.contains_eq_mem, decide_eq_true_eq] at this
      exact absurd this.2 h
    · rename_i e e' h1 h2
      simp only [Bool.and_eq_true, beq_iff_eq] at this
      rw [h1, this.1.1]
    · simp at this

/-- the typed constructors agree with `NewEnum` on all 256 bytes -/
theorem typed_agrees (T : EnumTable) (hT : T ∈ Gen.enums) (b : Nat) (hb : b < 256) : T.new b = T.newEnum b := by
  have := byte_ok T hT b hb
  unfold byteOk at this
  split at this
  · rename_i i n i' n' h1 h2
    simp only [Bool.and_eq_true, beq_iff_eq] at this
    rw [h1, h2, this.1.1.2, this.1.2]
  · rename_i e e' h1 h2
    simp only [Bool.and_eq_true, beq_iff_eq] at this
    rw [h1, h2, this.1.1, this.1.2]
  · simp at this

/-- non-vacuity: 9 is a key of InverterState; 265 = 9 + 256 and -247 are not accepted (the uint8 wrap-around) -/
example : Gen.enumInverterState ∈ Gen.enums := by decide +kernel
example : Gen.enumInverterState.newEnum 9 = .ok (9, "Inverting") := by decide +kernel
example : Gen.enumInverterState.newEnum 265 = .err .invalidEnum ∧ Gen.enumInverterState.newEnum (-247) = .err .invalidEnum := by decide +kernel

end Victron.C14
