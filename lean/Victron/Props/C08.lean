import Victron.Props.C07
/-
  C08 — BLE record decoders are total and length-safe.
  Corollaries of the thirteen `Conforms` theorems of C07, which are stated for EVERY input length and EVERY
  spare capacity (the bytes between len and cap): a read beyond the slice's length, a panic, a wrong
  length guard or a dependence on trailing bytes would each make `decodeX_spec` false.
-/
namespace Victron.C08
open Victron Victron.Ble Victron.BleSpec Victron.C07

variable {f : Bytes → Bytes → R Rec} {L : Layout}

/-- ErrInputTooShort exactly when the input is shorter than the record's documented byte length -/
theorem too_short_iff (hc : Conforms f L) (inp spare : Bytes) (hb : IsBytes inp) :
    f inp spare = .err .tooShort ↔ inp.length < L.n := by
  rw [hc inp spare hb]; exact decode_tooShort_iff L inp

/-- never panics — any length, any capacity, any content -/
theorem never_panics (hc : Conforms f L) (inp spare : Bytes) (hb : IsBytes inp) : f inp spare ≠ .panic := by
  rw [hc inp spare hb]; exact decode_ne_panic L inp

/-- never reads beyond the slice's length: the bytes between len and cap have no influence, whatever the
    capacity -/
theorem spare_independent (hc : Conforms f L) (inp s₁ s₂ : Bytes) (hb : IsBytes inp) : f inp s₁ = f inp s₂ := by
  rw [hc inp s₁ hb, hc inp s₂ hb]

/-- for longer inputs the result is independent of the bytes after the record -/
theorem suffix_independent (hc : Conforms f L) (hw : within L = true) (inp suf s₁ s₂ : Bytes)
    (hb : IsBytes inp) (hs : IsBytes suf) (hlen : L.n ≤ inp.length) :
    f (inp ++ suf) s₁ = f inp s₂ := by
  rw [hc (inp ++ suf) s₁ (hb.append hs), hc inp s₂ hb]
  exact decode_append L hw inp suf hlen

/-- all thirteen decoders: the four clauses at once -/
theorem all_decoders (name : String) (L : Layout) (h : (name, L) ∈ BleSpec.layouts) :
    ∃ f, Gen.Ble.decodeByName name = some f ∧
      ∀ inp spare, IsBytes inp →
        (f inp spare = .err .tooShort ↔ inp.length < L.n) ∧ f inp spare ≠ .panic ∧
        (∀ spare', f inp spare' = f inp spare) ∧
        (∀ suf spare', IsBytes suf → L.n ≤ inp.length → f (inp ++ suf) spare' = f inp spare) := by
  obtain ⟨f, hf, hc⟩ := all_conform name L h
  have hw : within L = true := by
    have := List.all_eq_true.mp layouts_wellformed (name, L) h
    simp only [Bool.and_eq_true] at this
    exact this.2
  exact ⟨f, hf, fun inp spare hb => ⟨too_short_iff hc inp spare hb, never_panics hc inp spare hb,
    fun s' => spare_independent hc inp s' spare hb,
    fun suf s' hs hl => suffix_independent hc hw inp suf s' spare hb hs hl⟩⟩

/-- non-vacuity: the record lengths that used to be wrong (12-byte guard for the 13-byte AC charger record …) -/
example : BleSpec.acCharger.n = 13 ∧ BleSpec.multiRs.n = 14 ∧ BleSpec.veBus.n = 13 ∧ BleSpec.dcEnergyMeter.n = 11 ∧
    BleSpec.lynxSmartBms.n = 16 ∧ BleSpec.gxDevice.n = 11 := by decide
example : Gen.Ble.decodeLynxSmartBms (List.replicate 16 0) [] ≠ .panic := by decide

end Victron.C08
