import Victron.Gen.Tables
import Victron.Model.Select
import Victron.Spec.ListSpec
import Victron.Proofs.Lookup
/-
  C12 — Each product gets exactly the register list of its product class.
  `selectList` mirrors `GetRegisterListByProduct` over the regenerated tables (T1) and is compared with the
  real function on all 65536 ids, every attribute of every register (T3, exhaustive).
-/
namespace Victron.C12
open Victron ListSpec

def fam : Families := ⟨Gen.bmvAll, Gen.solarProduct, Gen.solarGeneric, Gen.solarSettings, Gen.solarChargerData,
  Gen.solarPanelData, Gen.solarLoadData, Gen.inverterAll⟩
def full : FullLists := ⟨Gen.bmvAll, Gen.solarAll, Gen.solarLoadData, Gen.inverterAll⟩

def sel (id : Nat) : RegList × Option Err := selectList Gen.products Gen.types fam id
def row (id : Nat) : ProductRow := productRow Gen.products id

/-- kernel evaluation over every row of the product table: the selected list is the class's list -/
theorem rows_ok : Gen.products.all (fun r => decide (sel r.id = specOf full (row r.id))) = true := by decide +kernel

/-- **For every id** the register list is the one of the product's class — the family's full list minus the
    class's documented exclusions — and all other products (VE.Can MPPTs, IP43 chargers, unknown ids) yield
    ErrUnsupportedType and an empty list. -/
theorem list_by_class (id : Nat) : sel id = specOf full (row id) := by
  rcases productRow_cases Gen.products id with h | ⟨hm, hid⟩
  · have h1 : sel id = ({}, some .unsupportedType) := by
      simp only [sel, selectList]
      rw [h]; simp [defaultProduct]
    have h2 : specOf full (row id) = ({}, some .unsupportedType) := by
      simp only [row]; rw [h]; simp [specOf, classOf, defaultProduct]
    rw [h1, h2]
  · have := List.all_eq_true.mp rows_ok _ hm
    simp only [decide_eq_true_eq] at this
    change sel (row id).id = specOf full (row (row id).id) at this
    have hid' : (row id).id = id := hid
    rw [hid'] at this
    exact this

/-- the list is determined solely by the class -/
theorem class_solely (id₁ id₂ : Nat) (h : classOf (row id₁) = classOf (row id₂)) : sel id₁ = sel id₂ := by
  rw [list_by_class, list_by_class]; simp [specOf, h]

/-- unsupported ⇒ error and an empty list; supported ⇒ no error -/
theorem unsupported_empty (id : Nat) (h : classOf (row id) = none) : sel id = ({}, some .unsupportedType) := by
  rw [list_by_class]; simp [specOf, h]

theorem supported_ok (id : Nat) (c : Class) (h : classOf (row id) = some c) : sel id = (listOf full c, none) := by
  rw [list_by_class]; simp [specOf, h]

/-- within each of the five class lists: names and addresses are unique, number factors are non-zero and
    every enum or field-list register carries a decoder -/
theorem lists_ok : ∀ c : Class, listOk (listOf full c) = true := by
  intro c; cases c <;> decide +kernel

/-- the load-output class really differs: PanelCurrent out, the load registers in -/
theorem load_class : (listOf full .mpptLoad).all.all (fun r => r.name != "PanelCurrent") = true ∧
    Gen.solarLoadData.all.all (fun r => (listOf full .mpptLoad).all.contains r) = true ∧
    (listOf full .mppt).all.any (fun r => r.name == "PanelCurrent") = true := by decide +kernel

/-- non-vacuity: one product of each class and three unsupported ones -/
example : classOf (row 0x203) = some .bmv ∧ classOf (row 0xA389) = some .bmvSmart ∧ classOf (row 0xA056) = some .mppt ∧
    classOf (row 0xA05F) = some .mpptLoad ∧ classOf (row 0xA2B1) = some .phoenix ∧
    classOf (row 0xA102) = none ∧ classOf (row 0xA340) = none ∧ classOf (row 0x1234) = none := by decide +kernel

end Victron.C12
