import Victron.Gen.Tables
import Victron.Model.Cli
import Victron.Props.C10
import Victron.Props.C11
import Victron.Proofs.Cli
/-
  C20 — The CLI reports what the device holds, end to end.
  Model: `Cli.run` = connect (C11) + read-all (C10) + GetList + printing, over an abstract transport; compared
  with the REAL `vecli` binary built from /repo and run against a simulated device behind a pseudo-terminal
  (product classes x register contents x {no flag, -v, --io-log} x silent-after-k), stdout parsed line by line;
  the written I/O log is replayed through a lookup port (T3). The OS serial layer, termios timing and fmt are
  exercised, not modelled: the no-hang clause for the real binary is a harness timeout.
-/
namespace Victron.C20
open Victron Victron.Cli

def run (tr : Transport) : Output := Cli.run tr Gen.products Gen.types C12.fam Gen.enums Gen.fieldLists

/-- connecting fails (silent device, unknown or unsupported product): the error is reported, nothing else -/
theorem connect_error (tr : Transport) (h : (C11.conn tr).isOk = false) :
    run tr = ⟨.connectError, none, []⟩ := by
  unfold run Cli.run
  have : connect tr Gen.products Gen.types C12.fam = C11.conn tr := rfl
  rw [this]
  cases hc : C11.conn tr with
  | ok v => rw [hc] at h; simp [R.isOk] at h
  | err e => rfl
  | panic => rfl

/-- **The device stops answering** (or any register fails): the error is reported, no register line is
    printed, and the run terminates — `run` is a total function. -/
theorem fetch_error (tr : Transport) (id : Nat) (rl : RegList) (hc : C11.conn tr = .ok (id, rl))
    (e : Err × String) (hs : (stream tr Gen.enums Gen.fieldLists none rl {}).2 = some e) :
    run tr = ⟨.fetchError, some 0, []⟩ := by
  unfold run Cli.run
  have : connect tr Gen.products Gen.types C12.fam = C11.conn tr := rfl
  rw [this, hc]
  simp only
  cases hst : stream tr Gen.enums Gen.fieldLists none rl {} with
  | mk evs res => rw [hst] at hs; simp only at hs; rw [hs]

/-- **Header.** The number printed is the number of register lines. -/
theorem count_is_lines (tr : Transport) (n : Nat) (h : (run tr).count = some n) :
    (run tr).status ≠ .connectError ∧ n = (run tr).lines.length := by
  unfold run Cli.run at h ⊢
  generalize connect tr Gen.products Gen.types C12.fam = c at h ⊢
  cases c with
  | ok v =>
    obtain ⟨id, rl⟩ := v
    simp only at h ⊢
    generalize stream tr Gen.enums Gen.fieldLists none rl {} = st at h ⊢
    obtain ⟨evs, res⟩ := st
    cases res with
    | none => simp only at h ⊢; simp at h; exact ⟨by simp, h.symm⟩
    | some e => simp only at h ⊢; simp at h; exact ⟨by simp, by simp [← h]⟩
  | err e => simp at h
  | panic => simp at h

/-- **Order.** The register lines are ordered by non-decreasing sort key. -/
theorem lines_sorted (tr : Transport) : (run tr).lines.Pairwise (fun a b => a.sort ≤ b.sort) := by
  have key : ∀ (rl : RegList) (vals : List (String × Val)), (linesOf rl vals).Pairwise (fun a b => a.sort ≤ b.sort) := by
    intro rl vals
    have := List.pairwise_mergeSort (le := fun (a b : Line) => decide (a.sort ≤ b.sort))
      (by intro a b c h1 h2; simp at h1 h2 ⊢; omega) (by intro a b; simp; omega)
      (vals.filterMap (fun p => (rl.all.find? (·.name == p.1)).map (fun r => Line.mk r.sort p.1 p.2 r.unit)))
    simpa [linesOf] using this
  unfold run Cli.run
  cases hc : connect tr Gen.products Gen.types C12.fam with
  | ok v =>
    obtain ⟨id, rl⟩ := v
    simp only
    cases hst : stream tr Gen.enums Gen.fieldLists none rl {} with
    | mk evs res =>
      cases res with
      | none => exact key rl (collect evs)
      | some e => simp
  | err e => simp
  | panic => simp

/-- **Content.** Every line is a register of the connected product's list (its sort key and unit) showing a
    value that was delivered by the read — which, by C10, is the value `readReg` decodes from what the device
    holds, scaled as the register defines (C09). -/
theorem lines_are_registers (tr : Transport) (id : Nat) (rl : RegList) (hc : C11.conn tr = .ok (id, rl)) (l : Line)
    (hl : l ∈ (run tr).lines) :
    ∃ r ∈ rl.all, r.name = l.name ∧ r.sort = l.sort ∧ r.unit = l.unit ∧
      (l.name, l.val) ∈ collect (stream tr Gen.enums Gen.fieldLists none rl {}).1 := by
  unfold run Cli.run at hl
  have : connect tr Gen.products Gen.types C12.fam = C11.conn tr := rfl
  rw [this, hc] at hl
  simp only at hl
  cases hst : stream tr Gen.enums Gen.fieldLists none rl {} with
  | mk evs res =>
    rw [hst] at hl
    cases res with
    | some e => simp at hl
    | none =>
      simp only [linesOf] at hl
      have hm := (List.mergeSort_perm _ _).mem_iff.mp hl
      simp only [List.mem_filterMap, Option.map_eq_some_iff] at hm
      obtain ⟨p, hp, r, hr, rfl⟩ := hm
      have hf := List.find?_some hr
      simp only [beq_iff_eq] at hf
      exact ⟨r, List.mem_of_find?_eq_some hr, hf, rfl, rfl, by simpa using hp⟩

/-- with a healthy device every delivered name appears: nothing is lost between the read and the print-out -/
theorem all_delivered_printed (tr : Transport) (id : Nat) (rl : RegList) (hc : C11.conn tr = .ok (id, rl))
    (hs : (stream tr Gen.enums Gen.fieldLists none rl {}).2 = none) (p : String × Val)
    (hp : p ∈ collect (stream tr Gen.enums Gen.fieldLists none rl {}).1) (hr : ∃ r ∈ rl.all, r.name = p.1) :
    ∃ l ∈ (run tr).lines, l.name = p.1 ∧ l.val = p.2 := by
  unfold run Cli.run
  have : connect tr Gen.products Gen.types C12.fam = C11.conn tr := rfl
  rw [this, hc]
  simp only
  cases hst : stream tr Gen.enums Gen.fieldLists none rl {} with
  | mk evs res =>
    rw [hst] at hs hp
    simp only at hs hp
    subst hs
    simp only [linesOf]
    obtain ⟨r, hrm, hrn⟩ := hr
    have hfind : ∃ r', rl.all.find? (·.name == p.1) = some r' := by
      cases hf : rl.all.find? (·.name == p.1) with
      | some r' => exact ⟨r', rfl⟩
      | none =>
        have := List.find?_eq_none.mp hf r hrm
        simp [hrn] at this
    obtain ⟨r', hr'⟩ := hfind
    refine ⟨⟨r'.sort, p.1, p.2, r'.unit⟩, ?_, rfl, rfl⟩
    apply (List.mergeSort_perm _ _).mem_iff.mpr
    simp only [List.mem_filterMap, Option.map_eq_some_iff]
    exact ⟨p, hp, r', hr', rfl⟩

/-- the register names of a connected product's list are pairwise distinct (C11 + C12) -/
theorem connected_names_unique (tr : Transport) (id : Nat) (rl : RegList) (hc : C11.conn tr = .ok (id, rl)) :
    (rl.all.map (·.name)).Nodup := by
  obtain ⟨_, hrl, hnone⟩ := C11.connect_product tr id rl hc
  rw [C12.list_by_class] at hrl hnone
  unfold ListSpec.specOf at hrl hnone
  cases hcl : ListSpec.classOf (C12.row id) with
  | none => rw [hcl] at hnone; simp at hnone
  | some c =>
    rw [hcl] at hrl
    simp only at hrl
    subst hrl
    have := C12.lists_ok c
    unfold ListSpec.listOk at this
    simp only [Bool.and_eq_true] at this
    exact ListSpec.noDup_nodup _ this.1.1.1.1.1

/-- **One line per register.** A healthy device of a supported product — every register of the product's list
    reads successfully — yields status ok, a header count equal to the length of the product's list, exactly
    that many lines, and for every register of the list a line carrying its name, sort key, unit and the
    value read from the device (which by C09 is the device's content scaled as the register defines). -/
theorem run_complete (tr : Transport) (id : Nat) (rl : RegList) (hc : C11.conn tr = .ok (id, rl))
    (vals : Reg → Val) (hok : ∀ r ∈ rl.all, readReg tr Gen.enums Gen.fieldLists r = .ok (vals r)) :
    (run tr).status = .ok ∧ (run tr).count = some rl.len ∧ (run tr).lines.length = rl.len ∧
    ∀ r ∈ rl.all, ⟨r.sort, r.name, vals r, r.unit⟩ ∈ (run tr).lines := by
  have hnd := connected_names_unique tr id rl hc
  have hpl : planned rl {} = rl.all := by simp [planned, RegList.all]
  have hst : stream tr Gen.enums Gen.fieldLists none rl {} =
      (rl.all.flatMap (fun r => [Ev.read r.address, Ev.cb r.name (vals r)]), none) := by
    unfold stream; rw [hpl]; exact C10.stream_complete tr Gen.enums Gen.fieldLists rl.all 0 vals hok
  have hfm : (rl.all.map (fun r => (r.name, vals r))).filterMap
        (fun p => (rl.all.find? (·.name == p.1)).map (fun r => Line.mk r.sort p.1 p.2 r.unit)) =
      rl.all.map (fun r => Line.mk r.sort r.name (vals r) r.unit) := by
    apply filterMap_map_some
    intro r hr
    simp [find_by_name rl.all hnd r hr]
  have hlines : (run tr).lines = (rl.all.map (fun r => Line.mk r.sort r.name (vals r) r.unit)).mergeSort
      (fun a b => decide (a.sort ≤ b.sort)) ∧ (run tr).status = .ok ∧ (run tr).count = some (run tr).lines.length := by
    unfold run Cli.run
    have : connect tr Gen.products Gen.types C12.fam = C11.conn tr := rfl
    rw [this, hc]
    simp only
    rw [hst]
    simp only [linesOf, collect_complete rl.all vals hnd, hfm]
    simp
  have hlen : (run tr).lines.length = rl.len := by
    rw [hlines.1, List.length_mergeSort, List.length_map]; simp [RegList.all, RegList.len]; omega
  refine ⟨hlines.2.1, by rw [hlines.2.2, hlen], hlen, ?_⟩
  intro r hr
  rw [hlines.1]
  apply (List.mergeSort_perm _ _).mem_iff.mpr
  exact List.mem_map_of_mem (f := fun r => Line.mk r.sort r.name (vals r) r.unit) hr

/-- non-vacuity: a BMV 700 whose device answers every register with one byte: 27 lines, sorted; the same
    device falling silent: the error, no lines -/
def healthy : Transport := ⟨.ok (), .ok 0x203, fun _ => .ok [1]⟩
def dead : Transport := ⟨.ok (), .ok 0x203, fun a => if a = 0x0100 then .ok [1] else .err .other⟩
example : (run healthy).status = .ok := by decide +kernel
example : (collect (stream healthy Gen.enums Gen.fieldLists none (C12.sel 0x203).1 {}).1).length = 27 := by decide +kernel
example : run dead = ⟨.fetchError, some 0, []⟩ := by decide +kernel
example : C11.conn healthy = .ok (0x203, (C12.sel 0x203).1) ∧ (C12.sel 0x203).1.len = 27 := by decide +kernel

end Victron.C20
