import Victron.Model.BleHandle
import Victron.Props.C08
/-
  C19 — BLE advertisement handling decrypts and dispatches correctly and never crashes.
  Model: `BleHandle.handle` (ble.go `handleNewManufacturerData`), `pkcs7`, `matchDevice`; the block cipher is a
  parameter `E` in every theorem (the executable AES of Model/Aes.lean is used by the driver only and is
  validated against crypto/aes through the correspondence: every plaintext the real handler logs is compared).
  `ble.New`, BlueZ discovery and the goroutines are not modelled (they need a daemon).
-/
namespace Victron.C19
open Victron Victron.Ble Victron.BleHandle

/-- **Padding** appends between 1 and blocksize bytes, each equal to the pad length, to reach a multiple of the
    block size — for every input and every block size 1..255. -/
theorem pkcs7_shape (data : Bytes) (bs : Nat) (h1 : 0 < bs) (h2 : bs ≤ 255) :
    ∃ p, 1 ≤ p ∧ p ≤ bs ∧ pkcs7 data bs = data ++ List.replicate p p ∧ (data.length + p) % bs = 0 := by
  have hr : data.length % bs < bs := Nat.mod_lt _ h1
  refine ⟨bs - data.length % bs, by omega, by omega, ?_, ?_⟩
  · unfold pkcs7
    simp only
    rw [Nat.mod_eq_of_lt (show bs - data.length % bs < 256 by omega)]
  · have hd := Nat.div_add_mod data.length bs
    have : data.length + (bs - data.length % bs) = bs * (data.length / bs + 1) := by
      rw [Nat.mul_add, Nat.mul_one]; omega
    rw [this, Nat.mul_mod_right]

variable (E : Bytes → Bytes → Bytes) (key iv : Bytes)

theorem range_flatMap_take {α} (f : Nat → List α) (hf : ∀ i, (f i).length = 16) (a b : Nat) (h : a ≤ b) :
    ((List.range b).flatMap f).take (16 * a) = (List.range a).flatMap f := by
  have hlen : ∀ n, ((List.range n).flatMap f).length = 16 * n := by
    intro n; induction n with
    | zero => simp
    | succ k ih => rw [List.range_succ, List.flatMap_append, List.length_append, ih]; simp [hf]; omega
  obtain ⟨d, rfl⟩ : ∃ d, b = a + d := ⟨b - a, by omega⟩
  rw [List.range_add, List.flatMap_append]
  exact List.take_left' (hlen a)

/-- the key stream for a shorter message is a prefix of the key stream for a longer one -/
theorem keystream_prefix (hE : ∀ k b, (E k b).length = 16) (m n : Nat) (h : m ≤ n) :
    (keystream E key iv n).take m = keystream E key iv m := by
  unfold keystream
  simp only [← List.flatMap_def]
  have hf : ∀ i, ((fun i => (E key (incrBE iv i)).take 16) i).length = 16 := by
    intro i; simp [hE]
  rw [List.take_take, Nat.min_eq_left h]
  have hab : (m + 15) / 16 ≤ (n + 15) / 16 := Nat.div_le_div_right (by omega)
  rw [← range_flatMap_take _ hf _ _ hab, List.take_take, Nat.min_eq_left (by omega)]

theorem keystream_length (hE : ∀ k b, (E k b).length = 16) (n : Nat) : (keystream E key iv n).length = n := by
  unfold keystream
  simp only [← List.flatMap_def]
  have hlen : ∀ k, ((List.range k).flatMap (fun i => (E key (incrBE iv i)).take 16)).length = 16 * k := by
    intro k; induction k with
    | zero => simp
    | succ j ih => rw [List.range_succ, List.flatMap_append, List.length_append, ih]; simp [hE]; omega
  rw [List.length_take, hlen]; omega

/-- **CTR prefix.** The first bytes of the output depend only on the first bytes of the input: padding that is
    appended before decryption cannot alter the record bytes. -/
theorem ctr_prefix (hE : ∀ k b, (E k b).length = 16) (a b : Bytes) :
    (ctr E key iv (a ++ b)).take a.length = ctr E key iv a := by
  unfold ctr
  rw [List.take_zipWith, List.take_left', keystream_prefix E key iv hE _ _ (by simp)]
  rfl

theorem ctr_length (hE : ∀ k b, (E k b).length = 16) (a : Bytes) : (ctr E key iv a).length = a.length := by
  unfold ctr; rw [List.length_zipWith, keystream_length E key iv hE]; omega

/-- CTR decryption inverts CTR encryption under the same key and counter -/
theorem ctr_involutive (hE : ∀ k b, (E k b).length = 16) (a : Bytes) : ctr E key iv (ctr E key iv a) = a := by
  have hl := ctr_length E key iv hE a
  unfold ctr at hl ⊢
  rw [hl]
  generalize hk : keystream E key iv a.length = ks
  have hkl : ks.length = a.length := by rw [← hk]; exact keystream_length E key iv hE _
  clear hk hl
  induction a generalizing ks with
  | nil => simp
  | cons x t ih =>
    cases ks with
    | nil => simp at hkl
    | cons k ks' =>
      simp only [List.zipWith_cons_cons, List.cons.injEq]
      refine ⟨?_, ih ks' (by simpa using hkl)⟩
      rw [Nat.xor_assoc, Nat.xor_self, Nat.xor_zero]

variable (dec : Bytes → Bytes → R Rec)

/-- payloads too short to hold the 8-byte header and data are ignored -/
theorem handle_short_ignored (raw : Bytes) (h : raw.length < 9) : handle E dec key raw = .ignored := by
  simp [handle, h]

/-- an invalid key length is reported, never used -/
theorem handle_bad_key (raw : Bytes) (h : ¬ raw.length < 9) (hk : ¬ (key.length = 16 ∨ key.length = 24 ∨ key.length = 32)) :
    handle E dec key raw = .cipherError := by
  simp only [handle, h, hk, if_false, not_false_eq_true, if_true]

/-- **Decrypt and dispatch.** Otherwise the record plaintext is the AES-CTR decryption of bytes 8 onward — the
    bytes themselves, not their padded extension — under the key with the little-endian 16-bit nonce of bytes
    5–6 as initial counter block, and a type 0x01 record is decoded exactly as the solar-charger decoder
    decodes that plaintext. -/
theorem handle_decrypts (hE : ∀ k b, (E k b).length = 16) (raw : Bytes) (h : ¬ raw.length < 9)
    (hk : key.length = 16 ∨ key.length = 24 ∨ key.length = 32) :
    let iv := [raw.getD 5 0, raw.getD 6 0] ++ List.replicate 14 0
    let plain := ctr E key iv (raw.drop 8)
    ∃ spare, handle E dec key raw =
      .plain plain (if raw.getD 4 0 = 1 then some (dec plain spare) else none) := by
  intro iv plain
  have hp : (ctr E key iv (pkcs7 (raw.drop 8) 16)).take (raw.drop 8).length = plain := by
    unfold pkcs7; exact ctr_prefix E key iv hE _ _
  refine ⟨(ctr E key iv (pkcs7 (raw.drop 8) 16)).drop (raw.drop 8).length, ?_⟩
  simp only [handle, h, if_false]
  rw [if_neg (fun hn => hn hk)]
  show (if raw.getD 4 0 = 1 then Outcome.plain ((ctr E key iv (pkcs7 (raw.drop 8) 16)).take (raw.drop 8).length)
      (some (dec ((ctr E key iv (pkcs7 (raw.drop 8) 16)).take (raw.drop 8).length) ((ctr E key iv (pkcs7 (raw.drop 8) 16)).drop (raw.drop 8).length)))
    else Outcome.plain ((ctr E key iv (pkcs7 (raw.drop 8) 16)).take (raw.drop 8).length) none) = _
  rw [hp]
  split <;> rfl

theorem xor_byte {a b : Nat} (ha : a < 256) (hb : b < 256) : a ^^^ b < 256 :=
  Nat.xor_lt_two_pow (n := 8) ha hb

theorem ctr_isBytes (hEb : ∀ k b, IsBytes (E k b)) (a : Bytes) (ha : IsBytes a) : IsBytes (ctr E key iv a) := by
  unfold ctr
  intro x hx
  rw [List.mem_iff_getElem] at hx
  obtain ⟨i, hi, rfl⟩ := hx
  simp only [List.getElem_zipWith]
  refine xor_byte (ha _ (List.getElem_mem _)) ?_
  have : (keystream E key iv a.length)[i]'(by simp at hi; omega) ∈ keystream E key iv a.length := List.getElem_mem _
  unfold keystream at this
  have h2 := List.mem_of_mem_take this
  simp only [List.mem_flatten, List.mem_map, List.mem_range] at h2
  obtain ⟨l, ⟨j, _, rfl⟩, hl⟩ := h2
  exact hEb _ _ _ (List.mem_of_mem_take hl)

/-- **Never crashes**: with the solar-charger decoder (which never panics, C08) the handler's result is never a
    panic — every payload, every key. -/
theorem handle_total (hE : ∀ k b, (E k b).length = 16) (hEb : ∀ k b, IsBytes (E k b)) (raw : Bytes) (hr : IsBytes raw) :
    ∀ p r, handle E Gen.Ble.decodeSolarChargeRecord key raw = .plain p (some r) → r ≠ .panic := by
  intro p r h
  by_cases hs : raw.length < 9
  · simp [handle, hs] at h
  · by_cases hk : key.length = 16 ∨ key.length = 24 ∨ key.length = 32
    · obtain ⟨spare, he⟩ := handle_decrypts E key Gen.Ble.decodeSolarChargeRecord hE raw hs hk
      rw [he] at h
      split at h
      · injection h with h1 h2
        injection h2 with h2
        rw [← h2]
        have hb : IsBytes (raw.drop 8) := fun x hx => hr x (List.mem_of_mem_drop hx)
        exact C08.never_panics C07.solarCharger _ _ (ctr_isBytes E key _ hEb _ hb)
      · simp at h
    · rw [handle_bad_key E key _ raw hs hk] at h; simp at h

/-- **Device matching**: a device is matched exactly when the address, colons removed, hex-decodes to the
    configured MAC (the first such configuration); a malformed address matches nothing. -/
theorem match_iff (macs : List Bytes) (addr : Bytes) (i : Nat) :
    matchDevice macs addr = some i ↔ ∃ a, addrBytes addr = some a ∧ macs.findIdx? (· == a) = some i := by
  unfold matchDevice
  cases addrBytes addr with
  | none => simp
  | some a => simp

theorem match_malformed (macs : List Bytes) (addr : Bytes) (h : addrBytes addr = none) : matchDevice macs addr = none := by
  simp [matchDevice, h]

theorem match_sound (macs : List Bytes) (addr : Bytes) (i : Nat) (h : matchDevice macs addr = some i) :
    ∃ a, addrBytes addr = some a ∧ macs[i]? = some a := by
  obtain ⟨a, ha, hf⟩ := (match_iff macs addr i).mp h
  refine ⟨a, ha, ?_⟩
  have := List.findIdx?_eq_some_iff_getElem.mp hf
  obtain ⟨hi, hx, _⟩ := this
  simp only [beq_iff_eq] at hx
  rw [List.getElem?_eq_getElem hi, hx]

/-- non-vacuity -/
example : matchDevice [[0xd4, 0x9d]] ("D4:9D:ZZ".toList.map Char.toNat) = none ∧
    matchDevice [[0xd4, 0x9d]] ("d4:9D".toList.map Char.toNat) = some 0 := by decide
example : pkcs7 [1, 2, 3] 16 = [1, 2, 3] ++ List.replicate 13 13 := by decide
example : handle (fun _ _ => List.replicate 16 0) (fun _ _ => .err .tooShort) (List.replicate 16 0) [0,0,0,0,1,0,0,0] = .ignored := by decide

end Victron.C19
