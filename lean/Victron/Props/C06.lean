import Victron.Model.Proto
import Victron.Proofs.Frame
import Victron.Proofs.Scan
import Victron.Proofs.Loop
import Victron.Proofs.Reads
import Victron.Proofs.FailReads
/-
  C06 — No device behaviour or port failure can crash or hang the driver.
  Model: the whole `Vd` machine with the fault plan (failing Write / Read / Flush at any call index) and
  `R.panic` for every bounds check of `VeCommand`, `VeCommandGet`, `GetDeviceId`.
  Termination: every definition of the model is a total function accepted by Lean's termination checker
  (structural recursion; the scanner's fuel is the number of pending bytes + 1, and `Proofs/Scan.lean`
  shows that fuel is enough) — that is the no-hang argument for finite byte streams.
-/
namespace Victron.C06
open Victron

/-- `VeCommand` never panics: whatever the port does, whatever was received -/
theorem veCommand_no_panic (σ : Vd) (idle : Bool) (cmd addr : Nat) : (σ.veCommand idle cmd addr).2 ≠ .panic := by
  unfold Vd.veCommand
  simp only
  split
  · simp
  · exact parseResponse_ne_panic _ _

/-- `VeCommandGet` never panics — for every state, port script, fault plan, idle pattern and address -/
theorem get_no_panic (idles : List Bool) (σ : Vd) (addr : Nat) : (Vd.veCommandGetL idles σ addr).2 ≠ .panic := by
  induction idles generalizing σ with
  | nil => simp [Vd.veCommandGetL]
  | cons i is ih =>
    have hc := veCommand_no_panic σ i 7 addr
    unfold Vd.veCommandGetL
    simp only
    split
    · rename_i h; rw [h] at hc; exact absurd rfl hc
    · exact ih _
    · rename_i raw h
      have := getStep_ne_panic addr raw
      split
      · exact ih _
      · simp
      · simp
      · rename_i hp; exact absurd hp this

theorem typed_no_panic (σ : Vd) (idles : List Bool) (addr : Nat) :
    (σ.veCommandGet idles addr).2 ≠ .panic ∧ (σ.getUint idles addr).2 ≠ .panic ∧
    (σ.getInt idles addr).2 ≠ .panic ∧ (σ.getString idles addr).2 ≠ .panic := by
  have h : (σ.veCommandGet idles addr).2 ≠ .panic := get_no_panic _ σ addr
  refine ⟨h, ?_, ?_, ?_⟩
  · unfold Vd.getUint; simp only
    cases hr : (σ.veCommandGet idles addr).2 <;> simp [R.map', hr] at h ⊢
  · unfold Vd.getInt; simp only
    cases hr : (σ.veCommandGet idles addr).2 with
    | ok v => simp [R.bind, leInt]; split <;> simp
    | err e => simp [R.bind]
    | panic => exact absurd hr h
  · unfold Vd.getString; simp only
    cases hr : (σ.veCommandGet idles addr).2 <;> simp [R.map', hr] at h ⊢

/-- `GetDeviceId` never panics: an accepted body always carries at least two payload bytes -/
theorem deviceId_no_panic (σ : Vd) (idle : Bool) : (σ.getDeviceId idle).2 ≠ .panic := by
  unfold Vd.getDeviceId
  simp only
  cases hc : σ.veCommand idle 4 0 with
  | mk σ1 r =>
    cases r with
    | ok raw =>
      simp only
      have hv : (σ.veCommand idle 4 0).2 = .ok raw := by rw [hc]
      unfold Vd.veCommand at hv
      simp only at hv
      split at hv
      · simp at hv
      · obtain ⟨ck, _, hvb⟩ := (parseResponse_ok_iff _ _ _).mp hv
        have := hvb.two_le
        rw [if_neg (by omega)]; simp
    | err e => simp
    | panic => exact absurd (by rw [hc]) (veCommand_no_panic σ idle 4 0)

theorem ping_no_panic (σ : Vd) (idle : Bool) : (σ.ping idle).2 ≠ .panic := by
  unfold Vd.ping; simp only; split <;> simp

/-- at most eight frames per register access, exactly one per Ping / device-id query -/
theorem writes_bounded (σ : Vd) (idles : List Bool) (addr : Nat) :
    (σ.veCommandGet idles addr).1.port.nW ≤ σ.port.nW + 8 :=
  (veCommandGet_written σ idles addr).choose_spec.2.2

/-- **Bounded reads.** Every Read either delivers a chunk the device actually sent or ends the attempt.
    With `credit` = chunks waiting in the port + chunks the device will still send for the commands to come,
    a register access performs at most `credit + 8` Reads: once the port reports no more data (credit 0)
    at most eight — one per attempt. -/
theorem reads_bounded (σ : Vd) (idles : List Bool) (addr : Nat) :
    (σ.veCommandGet idles addr).1.port.nR ≤ σ.port.nR + σ.port.credit + 8 :=
  veCommandGet_reads σ idles addr

/-- **…and only a bounded number of reads once the port reports no more data.** A Read that delivers nothing — end of
    data or an error — ends the attempt it occurs in, so a register access performs at most eight of them (one per
    attempt), a single command at most one: whatever the device sent before, however the bytes were chunked. -/
theorem failing_reads_bounded (σ : Vd) (idles : List Bool) (addr : Nat) :
    (σ.veCommandGet idles addr).1.port.nE ≤ σ.port.nE + 8 := by
  have := Vd.veCommandGetL_nE (idles8 idles) σ addr
  rw [idles8_length] at this
  exact this

theorem command_failing_reads_bounded (σ : Vd) (idle : Bool) (cmd : Nat) (data : Bytes) :
    (σ.sendReceive idle cmd data).1.port.nE ≤ σ.port.nE + 1 :=
  Vd.sendReceive_nE σ idle cmd data

/-- non-vacuity / witnesses of the shapes that used to crash: a check-byte-valid Get response with fewer
    than three payload bytes, an empty Done frame -/
example : (Vd.veCommandGet { port := { replies := List.replicate 8 [":700004E\n".toList.map Char.toNat] } } [true] 0).2 = .err .other := by decide
example : (Vd.getDeviceId { port := { replies := [[":154\n".toList.map Char.toNat]] } } true).2 = .err .other := by decide
example : (Vd.veCommandGet { port := { replies := [[[58]], [[55, 48]]], rFail := [1], wFail := [2], fFail := [0] } } [true, false, true] 0).2 = .err .other := by decide

end Victron.C06
