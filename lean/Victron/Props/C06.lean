import Victron.Model.Proto
import Victron.Proofs.Frame
import Victron.Proofs.Scan
import Victron.Proofs.Loop
import Victron.Proofs.Reads
import Victron.Proofs.FailReads
/-
  C06 — No device behaviour or port failure can crash or hang the driver.
  Model: the whole `Vd` machine with the fault plan (failing Write / Read / Flush at any call index) and
  `R.panic` for every bounds check of `VeCommand`, `VeCommandGet`, `GetDeviceId`.
  Termination: every definition of the model is a total function accepted by Lean's termination checker
  (structural recursion; the scanner's fuel is the number of pending bytes + 1, and `Proofs/Scan.lean`
  shows that fuel is enough) — that is the no-hang argument for finite byte streams.
-/
namespace Victron.C06
open Victron

/-- `VeCommand` never panics: whatever the port does, whatever was received -/
theorem veCommand_no_panic (σ : Vd) (idle : Bool) (cmd addr : Nat) : (σ.veCommand idle cmd addr).2 ≠ .panic := by
  unfold Vd.veCommand
  simp only
  split
  · simp
  · exact parseResponse_ne_panic _ _

/-- `VeCommandGet` never panics — for every state, port script, fault plan, idle pattern and address -/
theorem get_no_panic (idles : List Bool) (σ : Vd) (addr : Nat) : (Vd.veCommandGetL idles σ addr).2 ≠ .panic := by
  induction idles generalizing σ with
  | nil => simp [Vd.veCommandGetL]
  | cons i is ih =>
    have hc := veCommand_no_panic σ i 7 addr
    unfold Vd.veCommandGetL
    simp only
    split
    · rename_i h; rw [h] at hc; exact absurd rfl hc
    · exact ih _
    · rename_i raw h
      have := getStep_ne_panic addr raw
      split
      · exact ih _
      · simp
      · simp
      · rename_i hp; exact absurd hp this

theorem typed_no_panic (σ : Vd) (idles : List Bool) (addr : Nat) :
    (σ.veCommandGet idles addr).2 ≠ .panic ∧ (σ.getUint idles addr).2 ≠ .panic ∧
    (σ.getInt idles addr).2 ≠ .panic ∧ (σ.getString idles addr).2 ≠ .panic := by
  have h : (σ.veCommandGet idles addr).2 ≠ .panic := get_no_panic _ σ addr
  refine ⟨h, ?_, ?_, ?_⟩
  · unfold Vd.getUint; simp only
    cases hr : (σ.veCommandGet idles addr).2 <;> simp [R.map', hr] at h ⊢
  · unfold Vd.getInt; simp only
    cases hr : (σ.veCommandGet idles addr).2 with
    | ok v => simp [R.bind, leInt]; split <;> simp
    | err e => simp [R.bind]
    | panic => exact absurd hr h
  · unfold Vd.getString; simp only
    cases hr : (σ.veCommandGet idles addr).2 <;> simp [R.map', hr] at h ⊢

/-- `GetDeviceId` never panics: an accepted body always carries at least two payload bytes -/
theorem deviceId_no_panic (σ : Vd) (idle : Bool) : (σ.getDeviceId idle).2 ≠ .panic := by
  unfold Vd.getDeviceId
  simp only
  cases hc : σ.veCommand idle 4 0 with
  | mk σ1 r =>
    cases r with
    | ok raw =>
      simp only
      have hv : (σ.veCommand idle 4 0).2 = .ok raw := by rw [hc]
      unfold Vd.veCommand at hv
      simp only at hv
      split at hv
      · simp at hv
      · obtain ⟨ck, _, hvb⟩ := (parseResponse_ok_iff _ _ _).mp hv
        have := hvb.two_le
        rw [if_neg (by omega)]; simp
    | err e => simp
    | panic => exact absurd (by rw [hc]) (veCommand_no_panic σ idle 4 0)

theorem ping_no_panic (σ : Vd) (idle : Bool) : (σ.ping idle).2 ≠ .panic := by
  unfold Vd.ping; simp only; split <;> simp

/-- at most eight frames per register access, exactly one per Ping / device-id query -/
theorem writes_bounded (σ : Vd) (idles : List Bool) (addr : Nat) :
    (σ.veCommandGet idles addr).1.port.nW ≤ σ.port.nW + 8 :=
  (veCommandGet_written σ idles addr).choose_spec.2.2

/-- **Bounded reads.** Every Read either delivers a chunk the device actually sent or ends the attempt.
    With `credit` = chunks waiting in the port + chunks the device will still send for the commands to come,
    a register access performs at most `credit + 8` Reads: once the port reports no more data (credit 0)
    at most eight — one per attempt. -/
theorem reads_bounded (σ : Vd) (idles : List Bool) (addr : Nat) :
    (σ.veCommandGet idles addr).1.port.nR ≤ σ.port.nR + σ.port.credit + 8 :=
  veCommandGet_reads σ idles addr

/-- **…and only a bounded number of reads once the port reports no more data.** A Read that delivers nothing — end of
    data or an error — ends the attempt it occurs in, so a register access performs at most eight of them (one per
    attempt), a single command at most one: whatever the device sent before, however the bytes were chunked. -/
theorem failing_reads_bounded (σ : Vd) (idles : List Bool) (addr : Nat) :
    (σ.veCommandGet idles addr).1.port.nE ≤ σ.port.nE + 8 := by
  have := Vd.veCommandGetL_nE (idles8 idles) σ addr
  rw [idles8_length] at this
  exact this

theorem command_failing_reads_bounded (σ : Vd) (idle : Bool) (cmd : Nat) (data : Bytes) :
    (σ.sendReceive idle cmd data).1.port.nE ≤ σ.port.nE + 1 :=
  Vd.sendReceive_nE σ idle cmd data

/-! ### Histories: any number of calls on one driver object -/

/-- one call of the driver's public API -/
inductive Call where
  | ping (idle : Bool)
  | deviceId (idle : Bool)
  | command (idle : Bool) (cmd addr : Nat)
  | getRaw (idles : List Bool) (addr : Nat)
  | getUint (idles : List Bool) (addr : Nat)
  | getInt (idles : List Bool) (addr : Nat)
  | getString (idles : List Bool) (addr : Nat)

/-- the state after the call and whether it panicked -/
def doCall (σ : Vd) : Call → Vd × Bool
  | .ping i => let r := σ.ping i; (r.1, r.2.isPanic)
  | .deviceId i => let r := σ.getDeviceId i; (r.1, r.2.isPanic)
  | .command i c a => let r := σ.veCommand i c a; (r.1, r.2.isPanic)
  | .getRaw is a => let r := σ.veCommandGet is a; (r.1, r.2.isPanic)
  | .getUint is a => let r := σ.getUint is a; (r.1, r.2.isPanic)
  | .getInt is a => let r := σ.getInt is a; (r.1, r.2.isPanic)
  | .getString is a => let r := σ.getString is a; (r.1, r.2.isPanic)

def histStep (acc : Vd × List Bool) (c : Call) : Vd × List Bool :=
  ((doCall acc.1 c).1, acc.2 ++ [(doCall acc.1 c).2])

def history (σ : Vd) (cs : List Call) : Vd × List Bool := cs.foldl histStep (σ, [])

theorem lineEnd_port_eq (σ : Vd) : σ.lineEnd.port = σ.port := by
  unfold Vd.lineEnd; split <;> rfl

/-- one call, from any state: no panic, at most eight frames, at most eight reads that deliver nothing -/
theorem doCall_bounds (σ : Vd) (c : Call) :
    (doCall σ c).2 = false ∧ (doCall σ c).1.port.nW ≤ σ.port.nW + 8 ∧ (doCall σ c).1.port.nE ≤ σ.port.nE + 8 := by
  have isP : ∀ {α} (r : R α), r ≠ .panic → r.isPanic = false := by
    intro α r h; cases r <;> simp [R.isPanic] at h ⊢
  cases c with
  | ping i =>
    refine ⟨isP _ (ping_no_panic σ i), ?_, ?_⟩
    · obtain ⟨k, _, _, hn⟩ := σ.sendReceive_written i 1 []
      simp only [doCall, Vd.ping, lineEnd_port_eq]; omega
    · have := command_failing_reads_bounded σ i 1 []
      simp only [doCall, Vd.ping, lineEnd_port_eq]; omega
  | deviceId i =>
    refine ⟨isP _ (deviceId_no_panic σ i), ?_, ?_⟩
    · obtain ⟨k, _, _, hn⟩ := veCommand_written σ i 4 0
      simp only [doCall, Vd.getDeviceId, lineEnd_port_eq]; omega
    · have := command_failing_reads_bounded σ i 4 (paramFor 4 0)
      simp only [doCall, Vd.getDeviceId, lineEnd_port_eq]
      have e : (σ.veCommand i 4 0).1 = (σ.sendReceive i 4 (paramFor 4 0)).1 := by
        unfold Vd.veCommand; simp only; split <;> rfl
      rw [e]; omega
  | command i c a =>
    refine ⟨isP _ (veCommand_no_panic σ i c a), ?_, ?_⟩
    · obtain ⟨k, _, _, hn⟩ := veCommand_written σ i c a
      simp only [doCall]; omega
    · have := command_failing_reads_bounded σ i c (paramFor c a)
      have e : (σ.veCommand i c a).1 = (σ.sendReceive i c (paramFor c a)).1 := by
        unfold Vd.veCommand; simp only; split <;> rfl
      simp only [doCall]; rw [e]; omega
  | getRaw is a =>
    exact ⟨isP _ (typed_no_panic σ is a).1, writes_bounded σ is a, failing_reads_bounded σ is a⟩
  | getUint is a =>
    refine ⟨isP _ (typed_no_panic σ is a).2.1, ?_, ?_⟩
    · have := writes_bounded σ is a
      simp only [doCall, Vd.getUint, lineEnd_port_eq]; exact this
    · have := failing_reads_bounded σ is a
      simp only [doCall, Vd.getUint, lineEnd_port_eq]; exact this
  | getInt is a =>
    refine ⟨isP _ (typed_no_panic σ is a).2.2.1, ?_, ?_⟩
    · have := writes_bounded σ is a
      simp only [doCall, Vd.getInt, lineEnd_port_eq]; exact this
    · have := failing_reads_bounded σ is a
      simp only [doCall, Vd.getInt, lineEnd_port_eq]; exact this
  | getString is a =>
    refine ⟨isP _ (typed_no_panic σ is a).2.2.2, ?_, ?_⟩
    · have := writes_bounded σ is a
      simp only [doCall, Vd.getString, lineEnd_port_eq]; exact this
    · have := failing_reads_bounded σ is a
      simp only [doCall, Vd.getString, lineEnd_port_eq]; exact this

/-- **Any history on one driver object** — the ninth, the sixty-fifth, the thousandth call like the first, whatever the
    port delivered, withheld or refused before: no call panics, and the calls together write at most eight frames each
    and perform at most eight reads that deliver nothing each. (The model has no state besides what `Vd` shows:
    nothing to count failures in, nothing cached between calls.) -/
theorem history_bounds (cs : List Call) (σ : Vd) :
    (history σ cs).2 = List.replicate cs.length false ∧
    (history σ cs).1.port.nW ≤ σ.port.nW + 8 * cs.length ∧
    (history σ cs).1.port.nE ≤ σ.port.nE + 8 * cs.length := by
  have gen : ∀ (cs : List Call) (σ : Vd) (acc : List Bool),
      (cs.foldl histStep (σ, acc)).2 = acc ++ List.replicate cs.length false ∧
      (cs.foldl histStep (σ, acc)).1.port.nW ≤ σ.port.nW + 8 * cs.length ∧
      (cs.foldl histStep (σ, acc)).1.port.nE ≤ σ.port.nE + 8 * cs.length := by
    intro cs
    induction cs with
    | nil => intro σ acc; simp
    | cons c cs ih =>
      intro σ acc
      obtain ⟨h1, h2, h3⟩ := doCall_bounds σ c
      obtain ⟨g1, g2, g3⟩ := ih (doCall σ c).1 (acc ++ [(doCall σ c).2])
      simp only [List.foldl_cons, List.length_cons, histStep]
      refine ⟨?_, by omega, by omega⟩
      rw [g1, h1]
      simp [List.replicate_succ]
  have := gen cs σ []
  simpa [history] using this

/-- twelve unanswered reads in a row on one object: 96 frames, 96 reads at the end of data, no panic -/
example : (history { port := {} } (List.replicate 12 (.getUint [] 0xEDF0))).2 = List.replicate 12 false ∧
    (history { port := {} } (List.replicate 12 (.getUint [] 0xEDF0))).1.port.nW = 96 ∧
    (history { port := {} } (List.replicate 12 (.getUint [] 0xEDF0))).1.port.nE = 96 := by decide +kernel

/-- non-vacuity / witnesses of the shapes that used to crash: a check-byte-valid Get response with fewer
    than three payload bytes, an empty Done frame -/
example : (Vd.veCommandGet { port := { replies := List.replicate 8 [":700004E\n".toList.map Char.toNat] } } [true] 0).2 = .err .other := by decide
example : (Vd.getDeviceId { port := { replies := [[":154\n".toList.map Char.toNat]] } } true).2 = .err .other := by decide
example : (Vd.veCommandGet { port := { replies := [[[58]], [[55, 48]]], rFail := [1], wFail := [2], fFail := [0] } } [true, false, true] 0).2 = .err .other := by decide

end Victron.C06
