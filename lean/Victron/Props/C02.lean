import Victron.Model.Proto
import Victron.Proofs.Frame
import Victron.Proofs.Scan
import Victron.Proofs.Loop
/-
  C02 — Register values round-trip exactly through the wire encoding.
  Model: `leUint`, `leInt`, `trimNul` (binaryParser.go, vedirect.go), `parseResponse`/`getStep`, and the
  device side `encodeLE`, `getResponseBody` (what a protocol-conforming device sends).
-/
namespace Victron.C02
open Victron

/-- unsigned: every value that fits `w ≤ 8` bytes comes back exactly -/
theorem uint_roundtrip (w v : Nat) (hw : w ≤ 8) (hv : v < 256 ^ w) : leUint (encodeLE w v) = v := by
  unfold leUint
  rw [List.take_of_length_le (by rw [encodeLE_length]; exact hw), leNat_encodeLE, Nat.mod_eq_of_lt hv]

/-- more than eight bytes: the first eight are read (as the code documents) -/
theorem uint_first_eight (bs : Bytes) : leUint bs = leNat (bs.take 8) := rfl

/-- two's complement, one lemma per width the signed accessor supports (literals keep `omega` in its fragment) -/
theorem toS_roundtrip8 (v : Int) (h1 : -128 ≤ v) (h2 : v < 128) : toS 8 (v % 256).toNat = v := by
  unfold toS; simp only [Nat.reducePow, Nat.reduceSub]; split <;> omega
theorem toS_roundtrip16 (v : Int) (h1 : -32768 ≤ v) (h2 : v < 32768) : toS 16 (v % 65536).toNat = v := by
  unfold toS; simp only [Nat.reducePow, Nat.reduceSub]; split <;> omega
theorem toS_roundtrip32 (v : Int) (h1 : -2147483648 ≤ v) (h2 : v < 2147483648) : toS 32 (v % 4294967296).toNat = v := by
  unfold toS; simp only [Nat.reducePow, Nat.reduceSub]; split <;> omega
theorem toS_roundtrip64 (v : Int) (h1 : -9223372036854775808 ≤ v) (h2 : v < 9223372036854775808) :
    toS 64 (v % 18446744073709551616).toNat = v := by
  unfold toS; simp only [Nat.reducePow, Nat.reduceSub]; split <;> omega

/-- what a device sends for the signed value `v` in `w` bytes: the two's complement residue, little-endian -/
def encodeSigned (w : Nat) (v : Int) : Bytes := encodeLE w (v % (256 ^ w : Nat)).toNat

theorem leInt_encodeLE (w n : Nat) (hw : w = 1 ∨ w = 2 ∨ w = 4 ∨ w = 8) :
    leInt (encodeLE w n) = .ok (toS (8 * w) (n % 256 ^ w)) := by
  unfold leInt
  rw [encodeLE_length, if_pos hw, leNat_encodeLE]

/-- signed: every value of the 1-, 2-, 4- and 8-byte ranges comes back exactly, sign-extended according to
    the width actually sent -/
theorem int_roundtrip (w : Nat) (v : Int) (hw : w = 1 ∨ w = 2 ∨ w = 4 ∨ w = 8)
    (hlo : -(2 ^ (8 * w - 1) : Int) ≤ v) (hhi : v < 2 ^ (8 * w - 1)) :
    leInt (encodeSigned w v) = .ok v := by
  unfold encodeSigned
  rw [leInt_encodeLE _ _ hw]
  congr 1
  rcases hw with rfl | rfl | rfl | rfl
  · have e : (v % ((256 ^ 1 : Nat) : Int)).toNat % 256 ^ 1 = (v % 256).toNat := by
      simp only [Nat.reducePow]; omega
    rw [e]; exact toS_roundtrip8 v (by simpa using hlo) (by simpa using hhi)
  · have e : (v % ((256 ^ 2 : Nat) : Int)).toNat % 256 ^ 2 = (v % 65536).toNat := by
      simp only [Nat.reducePow]; omega
    rw [e]; exact toS_roundtrip16 v (by simpa using hlo) (by simpa using hhi)
  · have e : (v % ((256 ^ 4 : Nat) : Int)).toNat % 256 ^ 4 = (v % 4294967296).toNat := by
      simp only [Nat.reducePow]; omega
    rw [e]; exact toS_roundtrip32 v (by simpa using hlo) (by simpa using hhi)
  · have e : (v % ((256 ^ 8 : Nat) : Int)).toNat % 256 ^ 8 = (v % 18446744073709551616).toNat := by
      simp only [Nat.reducePow]; omega
    rw [e]; exact toS_roundtrip64 v (by simpa using hlo) (by simpa using hhi)

/-- a width the signed accessor cannot interpret (0, 3, 5, 6, 7, > 8 bytes) is an error, not a guess -/
theorem int_width_error (bs : Bytes) (h : ¬ (bs.length = 1 ∨ bs.length = 2 ∨ bs.length = 4 ∨ bs.length = 8)) :
    leInt bs = .err .other := by
  unfold leInt; rw [if_neg h]

/-- text: trailing NULs are stripped and every other byte (interior NULs included) is preserved -/
theorem string_roundtrip (s : Bytes) (k : Nat) (h : s = [] ∨ s.getLast? ≠ some 0) :
    trimNul (s ++ List.replicate k 0) = s := by
  unfold trimNul
  rw [List.reverse_append, List.reverse_replicate]
  have hdrop : ∀ (k : Nat) (t : Bytes), (List.replicate k 0 ++ t).dropWhile (· == 0) = t.dropWhile (· == 0) := by
    intro k t; induction k with
    | zero => simp
    | succ n ih => simp [List.replicate_succ, List.dropWhile_cons, ih]
  rw [hdrop]
  rcases h with rfl | h
  · simp
  · cases hr : s.reverse with
    | nil => simp at hr; subst hr; simp
    | cons a t =>
      have ha : s.getLast? = some a := by rw [List.getLast?_eq_head?_reverse, hr]; simp
      have : a ≠ 0 := by intro h0; subst h0; exact h ha
      rw [List.dropWhile_cons]
      simp [this]
      have : s = (a :: t).reverse := by rw [← hr]; simp
      rw [this]; simp

/-- the 16-bit device id -/
theorem deviceId_roundtrip (id : Nat) (h : id < 65536) : leNat ((encodeLE 2 id).take 2) = id := by
  rw [List.take_of_length_le (by rw [encodeLE_length]; omega), leNat_encodeLE]; omega

/-- **Wire round trip (decode ∘ encode).** For every address, every payload a device can hold and flag 0:
    the body `7 addr_lo addr_hi 00 payload ck` in upper-case hex is accepted by `VeCommand`, and
    `VeCommandGet`'s step extracts exactly `payload` — any length, any content. -/
theorem wire_roundtrip (addr : Nat) (haddr : addr < 65536) (payload : Bytes) (hp : IsBytes payload) :
    ∃ ck, parseResponse 7 (getResponseBody addr 0 payload) = .ok ⟨[addr % 256, addr / 256 % 256, 0] ++ payload, [ck]⟩ ∧
      getStep addr ⟨[addr % 256, addr / 256 % 256, 0] ++ payload, [ck]⟩ = .value payload :=
  wire_roundtrip' addr haddr payload hp

/-- **End to end through the driver.** On a fresh driver (idle first attempt), with a port that does not
    fail, a device answering the first attempt with that frame — in one chunk, possibly behind noise
    and async frames — makes `VeCommandGet` return exactly `payload`, having written one frame. -/
theorem get_roundtrip (σ : Vd) (idles : List Bool) (addr : Nat) (haddr : addr < 65536) (payload : Bytes) (hp : IsBytes payload)
    (hw : σ.port.wFail = []) (hr : σ.port.rFail = []) (hff : σ.port.fFail = [])
    (hreply : σ.port.replies.getD σ.port.nW [] = [frameOf (getResponseBody addr 0 payload)]) :
    (σ.veCommandGet (true :: idles) addr).2 = .ok payload := by
  have hflush : σ.flushReceiver.pending = [] := by
    simp [Vd.flushReceiver, Port.flush, hff, Vd.pending]
  have hfl : σ.flushReceiver.port.replies = σ.port.replies ∧ σ.flushReceiver.port.nW = σ.port.nW ∧
      σ.flushReceiver.port.wFail = σ.port.wFail := by
    have := σ.port.flush_weq
    exact ⟨this.2.2.1, this.2.1, this.2.2.2.1⟩
  have hok : σ.sendOk true 7 (paramFor 7 addr) = true := by
    unfold Vd.sendOk Vd.write Port.write
    simp [hfl.2.2, hw]
  have hne : (frameOf (getResponseBody addr 0 payload)).isEmpty = false := by simp [frameOf]
  have hpend : (σ.afterSend true 7 (paramFor 7 addr)).pending =
      (([] : List (Bytes × Bytes)).map asyncSeg).flatten ++ [] ++ frameOf (getResponseBody addr 0 payload) ++ [] := by
    unfold Vd.afterSend
    have hw' := Vd.write_ok σ.flushReceiver (txFrame 7 (paramFor 7 addr)) (by simpa [Vd.sendOk] using hok)
    simp only [if_true]
    rw [hw'.1, hflush, hfl.1, hfl.2.1, hreply]
    simp [hne]
  obtain ⟨σ', ha, _⟩ := Vd.attempt_good σ true addr haddr payload hp [] [] [] hok hr (by simp) (by simp) hpend
  unfold Vd.veCommandGet
  have : idles8 (true :: idles) = true :: (idles8 (true :: idles)).tail := by
    simp [idles8, numbTries, List.take]
  rw [this, Vd.veCommandGetL_cons, ha]

/-- non-vacuity of `get_roundtrip`'s hypotheses and a concrete instance: value 0x1234 at 0xEDF0 -/
example : ((Vd.veCommandGet { port := { replies := [[frameOf (getResponseBody 0xEDF0 0 [0x34, 0x12])]] } } [true] 0xEDF0).2) = .ok [0x34, 0x12] := by decide
example : leInt (encodeSigned 2 (-2)) = .ok (-2) := by decide
example : trimNul ([72, 0, 81] ++ List.replicate 3 0) = [72, 0, 81] := by decide

end Victron.C02
