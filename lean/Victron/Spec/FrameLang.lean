import Victron.Basic.Bytes
/- What C03 demands of everything written to the port, stated on bytes and independent of how frames are built. -/
namespace Victron

/-- ':' + one upper-case hex command nibble + an even number of upper-case hex digits + '\n';
    `bs` (payload followed by the check byte) is what the digits decode to;
    command, payload bytes and check byte sum to 0x55 modulo 256. -/
def WellFormedFrame (f : Bytes) (n : Nat) (bs : Bytes) : Prop :=
  ∃ (c : Nat) (ds : Bytes),
    f = 58 :: c :: ds ++ [10] ∧
    isUpperHexDigit c = true ∧ unhexDigit c = some n ∧
    (∀ d ∈ ds, isUpperHexDigit d = true) ∧
    ds.length % 2 = 0 ∧ unhex ds = some bs ∧ bs ≠ [] ∧
    (n + bs.sum) % 256 = 0x55

end Victron
