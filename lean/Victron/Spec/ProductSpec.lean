import Victron.Model.Tables
/- What C13 demands of the product table, written as decidable per-row predicates, independent of the table. -/
namespace Victron.ProductSpec
open Victron

def digitsToNat (cs : List Char) : Nat := cs.foldl (fun acc c => acc * 10 + (c.toNat - 48)) 0

/-- the two numbers of a model designation "V|I…" or "V/I…" -/
def designation (model : String) : Option (Int × Int) :=
  let cs := model.toList
  let v := cs.takeWhile Char.isDigit
  match cs.dropWhile Char.isDigit with
  | sep :: rest =>
    let i := rest.takeWhile Char.isDigit
    if (sep = '|' ∨ sep = '/') ∧ v ≠ [] ∧ i ≠ [] then some (digitsToNat v, digitsToNat i) else none
  | [] => none

/-- category demanded by the id range: 1 BMV, 2 solar, 3 inverter, 0 none -/
def rangeCategory (id : Nat) : Nat :=
  let hi := id / 256
  if hi = 0x02 ∨ (0xA380 ≤ id ∧ id ≤ 0xA38F) then 1
  else if hi = 0x03 ∨ hi = 0xA0 ∨ hi = 0xA1 then 2
  else if hi = 0xA2 ∨ (0xA340 ≤ id ∧ id ≤ 0xA34F) then 3
  else 0

/-- Phoenix inverter 0xA2xy: x = power class, low three bits of y = battery voltage, bit 3 of y = 120 V AC -/
def phoenixModel (id : Nat) : Option String :=
  let x := id / 16 % 16
  let y := id % 16
  let v := if y % 8 = 1 then some "12V" else if y % 8 = 2 then some "24V" else if y % 8 = 4 then some "48V" else none
  let ac := if y / 8 = 1 then "120V" else "230V"
  let va : Option String := match x with
    | 3 => some "250VA" | 4 => some "375VA" | 5 => some "500VA" | 6 => some "800VA" | 7 => some "1200VA"
    | 8 => some "1600VA" | 9 => some "2000VA" | 10 => some "3000VA" | 11 => some "5000VA" | 14 => some "800VA" | 15 => some "1200VA"
    | _ => none
  match v, va with
  | some v, some va =>
    if x = 11 then some (v ++ " " ++ va ++ " " ++ ac ++ "ac 64k")
    else if x = 14 ∨ x = 15 then some (v ++ " " ++ va ++ " " ++ ac ++ "ac 64k HS")
    else some (v ++ " " ++ va ++ " " ++ ac)
  | _, _ => none

/-- the product families of each id block (the type values of veproduct/type.go): 0x02xx the BMV-70x monitors;
    0xA38x the smart monitors — BMV Smart and SmartShunt; 0x03xx BlueSolar; 0xA0xx BlueSolar / SmartSolar MPPT;
    0xA1xx their VE.Can variants; 0xA2xx Phoenix Inverter (Smart); 0xA34x Phoenix Smart IP43 Charger -/
def rangeTypes (id : Nat) : List Nat :=
  let hi := id / 256
  if hi = 0x02 then [1]
  else if 0xA380 ≤ id ∧ id ≤ 0xA38F then [2, 10]
  else if hi = 0x03 then [3]
  else if hi = 0xA0 then [3, 4]
  else if hi = 0xA1 then [5, 6]
  else if hi = 0xA2 then [7, 8]
  else if 0xA340 ≤ id ∧ id ≤ 0xA34F then [9]
  else []

def categoryOf (t : TypeRow) : Option Nat :=
  match t.bmv, t.solar, t.inverter with
  | true, false, false => some 1
  | false, true, false => some 2
  | false, false, true => some 3
  | _, _, _ => none

/-- everything C13 says about one row of the table (a row = an id on which anything is non-default) -/
def rowOk (types : List TypeRow) (r : ProductRow) : Bool :=
  let t := typeRow types r.type
  -- known ⇔ non-empty model ⇔ known type ⇔ present in the map
  r.exists_ && r.model != "" && r.type != 0 && r.inMap && r.id < 65536 &&
  -- display string
  t.name != "" && r.str == t.name ++ " " ++ r.model && r.mapVal == r.str &&
  -- exactly one category, the one of the id range
  (categoryOf t == some (rangeCategory r.id) && (rangeTypes r.id).contains r.type) &&
  -- panel numbers
  (if t.solar then designation r.model == some (r.mpv, r.mpc) else r.mpv == -1 && r.mpc == -1) &&
  -- Phoenix inverter model strings
  (if r.id / 256 = 0xA2 then phoenixModel r.id == some r.model else true)

/-- the 256 type values: exactly 1..10 have a name, each in exactly one category; the rest are in none -/
def typeOk (t : TypeRow) : Bool :=
  1 ≤ t.t && t.t ≤ 10 && t.name != "" && (categoryOf t).isSome

def strictlyAscending : List Nat → Bool
  | a :: b :: rest => a < b && strictlyAscending (b :: rest)
  | _ => true

end Victron.ProductSpec
