import Victron.Model.Ble
import Victron.Gen.Tables
/-
  The published bit layouts of the 13 BLE advertisement records (C07/C08), transcribed from the layout comment
  above each record struct in /repo/bleparser (fixed here, in /verif; see DESIGN.md Appendix A), and the
  decoder they define. Nothing in this file looks at how the Go code computes a field.
-/
namespace Victron.BleSpec
open Victron Victron.Ble

inductive Kind where
  | u                    -- unsigned
  | s                    -- two's complement
  | t40                  -- temperature: raw - 40
  | neg                  -- reported negated (consumed Ah)
  | enum (table : String) -- validated against veconst's table, else ErrInvalidEnumIdx
  | raw                  -- copied unsigned
  | rawS                 -- copied, two's complement
  deriving DecidableEq, Repr

structure Row where
  name : String
  start : Nat
  width : Nat
  kind : Kind
  na : List Nat := []          -- not-available codes, compared on the unsigned raw bits
  mul : Nat := 1
  div : Nat := 1
  off : String := "0"
  aux : Option Nat := none     -- populated only when the aux-input bits equal this mode
  unselected : FV := .nan      -- value of an aux field whose mode is not selected
  deriving Repr

structure Layout where
  n : Nat                      -- record length in bytes = ⌈(last start + width) / 8⌉
  rows : List Row
  auxAt : Nat := 0             -- start bit of the 2-bit aux input (records with aux fields)
  deriving Repr

def evalRow (inp : Bytes) (auxMode : Nat) (r : Row) : FVal :=
  let v := bits inp r.start r.width
  let num (x : Int) : FVal :=
    let val : FV := if r.na.contains v then .nan else .num x r.mul r.div r.off
    match r.aux with
    | none => .f val
    | some m => .f (if auxMode = m then val else r.unselected)
  match r.kind with
  | .u => num v
  | .s => num (sx r.width v)
  | .t40 => num ((v : Int) - 40)
  | .neg => num (-(v : Int))
  | .enum _ => .i v
  | .raw => .i v
  | .rawS => .i (sx r.width v)

/-- the first enumerated byte (in field order) whose code is outside its enumeration -/
def badEnum (inp : Bytes) (rows : List Row) : Bool :=
  rows.any (fun r => match r.kind with
    | .enum T => !enumOk Gen.enums T (bits inp r.start r.width)
    | _ => false)

def decode (L : Layout) (inp : Bytes) : R Rec :=
  if inp.length < L.n then .err .tooShort
  else if badEnum inp L.rows then .err .invalidEnum
  else .ok (L.rows.map (fun r => (r.name, evalRow inp (bits inp L.auxAt 2) r)))

/-! ### the thirteen layouts -/

def batteryMonitor : Layout := { n := 15, auxAt := 64, rows := [
  { name := "Ttg", start := 0, width := 16, kind := .u, na := [0xFFFF], mul := 60 },
  { name := "BatteryVoltage", start := 16, width := 16, kind := .s, na := [0x7FFF], div := 100 },
  { name := "AlarmReason", start := 32, width := 16, kind := .raw },
  { name := "AuxVoltage", start := 48, width := 16, kind := .s, na := [0x7FFF], div := 100, aux := some 0 },
  { name := "MidVoltage", start := 48, width := 16, kind := .u, na := [0xFFFF], div := 100, aux := some 1 },
  { name := "Temperature", start := 48, width := 16, kind := .u, na := [0xFFFF], div := 100, off := "-273.15", aux := some 2 },
  { name := "AuxMode", start := 64, width := 2, kind := .raw },
  { name := "BatteryCurrent", start := 66, width := 22, kind := .s, na := [0x3FFFFF, 0x1FFFFF], div := 1000 },
  { name := "ConsumedAh", start := 88, width := 20, kind := .neg, na := [0xFFFFF], div := 10 },
  { name := "StateOfCharge", start := 108, width := 10, kind := .u, na := [0x3FF], div := 10 } ] }

def solarCharger : Layout := { n := 12, rows := [
  { name := "DeviceState", start := 0, width := 8, kind := .enum "SolarChargerState" },
  { name := "ChargerError", start := 8, width := 8, kind := .enum "SolarChargerError" },
  { name := "BatteryVoltage", start := 16, width := 16, kind := .s, na := [0x7FFF], div := 100 },
  { name := "BatteryCurrent", start := 32, width := 16, kind := .s, na := [0x7FFF], div := 10 },
  { name := "YieldToday", start := 48, width := 16, kind := .u, na := [0xFFFF], mul := 10 },
  { name := "PvPower", start := 64, width := 16, kind := .u, na := [0xFFFF] },
  { name := "LoadCurrent", start := 80, width := 9, kind := .u, na := [0x1FF], div := 10 } ] }

def dcDcConverter : Layout := { n := 10, rows := [
  { name := "DeviceState", start := 0, width := 8, kind := .enum "DcDcConverterState" },
  { name := "ChargerError", start := 8, width := 8, kind := .enum "DcDcConverterError" },
  { name := "InputVoltage", start := 16, width := 16, kind := .u, na := [0xFFFF], div := 100 },
  { name := "OutputVoltage", start := 32, width := 16, kind := .s, na := [0x7FFF], div := 100 },
  { name := "OffReason", start := 48, width := 32, kind := .raw } ] }

def inverter : Layout := { n := 11, rows := [
  { name := "DeviceState", start := 0, width := 8, kind := .enum "InverterState" },
  { name := "AlarmReason", start := 8, width := 16, kind := .raw },
  { name := "BatteryVoltage", start := 24, width := 16, kind := .s, na := [0x7FFF], div := 100 },
  { name := "AcApparentPower", start := 40, width := 16, kind := .u, na := [0xFFFF] },
  { name := "AcVoltage", start := 56, width := 15, kind := .u, na := [0x7FFF], div := 100 },
  { name := "AcCurrent", start := 71, width := 11, kind := .u, na := [0x7FF], div := 10 } ] }

def inverterRs : Layout := { n := 12, rows := [
  { name := "DeviceState", start := 0, width := 8, kind := .enum "InverterState" },
  { name := "ChargerError", start := 8, width := 8, kind := .enum "SolarChargerError" },
  { name := "BatteryVoltage", start := 16, width := 16, kind := .s, na := [0x7FFF], div := 100 },
  { name := "BatteryCurrent", start := 32, width := 16, kind := .s, na := [0x7FFF], div := 10 },
  { name := "PvPower", start := 48, width := 16, kind := .u, na := [0xFFFF] },
  { name := "YieldToday", start := 64, width := 16, kind := .u, na := [0xFFFF], mul := 10 },
  { name := "AcOutPower", start := 80, width := 16, kind := .s, na := [0x7FFF] } ] }

def gxDevice : Layout := { n := 11, rows := [
  { name := "BatteryVoltage", start := 0, width := 16, kind := .u, na := [0xFFFF], div := 100 },
  { name := "PvPower", start := 16, width := 20, kind := .u, na := [0xFFFFF] },
  { name := "Soc", start := 36, width := 7, kind := .u, na := [0x7F] },
  { name := "BatteryPower", start := 43, width := 21, kind := .s, na := [0x0FFFFF] },
  { name := "DcPower", start := 64, width := 21, kind := .s, na := [0x0FFFFF] } ] }

def acCharger : Layout := { n := 13, rows := [
  { name := "DeviceState", start := 0, width := 8, kind := .enum "SolarChargerState" },
  { name := "ChargerError", start := 8, width := 8, kind := .enum "SolarChargerError" },
  { name := "BatteryVoltage1", start := 16, width := 13, kind := .u, na := [0x1FFF], div := 100 },
  { name := "BatteryCurrent1", start := 29, width := 11, kind := .u, na := [0x7FF], div := 10 },
  { name := "BatteryVoltage2", start := 40, width := 13, kind := .u, na := [0x1FFF], div := 100 },
  { name := "BatteryCurrent2", start := 53, width := 11, kind := .u, na := [0x7FF], div := 10 },
  { name := "BatteryVoltage3", start := 64, width := 13, kind := .u, na := [0x1FFF], div := 100 },
  { name := "BatteryCurrent3", start := 77, width := 11, kind := .u, na := [0x7FF], div := 10 },
  { name := "Temperature", start := 88, width := 7, kind := .t40, na := [0x7F] },
  { name := "AcCurrent", start := 95, width := 9, kind := .u, na := [0x1FF], div := 10 } ] }

def smartBatteryProtect : Layout := { n := 15, rows := [
  { name := "DeviceState", start := 0, width := 8, kind := .raw },
  { name := "OutputState", start := 8, width := 8, kind := .raw },
  { name := "ErrorCode", start := 16, width := 8, kind := .raw },
  { name := "AlarmReason", start := 24, width := 16, kind := .raw },
  { name := "WarningReason", start := 40, width := 16, kind := .raw },
  { name := "InputVoltage", start := 56, width := 16, kind := .s, na := [0x7FFF], div := 100 },
  { name := "OutputVoltage", start := 72, width := 16, kind := .u, na := [0xFFFF], div := 100 },
  { name := "OffReason", start := 88, width := 32, kind := .raw } ] }

def lynxSmartBms : Layout := { n := 16, rows := [
  { name := "Error", start := 0, width := 8, kind := .raw },
  { name := "Ttg", start := 8, width := 16, kind := .u, na := [0xFFFF], mul := 60 },
  { name := "BatteryVoltage", start := 24, width := 16, kind := .s, na := [0x7FFF], div := 100 },
  { name := "BatteryCurrent", start := 40, width := 16, kind := .s, na := [0x7FFF], div := 10 },
  { name := "IoStatus", start := 56, width := 16, kind := .raw },
  { name := "WarningsAlarms", start := 72, width := 18, kind := .raw },
  { name := "Soc", start := 90, width := 10, kind := .u, na := [0x3FF], div := 10 },
  { name := "ConsumedAh", start := 100, width := 20, kind := .neg, na := [0xFFFFF], div := 10 },
  { name := "Temperature", start := 120, width := 7, kind := .t40, na := [0x7F] } ] }

def multiRs : Layout := { n := 14, rows := [
  { name := "DeviceState", start := 0, width := 8, kind := .enum "InverterState" },
  { name := "ChargerError", start := 8, width := 8, kind := .enum "SolarChargerError" },
  { name := "BatteryCurrent", start := 16, width := 16, kind := .s, na := [0x7FFF], div := 10 },
  { name := "BatteryVoltage", start := 32, width := 14, kind := .u, na := [0x3FFF], div := 100 },
  { name := "ActiveAcIn", start := 46, width := 2, kind := .raw },
  { name := "ActiveAcInPower", start := 48, width := 16, kind := .s, na := [0x7FFF] },
  { name := "AcOutPower", start := 64, width := 16, kind := .s, na := [0x7FFF] },
  { name := "PvPower", start := 80, width := 16, kind := .u, na := [0xFFFF] },
  { name := "YieldToday", start := 96, width := 16, kind := .u, na := [0xFFFF], mul := 10 } ] }

def veBus : Layout := { n := 13, rows := [
  { name := "DeviceState", start := 0, width := 8, kind := .raw },
  { name := "VeBusError", start := 8, width := 8, kind := .raw },
  { name := "BatteryCurrent", start := 16, width := 16, kind := .s, na := [0x7FFF], div := 10 },
  { name := "BatteryVoltage", start := 32, width := 14, kind := .u, na := [0x3FFF], div := 100 },
  { name := "ActiveAcIn", start := 46, width := 2, kind := .raw },
  { name := "ActiveAcInPower", start := 48, width := 19, kind := .s, na := [0x7FFFF] },
  { name := "AcOutPower", start := 67, width := 19, kind := .s, na := [0x7FFFF] },
  { name := "Alarm", start := 86, width := 2, kind := .raw },
  { name := "Temperature", start := 88, width := 7, kind := .t40, na := [0x7F] },
  { name := "Soc", start := 95, width := 7, kind := .u, na := [0x7F] } ] }

def dcEnergyMeter : Layout := { n := 11, auxAt := 64, rows := [
  { name := "BmvMonitorMode", start := 0, width := 16, kind := .rawS },
  { name := "BatteryVoltage", start := 16, width := 16, kind := .s, na := [0x7FFF], div := 100 },
  { name := "AlarmReason", start := 32, width := 16, kind := .raw },
  { name := "AuxVoltage", start := 48, width := 16, kind := .s, na := [0x7FFF], div := 100, aux := some 0, unselected := .num 0 1 1 "0" },
  { name := "Temperature", start := 48, width := 16, kind := .u, na := [0xFFFF], div := 100, aux := some 2, unselected := .num 0 1 1 "0" },
  { name := "AuxMode", start := 64, width := 2, kind := .raw },
  { name := "BatteryCurrent", start := 66, width := 22, kind := .s, na := [0x3FFFFF], div := 1000 } ] }

def cell (name : String) (start : Nat) : Row :=
  { name := name, start := start, width := 7, kind := .u, na := [0x7F], div := 100, off := "2.6" }

def smartLithium : Layout := { n := 16, rows := [
  { name := "BmvFlags", start := 0, width := 32, kind := .raw },
  { name := "SmartLithiumError", start := 32, width := 16, kind := .raw },
  cell "Cell1" 48, cell "Cell2" 55, cell "Cell3" 62, cell "Cell4" 69, cell "Cell5" 76, cell "Cell6" 83, cell "Cell7" 90, cell "Cell8" 97,
  { name := "BatteryVoltage", start := 104, width := 12, kind := .u, na := [0xFFF], div := 100 },
  { name := "BalancerStatus", start := 116, width := 4, kind := .raw },
  { name := "BatteryTemperature", start := 120, width := 7, kind := .t40, na := [0x7F] } ] }

/-- decoder name (as in bleparser: `Decode<name>`) ↦ layout -/
def layouts : List (String × Layout) := [
  ("AcChargerRecord", acCharger), ("BatteryMonitorRecord", batteryMonitor), ("DcDcConverterRecord", dcDcConverter),
  ("DcEnergyMeterRecord", dcEnergyMeter), ("GxDeviceRecord", gxDevice), ("InverterRecord", inverter),
  ("InverterRsRecord", inverterRs), ("LynxSmartBms", lynxSmartBms), ("MultiRsRecord", multiRs),
  ("SmartBatteryProtectRecord", smartBatteryProtect), ("SmartLithiumRecord", smartLithium),
  ("SolarChargeRecord", solarCharger), ("VeBusRecord", veBus)]

/-- The unit in which each converted (float) field is expressed: the layout's Units column taken through the row's own
    conversion (minutes × 60 = s, 0.01 kWh × 10 = Wh, 0.01 K − 273.15 = °C, raw − 40 = °C; the DC energy meter's
    temperature stays in K: no offset). The record structs declare a unit per field (`Unit:"…"` tag); C07 demands that the
    value is converted to the unit the result declares. -/
def units : List (String × List (String × String)) := [
  ("AcChargerRecord", [("BatteryVoltage1", "V"), ("BatteryCurrent1", "A"), ("BatteryVoltage2", "V"), ("BatteryCurrent2", "A"), ("BatteryVoltage3", "V"), ("BatteryCurrent3", "A"), ("Temperature", "°C"), ("AcCurrent", "A")]),
  ("BatteryMonitorRecord", [("Ttg", "s"), ("BatteryVoltage", "V"), ("AuxVoltage", "V"), ("MidVoltage", "V"), ("Temperature", "°C"), ("BatteryCurrent", "A"), ("ConsumedAh", "Ah"), ("StateOfCharge", "%")]),
  ("DcDcConverterRecord", [("InputVoltage", "V"), ("OutputVoltage", "V")]),
  ("DcEnergyMeterRecord", [("BatteryVoltage", "V"), ("AuxVoltage", "V"), ("Temperature", "K"), ("BatteryCurrent", "A")]),
  ("GxDeviceRecord", [("BatteryVoltage", "V"), ("PvPower", "W"), ("Soc", "%"), ("BatteryPower", "W"), ("DcPower", "W")]),
  ("InverterRecord", [("BatteryVoltage", "V"), ("AcApparentPower", "VA"), ("AcVoltage", "V"), ("AcCurrent", "A")]),
  ("InverterRsRecord", [("BatteryVoltage", "V"), ("BatteryCurrent", "A"), ("PvPower", "W"), ("YieldToday", "Wh"), ("AcOutPower", "W")]),
  ("LynxSmartBms", [("Ttg", "s"), ("BatteryVoltage", "V"), ("BatteryCurrent", "A"), ("Soc", "%"), ("ConsumedAh", "Ah"), ("Temperature", "°C")]),
  ("MultiRsRecord", [("BatteryCurrent", "A"), ("BatteryVoltage", "V"), ("ActiveAcInPower", "W"), ("AcOutPower", "W"), ("PvPower", "W"), ("YieldToday", "Wh")]),
  ("SmartBatteryProtectRecord", [("InputVoltage", "V"), ("OutputVoltage", "V")]),
  ("SmartLithiumRecord", [("Cell1", "V"), ("Cell2", "V"), ("Cell3", "V"), ("Cell4", "V"), ("Cell5", "V"), ("Cell6", "V"), ("Cell7", "V"), ("Cell8", "V"), ("BatteryVoltage", "V"), ("BatteryTemperature", "°C")]),
  ("SolarChargeRecord", [("BatteryVoltage", "V"), ("BatteryCurrent", "A"), ("YieldToday", "Wh"), ("PvPower", "W"), ("LoadCurrent", "A")]),
  ("VeBusRecord", [("BatteryCurrent", "A"), ("BatteryVoltage", "V"), ("ActiveAcInPower", "W"), ("AcOutPower", "W"), ("Temperature", "°C"), ("Soc", "%")]) ]

def unitOf (record field : String) : Option String :=
  match units.find? (·.1 == record) with
  | some (_, fs) => (fs.find? (·.1 == field)).map (·.2)
  | none => none

def Row.isFloat (r : Row) : Bool :=
  match r.kind with
  | .u | .s | .t40 | .neg => true
  | _ => false

/-- unit and conversion fit together: a field declared in °C is one whose conversion ends on the Celsius scale (raw − 40, or
    0.01 K − 273.15), one declared in K has no offset, a time in s is the layout's minutes × 60; and every converted field of
    every record has exactly one declared unit. -/
def unitsOk : Bool :=
  layouts.all (fun (name, L) =>
    L.rows.all (fun r =>
      match unitOf name r.name with
      | none => !r.isFloat
      | some u =>
        r.isFloat &&
        (if u == "°C" then (r.kind == .t40 || r.off == "-273.15") else (r.kind != .t40 && r.off != "-273.15")) &&
        (if u == "K" then r.off == "0" else true) &&
        (if u == "s" then r.mul == 60 else true))) &&
  units.all (fun (name, fs) =>
    match layouts.find? (·.1 == name) with
    | none => false
    | some (_, L) => fs.all (fun (f, _) => (L.rows.filter (fun r => r.name == f)).length ≥ 1))

/-- every layout's record length is ⌈(last start + width) / 8⌉ -/
def lengthOk (L : Layout) : Bool :=
  L.n == ((L.rows.map (fun r => r.start + r.width)).foldl max 0 + 7) / 8

end Victron.BleSpec
