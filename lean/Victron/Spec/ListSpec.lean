import Victron.Model.Tables
import Victron.Model.Select
import Victron.Spec.ProductSpec
/- C12's specification: the product classes and the register list each class is entitled to, written as
   "family's full list minus the class's documented exclusions". -/
namespace Victron.ListSpec
open Victron

inductive Class where
  | bmv | bmvSmart | mppt | mpptLoad | phoenix
  deriving DecidableEq, Repr

/-- class of a product row: BMV; smart BMV or SmartShunt; MPPT charger without / with load output
    (10, 15 or 20 A rating read off the model designation); Phoenix inverter; none otherwise -/
def classOf (r : ProductRow) : Option Class :=
  if !r.exists_ then none
  else if r.type = 1 then some .bmv
  else if r.type = 2 ∨ r.type = 10 then some .bmvSmart
  else if r.type = 3 ∨ r.type = 4 then
    match ProductSpec.designation r.model with
    | some (_, c) => if c = 10 ∨ c = 15 ∨ c = 20 then some .mpptLoad else some .mppt
    | none => some .mppt
  else if r.type = 7 ∨ r.type = 8 then some .phoenix
  else none

structure FullLists where
  bmvAll : RegList
  solarAll : RegList
  solarLoadData : RegList
  inverterAll : RegList

def listOf (g : FullLists) : Class → RegList
  | .bmv => g.bmvAll.filterByName ["AuxVoltage", "BatteryTemperature", "MidPointVoltage", "MidPointVoltageDeviation",
      "AuxVoltageMinimum", "AuxVoltageMaximum"]
  | .bmvSmart => g.bmvAll.filterByName ["ProductRevision", "Description"]
  | .mppt => g.solarAll.filterByName (g.solarLoadData.all.map (·.name))
  | .mpptLoad => g.solarAll.filterByName ["PanelCurrent"]
  | .phoenix => g.inverterAll

def specOf (g : FullLists) (r : ProductRow) : RegList × Option Err :=
  match classOf r with
  | some c => (listOf g c, none)
  | none => ({}, some .unsupportedType)

def noDup {α} [DecidableEq α] : List α → Bool
  | [] => true
  | a :: t => !t.contains a && noDup t

/-- within a list: names and addresses unique, number factors non-zero, every enum / field-list register
    carries a decoder -/
def listOk (rl : RegList) : Bool :=
  noDup (rl.all.map (·.name)) && noDup (rl.all.map (·.address)) &&
  rl.n.all (fun r => r.factor != 0 && r.kind == 1) && rl.t.all (·.kind == 2) &&
  rl.e.all (fun r => r.kind == 3 && r.factory != "nil" && r.factory != "") &&
  rl.f.all (fun r => r.kind == 4 && r.factory != "nil" && r.factory != "")

end Victron.ListSpec
