import Victron.Basic.Bytes
/- Text helpers for the line protocol between the Go harness and the Lean drivers. -/
namespace Victron

def hexStr (bs : Bytes) : String :=
  String.ofList ((hexBytes bs).map Char.ofNat)

def parseHex (s : String) : Option Bytes :=
  unhex (s.toList.map Char.toNat)

/-- "-" is the empty list; otherwise items separated by `sep`. -/
def splitList (s : String) (sep : String) : List String :=
  if s = "-" then [] else s.splitOn sep

def parseNats (s : String) : Option (List Nat) :=
  (splitList s ",").mapM String.toNat?

/-- chunks: "-" none; "." inside a reply list means "no chunk"; else hex strings separated by ',' -/
def parseChunks (s : String) : Option (List Bytes) :=
  if s = "-" ∨ s = "." then some [] else (s.splitOn ",").mapM parseHex

def parseBits (s : String) : List Bool := s.toList.map (· == '1')

def parseHexNat (s : String) : Option Nat := do
  let ds ← s.toList.mapM (fun c => unhexDigit c.toNat)
  pure (ds.foldl (fun acc d => acc * 16 + d) 0)

def R.render {α} (f : α → String) : R α → String
  | .ok a => "ok:" ++ f a
  | .err e => "err:" ++ e.toString
  | .panic => "PANIC"

end Victron
