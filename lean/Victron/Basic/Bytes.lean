/-
  Bytes, hex, little-endian numbers and the result type used by every model.
  Core Lean only (this file is linked into the compiled drivers).
-/
namespace Victron

/-- A byte string is a list of naturals; `IsBytes` says every element is `< 256`.
    (Plain `Nat`s keep every arithmetic goal inside `omega`'s fragment.) -/
abbrev Bytes := List Nat

def IsBytes (bs : Bytes) : Prop := ∀ b ∈ bs, b < 256

instance (bs : Bytes) : Decidable (IsBytes bs) := by unfold IsBytes; infer_instance

theorem IsBytes.nil : IsBytes [] := by intro b h; cases h
theorem IsBytes.cons {b : Nat} {bs : Bytes} (hb : b < 256) (h : IsBytes bs) : IsBytes (b :: bs) := by
  intro x hx; cases hx with
  | head => exact hb
  | tail _ hx => exact h x hx
theorem IsBytes.head {b : Nat} {bs : Bytes} (h : IsBytes (b :: bs)) : b < 256 := h b (by simp)
theorem IsBytes.tail {b : Nat} {bs : Bytes} (h : IsBytes (b :: bs)) : IsBytes bs :=
  fun x hx => h x (by simp [hx])
theorem IsBytes.append {a b : Bytes} (ha : IsBytes a) (hb : IsBytes b) : IsBytes (a ++ b) := by
  intro x hx; rcases List.mem_append.mp hx with h | h
  · exact ha x h
  · exact hb x h
theorem IsBytes.of_append_left {a b : Bytes} (h : IsBytes (a ++ b)) : IsBytes a :=
  fun x hx => h x (List.mem_append.mpr (Or.inl hx))
theorem IsBytes.of_append_right {a b : Bytes} (h : IsBytes (a ++ b)) : IsBytes b :=
  fun x hx => h x (List.mem_append.mpr (Or.inr hx))

/-- Error kinds, as the harness canonicalises real Go errors with `errors.Is`. -/
inductive Err where
  | unknownId | notSupported | parameterError   -- vedirect device errors
  | invalidEnum                                   -- veconst.ErrInvalidEnumIdx
  | ctxDone                                       -- vedirectapi.ErrCtxDone
  | tooShort                                      -- bleparser.ErrInputTooShort
  | unsupportedType                               -- veregister.ErrUnsupportedType
  | other                                         -- any other non-nil error
  deriving DecidableEq, Repr, Inhabited

def Err.toString : Err → String
  | .unknownId => "unknown-id" | .notSupported => "not-supported" | .parameterError => "parameter-error"
  | .invalidEnum => "invalid-enum" | .ctxDone => "ctx-done" | .tooShort => "too-short"
  | .unsupportedType => "unsupported-type" | .other => "other"

/-- Result of a Go call: a value, a returned error, or a run-time panic
    (bounds check failed). "Never panics" is the theorem "the result is never `.panic`". -/
inductive R (α : Type) where
  | ok (a : α) | err (e : Err) | panic
  deriving DecidableEq, Repr

namespace R
def bind {α β} (r : R α) (f : α → R β) : R β :=
  match r with | .ok a => f a | .err e => .err e | .panic => .panic
instance : Monad R where
  pure := .ok
  bind := R.bind
def isOk {α} : R α → Bool | .ok _ => true | _ => false
def isPanic {α} : R α → Bool | .panic => true | _ => false
def map' {α β} (f : α → β) : R α → R β
  | .ok a => .ok (f a) | .err e => .err e | .panic => .panic
end R

/-! ### Hex -/

/-- ASCII code of the upper-case hex digit of `n` (`n < 16`). -/
def hexDigit (n : Nat) : Nat := if n < 10 then 48 + n else 55 + n

/-- Two upper-case hex digits of a byte (`%02X`). -/
def hexByte (b : Nat) : Bytes := [hexDigit (b / 16), hexDigit (b % 16)]

/-- `%X` of a byte value: no padding. -/
def hexNoPad (b : Nat) : Bytes := if b < 16 then [hexDigit b] else hexByte b

/-- `%X` of a byte slice: two digits per byte. -/
def hexBytes (bs : Bytes) : Bytes := bs.flatMap hexByte

/-- Value of a hex digit character; upper and lower case (as `encoding/hex` and `strconv.ParseUint`). -/
def unhexDigit (c : Nat) : Option Nat :=
  if 48 ≤ c ∧ c ≤ 57 then some (c - 48)
  else if 65 ≤ c ∧ c ≤ 70 then some (c - 55)
  else if 97 ≤ c ∧ c ≤ 102 then some (c - 87)
  else none

/-- `hex.Decode` of an even-length digit string; `none` on a non-hex character or odd length. -/
def unhex : Bytes → Option Bytes
  | [] => some []
  | [_] => none
  | a :: b :: rest =>
    match unhexDigit a, unhexDigit b, unhex rest with
    | some x, some y, some r => some ((x * 16 + y) :: r)
    | _, _, _ => none

def isUpperHexDigit (c : Nat) : Bool := (48 ≤ c && c ≤ 57) || (65 ≤ c && c ≤ 70)

/-! ### Little-endian numbers -/

/-- Little-endian value of a byte string of any length. -/
def leNat : Bytes → Nat
  | [] => 0
  | b :: bs => b + 256 * leNat bs

/-- `littleEndianBytesToUint`: the first eight bytes, little-endian. -/
def leUint (bs : Bytes) : Nat := leNat (bs.take 8)

/-- Two's-complement reading of `v` as a `w`-bit number. -/
def toS (w : Nat) (v : Nat) : Int :=
  if v % 2 ^ w < 2 ^ (w - 1) then (v % 2 ^ w : Nat) else ((v % 2 ^ w : Nat) : Int) - (2 ^ w : Nat)

/-- `littleEndianBytesToInt`: defined for 1, 2, 4, 8 bytes only. -/
def leInt (bs : Bytes) : R Int :=
  if bs.length = 1 ∨ bs.length = 2 ∨ bs.length = 4 ∨ bs.length = 8
  then .ok (toS (8 * bs.length) (leNat bs)) else .err .other

/-- `w` little-endian bytes of `v` (what a device sends). -/
def encodeLE : Nat → Nat → Bytes
  | 0, _ => []
  | w + 1, v => (v % 256) :: encodeLE w (v / 256)

/-- Drop trailing NUL bytes (`bytes.TrimRightFunc(_, r == 0)`). -/
def trimNul (bs : Bytes) : Bytes := (bs.reverse.dropWhile (· == 0)).reverse

/-- `computeChecksum`: 0x55 - cmd - Σ data (mod 256). -/
def checksum (cmd : Nat) (data : Bytes) : Nat :=
  (0x55 + 256 * (1 + data.length) - cmd % 256 - (data.map (· % 256)).sum) % 256

/-- split at the first occurrence of `x`: `(before, after)`. -/
def splitFirst (x : Nat) : Bytes → Option (Bytes × Bytes)
  | [] => none
  | b :: bs => if b = x then some ([], bs) else
      match splitFirst x bs with
      | some (p, q) => some (b :: p, q)
      | none => none

end Victron
