import Victron.Basic.Wire
import Victron.Model.Ble
import Victron.Gen.Ble
/- Line-protocol driver for the BLE cone (C07, C08): the regenerated decoders (`BD`). -/
open Victron Victron.Ble

def renderFV : FV → String
  | .num raw mul div off => s!"F({raw}*{mul}/{div}+{off})"
  | .nan => "NaN"

def renderFVal : FVal → String
  | .f v => renderFV v
  | .i v => toString v

def renderRec : R Rec → String
  | .ok r => "ok:" ++ String.intercalate ";" (r.map (fun p => p.1 ++ "=" ++ renderFVal p.2))
  | .err e => "err:" ++ e.toString
  | .panic => "PANIC"

def hexOrEmpty (s : String) : Option Bytes := if s = "-" then some [] else parseHex s

def step (line : String) : String :=
  match (line.splitOn " ").filter (fun t => !t.startsWith "mut:") with
  | ["BD", name, inp, spare] =>
    match Gen.Ble.decodeByName name, hexOrEmpty inp, hexOrEmpty spare with
    | some f, some i, some s => renderRec (f i s)
    | _, _, _ => "bad-op"
  | _ => "bad-op"

partial def loop (h : IO.FS.Stream) (out : IO.FS.Stream) : IO Unit := do
  let line ← h.getLine
  if line.isEmpty then return ()
  out.putStrLn (step (line.trimAscii.toString))
  loop h out

def main : IO Unit := do
  let out ← IO.getStdout
  loop (← IO.getStdin) out
