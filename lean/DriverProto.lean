import Victron.Basic.Wire
import Victron.Model.Proto
import Victron.Model.FileLog
/-
  Line-protocol driver for the Proto cone (C01–C06, C18): one scenario per line.
    P <cfg> <init> <replies> <wfail> <rfail> <ffail> <calls>
  prints the model's results and trace for that scenario. Pure frame functions:
    T <cmd hex> <addr hex>          -> the frame `tx cmd addr` (hex)
    V <cmd hex> <body hex>          -> parseResponse
-/
open Victron

def runCall (σ : Vd) (call : String) : Vd × String :=
  match call.splitOn "@" with
  | [c, bits] =>
    let idles := parseBits bits
    let idle := idles.headD false
    match c.splitOn ":" with
    | ["ping"] => let (σ, r) := σ.ping idle; (σ, r.render (fun _ => ""))
    | ["devid"] => let (σ, r) := σ.getDeviceId idle; (σ, r.render toString)
    | ["raw", a] => match parseHexNat a with
      | some a => let (σ, r) := σ.veCommandGet idles a; (σ, r.render hexStr)
      | none => (σ, "bad-op")
    | ["uint", a] => match parseHexNat a with
      | some a => let (σ, r) := σ.getUint idles a; (σ, r.render toString)
      | none => (σ, "bad-op")
    | ["int", a] => match parseHexNat a with
      | some a => let (σ, r) := σ.getInt idles a; (σ, r.render toString)
      | none => (σ, "bad-op")
    | ["str", a] => match parseHexNat a with
      | some a => let (σ, r) := σ.getString idles a; (σ, r.render hexStr)
      | none => (σ, "bad-op")
    | ["cmd", c, a] => match parseHexNat c, parseHexNat a with
      | some c, some a => let (σ, r) := σ.veCommand idle c a; (σ, r.render (fun s => hexStr s.data))
      | _, _ => (σ, "bad-op")
    | _ => (σ, "bad-op")
  | _ => (σ, "bad-op")

def runCalls (σ : Vd) (calls : List String) : Vd × List String :=
  calls.foldl (fun (acc : Vd × List String) c => let (σ, o) := runCall acc.1 c; (σ, acc.2 ++ [o])) (σ, [])

def renderTrace (σ : Vd) : String :=
  let w := String.intercalate "," (σ.port.written.reverse.map hexStr)
  let l := String.intercalate "," (σ.lines.reverse.map (fun l => hexStr l.tx ++ ":" ++ hexStr l.rx))
  s!"W={w} R={σ.port.nE} F={σ.port.nF} L={l}"

def scenario (toks : List String) : String :=
  match toks with
  | [cfg, ini, reps, wf, rf, ff, calls] =>
    match cfg.toNat?, parseChunks ini, (splitList reps ";").mapM parseChunks, parseNats wf, parseNats rf, parseNats ff with
    | some cfg, some ini, some reps, some wf, some rf, some ff =>
      let port : Port := { queue := ini.filter (fun c => !c.isEmpty), replies := reps, wFail := wf, rFail := rf, fFail := ff }
      let σ : Vd := { port := port, dbg := cfg % 2 == 1, ioLog := cfg / 2 % 2 == 1 }
      let (σ, outs) := runCalls σ (calls.splitOn ";")
      String.intercalate ";" outs ++ " " ++ renderTrace σ
    | _, _, _, _, _, _ => "bad-op"
  | _ => "bad-op"

/-- an eighth token lists the writes of which the port took only part ("ws:…"): the driver hands a frame to the
    port once whatever the port reports as written, so the model's answer does not depend on it -/
def scenario' (toks : List String) : String :=
  match toks with
  | [cfg, ini, reps, wf, rf, ff, calls, _ws] => scenario [cfg, ini, reps, wf, rf, ff, calls]
  | _ => scenario toks

def step (line : String) : String :=
  match line.splitOn " " with
  | "P" :: rest => scenario' rest
  | ["T", c, a] => match parseHexNat c, parseHexNat a with
    | some c, some a => hexStr (tx c a)
    | _, _ => "bad-op"
  | ["V", c, b] => match parseHexNat c, parseHex b with
    | some c, some b => (parseResponse c b).render (fun s => hexStr s.data)
    | _, _ => "bad-op"
  | ["LU", b] => match parseHex b with
    | some b => toString (leUint b)
    | none => "bad-op"
  | ["LI", b] => match parseHex b with
    | some b => (leInt b).render toString
    | none => "bad-op"
  | ["FL", prev, ls] => match (if prev = "-" then some [] else parseHex prev), (splitList ls ",").mapM parseHex with
    | some prev, some ls => hexStr (FileLog.close prev ls)
    | _, _ => "bad-op"
  | ["CK", c, b] => match parseHexNat c, parseHex b with
    | some c, some b => toString (checksum c b)
    | _, _ => "bad-op"
  | _ => "bad-op"

partial def loop (h : IO.FS.Stream) (out : IO.FS.Stream) : IO Unit := do
  let line ← h.getLine
  if line.isEmpty then return ()
  out.putStrLn (step (line.trimAscii.toString))
  loop h out

def main : IO Unit := do
  let out ← IO.getStdout
  loop (← IO.getStdin) out
